// llbx — libTooling fact extractor for the /verif static checks.
//
// For one translation unit it emits a JSON document with
//   * every function definition located under one of the --root directories
//     (methods, constructors, lambdas, template instantiations): identity,
//     parameters, the complete body AST as a flat node table, and the
//     clang::CFG (built with setAllAlwaysAdd, implicit destructors and
//     constructor initialisers) whose elements refer to node ids;
//   * records (fields, bases, methods, overrides), enums, and static-storage
//     variables with their literal initialisers.
//
// usage: llbx --out F.json --root DIR [--root DIR ...] [--map FROM=TO ...]
//             file.cpp -- <compiler flags>
//
// No rule logic lives here: the Python layer decides everything.

#include "clang/AST/ASTConsumer.h"
#include "clang/AST/ASTContext.h"
#include "clang/AST/DeclCXX.h"
#include "clang/AST/DeclTemplate.h"
#include "clang/AST/ExprCXX.h"
#include "clang/AST/RecursiveASTVisitor.h"
#include "clang/AST/StmtCXX.h"
#include "clang/Analysis/CFG.h"
#include "clang/Frontend/CompilerInstance.h"
#include "clang/Frontend/FrontendAction.h"
#include "clang/Tooling/CompilationDatabase.h"
#include "clang/Tooling/Tooling.h"
#include "llvm/Support/JSON.h"
#include "llvm/Support/Path.h"
#include "llvm/Support/raw_ostream.h"

#include <deque>
#include <map>
#include <set>
#include <string>
#include <vector>

using namespace clang;
namespace json = llvm::json;

static std::vector<std::string> Roots;
static std::vector<std::pair<std::string, std::string>> PathMap;
static std::string OutPath;

namespace {

struct FnJob {
  const FunctionDecl *FD;
  std::string parentKey;   // for lambdas: key of the enclosing function
  const LambdaExpr *LE;
  int lambdaNode;          // node id of the LambdaExpr in the parent
};

class Extractor {
public:
  ASTContext &Ctx;
  SourceManager &SM;
  PrintingPolicy PP;
  json::Array Functions, Records, Enums, Globals;
  std::vector<std::string> TypeTab;
  std::map<std::string, int> TypeIdx;
  std::map<const Decl *, int> DeclIds;
  std::set<const FunctionDecl *> SeenFns;
  std::deque<FnJob> Queue;
  std::map<const FunctionDecl *, std::string> LambdaKeys;

  // per function
  json::Array *Nodes = nullptr;
  std::map<const Stmt *, int> NodeIds;
  std::string CurKey;
  int LambdaCounter = 0;

  explicit Extractor(ASTContext &C)
      : Ctx(C), SM(C.getSourceManager()), PP(C.getLangOpts()) {
    PP.SuppressTagKeyword = true;
    PP.Bool = true;
    PP.SuppressUnwrittenScope = false;
    PP.TerseOutput = true;
    PP.AnonymousTagLocations = false;
  }

  // ---------------------------------------------------------------- helpers
  std::string fileOf(SourceLocation L) {
    if (L.isInvalid()) return "";
    L = SM.getExpansionLoc(L);
    const FileEntry *FE = SM.getFileEntryForID(SM.getFileID(L));
    if (!FE) return "";
    llvm::StringRef N = FE->tryGetRealPathName();
    std::string S = N.empty() ? std::string(FE->getName()) : N.str();
    llvm::SmallString<256> P(S);
    llvm::sys::path::remove_dots(P, true);
    return std::string(P);
  }
  bool inRoots(const std::string &F) {
    for (auto &R : Roots)
      if (F.size() > R.size() && F.compare(0, R.size(), R) == 0) {
        llvm::StringRef Rest = llvm::StringRef(F).substr(R.size());
        if (Rest.startswith("lib/llvm/") || Rest.startswith("include/llvm/") ||
            Rest.startswith("include/llvm-c/") ||
            Rest.startswith("utils/unittest/") || Rest.startswith("_build/"))
          return false;
        return true;
      }
    return false;
  }
  std::string mapPath(std::string F) {
    for (auto &M : PathMap)
      if (F.compare(0, M.first.size(), M.first) == 0)
        return M.second + F.substr(M.first.size());
    return F;
  }
  unsigned lineOf(SourceLocation L) {
    if (L.isInvalid()) return 0;
    return SM.getExpansionLineNumber(L);
  }
  int typeId(QualType T) {
    if (T.isNull()) return -1;
    std::string S = T.getAsString(PP);
    auto It = TypeIdx.find(S);
    if (It != TypeIdx.end()) return It->second;
    int Id = TypeTab.size();
    TypeTab.push_back(S);
    TypeIdx[S] = Id;
    return Id;
  }
  int declId(const Decl *D) {
    if (!D) return -1;
    D = D->getCanonicalDecl();
    auto It = DeclIds.find(D);
    if (It != DeclIds.end()) return It->second;
    int Id = DeclIds.size() + 1;
    DeclIds[D] = Id;
    return Id;
  }
  static std::string fix(llvm::StringRef S) { return json::fixUTF8(S); }

  std::string qualName(const NamedDecl *ND) {
    if (!ND) return "";
    std::string S;
    llvm::raw_string_ostream OS(S);
    ND->printQualifiedName(OS, PP);
    OS.flush();
    return S;
  }

  std::string fnKey(const FunctionDecl *FD) {
    if (!FD) return "";
    auto LI = LambdaKeys.find(FD);
    if (LI != LambdaKeys.end()) return LI->second;
    if (auto *MD = dyn_cast<CXXMethodDecl>(FD)) {
      const CXXRecordDecl *RD = MD->getParent();
      if (RD && RD->isLambda()) {
        // a lambda not (yet) reached through its enclosing function
        std::string K = "<lambda@" + mapPath(fileOf(RD->getLocation())) + ":" +
                        std::to_string(lineOf(RD->getLocation())) + ">";
        return K;
      }
    }
    std::string S = qualName(FD);
    if (auto *Args = FD->getTemplateSpecializationArgs()) {
      S += "<";
      bool First = true;
      for (const TemplateArgument &A : Args->asArray()) {
        if (!First) S += ",";
        First = false;
        std::string T;
        llvm::raw_string_ostream OS(T);
        A.print(PP, OS, true);
        OS.flush();
        S += T;
      }
      S += ">";
    }
    S += "(";
    bool First = true;
    for (const ParmVarDecl *P : FD->parameters()) {
      if (!First) S += ",";
      First = false;
      S += P->getType().getAsString(PP);
    }
    S += ")";
    if (auto *MD = dyn_cast<CXXMethodDecl>(FD))
      if (MD->isConst()) S += "const";
    return S;
  }

  // ------------------------------------------------------- node serialiser
  static bool transparentCast(CastKind K) {
    switch (K) {
    case CK_NoOp:
    case CK_LValueToRValue:
    case CK_FunctionToPointerDecay:
    case CK_ArrayToPointerDecay:
    case CK_DerivedToBase:
    case CK_UncheckedDerivedToBase:
    case CK_ConstructorConversion:
    case CK_UserDefinedConversion:
    case CK_BuiltinFnToFnPtr:
    case CK_LValueBitCast:
      return true;
    default:
      return false;
    }
  }

  const Stmt *peel(const Stmt *S) {
    while (S) {
      if (auto *P = dyn_cast<ParenExpr>(S)) { S = P->getSubExpr(); continue; }
      if (auto *E = dyn_cast<ExprWithCleanups>(S)) { S = E->getSubExpr(); continue; }
      if (auto *M = dyn_cast<MaterializeTemporaryExpr>(S)) { S = M->getSubExpr(); continue; }
      if (auto *B = dyn_cast<CXXBindTemporaryExpr>(S)) { S = B->getSubExpr(); continue; }
      if (auto *C = dyn_cast<ConstantExpr>(S)) { S = C->getSubExpr(); continue; }
      if (auto *N = dyn_cast<SubstNonTypeTemplateParmExpr>(S)) { S = N->getReplacement(); continue; }
      if (auto *D = dyn_cast<CXXDefaultArgExpr>(S)) { S = D->getExpr(); continue; }
      if (auto *D = dyn_cast<CXXDefaultInitExpr>(S)) { S = D->getExpr(); continue; }
      if (auto *C = dyn_cast<CastExpr>(S)) {
        if (transparentCast(C->getCastKind())) { S = C->getSubExpr(); continue; }
      }
      break;
    }
    return S;
  }

  int ser(const Stmt *S0) {
    if (!S0) return -1;
    auto It = NodeIds.find(S0);
    if (It != NodeIds.end()) return It->second;
    const Stmt *S = peel(S0);
    if (S != S0) {
      int Id = ser(S);
      NodeIds[S0] = Id;
      return Id;
    }
    // reserve the id first so that parents have larger ids than… no: children
    // are serialised first, the node gets the next free slot afterwards.
    json::Object O = build(S);
    int Id = Nodes->size();
    O["id"] = Id;
    O["ln"] = (int64_t)lineOf(S->getBeginLoc());
    Nodes->push_back(std::move(O));
    NodeIds[S0] = Id;
    return Id;
  }

  json::Array serList(llvm::ArrayRef<const Stmt *> L) {
    json::Array A;
    for (const Stmt *C : L) A.push_back(ser(C));
    return A;
  }

  void putCallee(json::Object &O, const FunctionDecl *FD) {
    if (!FD) return;
    O["fn"] = fix(qualName(FD));
    O["fk"] = fix(fnKey(FD));
    if (auto *MD = dyn_cast<CXXMethodDecl>(FD)) {
      if (MD->isVirtual()) O["vm"] = true;
      if (MD->isConst()) O["cm"] = true;
      if (MD->isStatic()) O["sm"] = true;
    }
    json::Array PT;
    for (const ParmVarDecl *P : FD->parameters()) PT.push_back(typeId(P->getType()));
    O["pt"] = std::move(PT);
    O["rt"] = typeId(FD->getReturnType());
    if (FD->isNoReturn()) O["noret"] = true;
  }

  void putVarRef(json::Object &O, const ValueDecl *VD) {
    O["n"] = fix(VD->getNameAsString());
    O["did"] = declId(VD);
    if (isa<ParmVarDecl>(VD)) O["dk"] = "param";
    else if (auto *V = dyn_cast<VarDecl>(VD)) {
      if (V->isLocalVarDecl() && !V->isStaticLocal()) O["dk"] = "local";
      else { O["dk"] = "global"; O["qn"] = fix(qualName(V)); }
    } else if (isa<EnumConstantDecl>(VD)) {
      O["dk"] = "enumconst";
      O["qn"] = fix(qualName(VD));
      O["v"] = (int64_t)cast<EnumConstantDecl>(VD)->getInitVal().getExtValue();
    } else if (auto *F = dyn_cast<FunctionDecl>(VD)) {
      O["dk"] = "func";
      O["qn"] = fix(qualName(VD));
      O["fk"] = fix(fnKey(F));
    } else if (isa<FieldDecl>(VD)) {
      O["dk"] = "field";
      O["qn"] = fix(qualName(VD));
    } else if (isa<BindingDecl>(VD)) O["dk"] = "binding";
    else O["dk"] = "other";
  }

  json::Object build(const Stmt *S) {
    json::Object O;
    if (auto *E = dyn_cast<Expr>(S)) {
      // types only where rules need them; cheap thanks to interning
      O["t"] = typeId(E->getType());
      QualType CT = E->getType().getCanonicalType();
      if (CT != E->getType()) O["ct"] = typeId(CT);
    }
    // ---- expressions
    if (auto *DRE = dyn_cast<DeclRefExpr>(S)) {
      O["k"] = "ref";
      putVarRef(O, DRE->getDecl());
      if (DRE->refersToEnclosingVariableOrCapture()) O["cap"] = true;
      return O;
    }
    if (auto *ME = dyn_cast<MemberExpr>(S)) {
      O["k"] = "member";
      const ValueDecl *MD = ME->getMemberDecl();
      O["n"] = fix(MD->getNameAsString());
      O["qn"] = fix(qualName(MD));
      O["did"] = declId(MD);
      O["arrow"] = ME->isArrow();
      if (isa<CXXMethodDecl>(MD)) O["method"] = true;
      if (isa<CXXThisExpr>(peel(ME->getBase())) &&
          cast<CXXThisExpr>(peel(ME->getBase()))->isImplicit())
        O["implicit_this"] = true;
      O["b"] = ser(ME->getBase());
      return O;
    }
    if (isa<CXXThisExpr>(S)) { O["k"] = "this"; return O; }
    if (auto *IL = dyn_cast<IntegerLiteral>(S)) {
      O["k"] = "int";
      O["v"] = (int64_t)IL->getValue().getLimitedValue();
      return O;
    }
    if (auto *CL = dyn_cast<CharacterLiteral>(S)) {
      O["k"] = "char"; O["v"] = (int64_t)CL->getValue(); return O;
    }
    if (auto *BL = dyn_cast<CXXBoolLiteralExpr>(S)) {
      O["k"] = "bool"; O["v"] = BL->getValue(); return O;
    }
    if (isa<CXXNullPtrLiteralExpr>(S) || isa<GNUNullExpr>(S)) { O["k"] = "null"; return O; }
    if (isa<FloatingLiteral>(S)) { O["k"] = "float"; return O; }
    if (auto *SL = dyn_cast<StringLiteral>(S)) {
      O["k"] = "str";
      if (SL->getCharByteWidth() == 1) {
        O["v"] = fix(SL->getBytes());
        O["len"] = (int64_t)SL->getByteLength();
      }
      return O;
    }
    if (auto *LE = dyn_cast<LambdaExpr>(S)) {
      O["k"] = "lambda";
      json::Array Caps;
      auto InitIt = LE->capture_init_begin();
      for (const LambdaCapture &C : LE->captures()) {
        json::Object CO;
        if (C.capturesThis()) CO["this"] = true;
        else if (C.capturesVariable()) {
          const VarDecl *V = C.getCapturedVar();
          CO["n"] = fix(V->getNameAsString());
          CO["did"] = declId(V);
          CO["t"] = typeId(V->getType());
          if (V->isInitCapture()) { CO["initcap"] = true; CO["init"] = ser(V->getInit()); }
        }
        CO["byref"] = C.getCaptureKind() == LCK_ByRef;
        CO["implicit"] = C.isImplicit();
        if (InitIt != LE->capture_init_end() && *InitIt && !CO.get("init"))
          CO["e"] = ser(*InitIt);
        ++InitIt;
        Caps.push_back(std::move(CO));
      }
      O["caps"] = std::move(Caps);
      const CXXMethodDecl *Op = LE->getCallOperator();
      std::string K = CurKey + "::<lambda#" + std::to_string(LambdaCounter++) + ">";
      LambdaKeys[Op] = K;
      O["fk"] = fix(K);
      // job queued by the caller after the node id is known
      PendingLambdas.push_back({Op, CurKey, LE, -1});
      return O;
    }
    if (auto *CE = dyn_cast<CXXConstructExpr>(S)) {
      O["k"] = "construct";
      putCallee(O, CE->getConstructor());
      std::vector<const Stmt *> A(CE->arg_begin(), CE->arg_end());
      O["args"] = serList(A);
      if (CE->getConstructor()->isCopyOrMoveConstructor()) O["copymove"] = true;
      if (CE->isElidable()) O["elidable"] = true;
      return O;
    }
    if (auto *Call = dyn_cast<CallExpr>(S)) {
      O["k"] = "call";
      const FunctionDecl *FD = Call->getDirectCallee();
      putCallee(O, FD);
      if (auto *MC = dyn_cast<CXXMemberCallExpr>(S)) {
        O["ck"] = "member";
        O["obj"] = ser(MC->getImplicitObjectArgument());
        // qualified (non-virtual) call such as Base::method()
        if (auto *ME = dyn_cast<MemberExpr>(peel(MC->getCallee())))
          if (ME->hasQualifier()) O["qualified"] = true;
        std::vector<const Stmt *> A(MC->arg_begin(), MC->arg_end());
        O["args"] = serList(A);
      } else if (auto *OC = dyn_cast<CXXOperatorCallExpr>(S)) {
        O["ck"] = "operator";
        O["op"] = getOperatorSpelling(OC->getOperator());
        std::vector<const Stmt *> A(OC->arg_begin(), OC->arg_end());
        if (FD && isa<CXXMethodDecl>(FD) && !A.empty()) {
          O["obj"] = ser(A[0]);
          A.erase(A.begin());
        }
        O["args"] = serList(A);
      } else {
        O["ck"] = FD ? "free" : "indirect";
        if (!FD) O["callee"] = ser(Call->getCallee());
        std::vector<const Stmt *> A(Call->arg_begin(), Call->arg_end());
        O["args"] = serList(A);
      }
      if (!FD) {
        // unresolved (dependent) callee: keep a printable name
        if (auto *UL = dyn_cast<UnresolvedLookupExpr>(peel(Call->getCallee())))
          O["fn"] = fix(UL->getName().getAsString());
      }
      return O;
    }
    if (auto *BO = dyn_cast<BinaryOperator>(S)) {
      O["k"] = "bin";
      O["op"] = BO->getOpcodeStr().str();
      O["l"] = ser(BO->getLHS());
      O["r"] = ser(BO->getRHS());
      return O;
    }
    if (auto *UO = dyn_cast<UnaryOperator>(S)) {
      O["k"] = "un";
      O["op"] = UnaryOperator::getOpcodeStr(UO->getOpcode()).str();
      if (UO->isPostfix()) O["post"] = true;
      O["e"] = ser(UO->getSubExpr());
      return O;
    }
    if (auto *CO = dyn_cast<AbstractConditionalOperator>(S)) {
      O["k"] = "cond";
      O["c"] = ser(CO->getCond());
      O["a"] = ser(CO->getTrueExpr());
      O["b"] = ser(CO->getFalseExpr());
      return O;
    }
    if (auto *CE = dyn_cast<CastExpr>(S)) {
      O["k"] = "cast";
      O["ck"] = CE->getCastKindName();
      O["explicit"] = isa<ExplicitCastExpr>(CE);
      if (auto *EC = dyn_cast<ExplicitCastExpr>(CE)) {
        O["written"] = typeId(EC->getTypeAsWritten());
        O["style"] = EC->getStmtClassName();
      }
      O["from"] = typeId(CE->getSubExpr()->getType());
      O["fromct"] = typeId(CE->getSubExpr()->getType().getCanonicalType());
      O["e"] = ser(CE->getSubExpr());
      return O;
    }
    if (auto *AS = dyn_cast<ArraySubscriptExpr>(S)) {
      O["k"] = "index";
      O["b"] = ser(AS->getBase());
      O["i"] = ser(AS->getIdx());
      return O;
    }
    if (auto *NE = dyn_cast<CXXNewExpr>(S)) {
      O["k"] = "new";
      O["at"] = typeId(NE->getAllocatedType());
      if (NE->getInitializer()) O["init"] = ser(NE->getInitializer());
      if (NE->isArray() && NE->getArraySize()) O["size"] = ser(*NE->getArraySize());
      return O;
    }
    if (auto *DE = dyn_cast<CXXDeleteExpr>(S)) {
      O["k"] = "delete"; O["e"] = ser(DE->getArgument()); return O;
    }
    if (auto *IL = dyn_cast<InitListExpr>(S)) {
      O["k"] = "initlist";
      const InitListExpr *Sem = IL->isSemanticForm() ? IL : (IL->getSemanticForm() ? IL->getSemanticForm() : IL);
      std::vector<const Stmt *> A(Sem->begin(), Sem->end());
      O["args"] = serList(A);
      return O;
    }
    if (auto *UE = dyn_cast<UnaryExprOrTypeTraitExpr>(S)) {
      O["k"] = "sizeof";
      Expr::EvalResult R;
      if (UE->EvaluateAsInt(R, Ctx)) O["v"] = (int64_t)R.Val.getInt().getExtValue();
      if (UE->isArgumentType()) O["at"] = typeId(UE->getArgumentType());
      else O["e"] = ser(UE->getArgumentExpr());
      return O;
    }
    if (auto *TE = dyn_cast<CXXTemporaryObjectExpr>(S)) { (void)TE; }
    if (auto *SV = dyn_cast<CXXScalarValueInitExpr>(S)) { (void)SV; O["k"] = "zeroinit"; return O; }
    if (auto *IV = dyn_cast<ImplicitValueInitExpr>(S)) { (void)IV; O["k"] = "zeroinit"; return O; }
    if (auto *SI = dyn_cast<CXXStdInitializerListExpr>(S)) {
      O["k"] = "stdinitlist"; O["e"] = ser(SI->getSubExpr()); return O;
    }
    // ---- statements
    if (auto *CS = dyn_cast<CompoundStmt>(S)) {
      O["k"] = "compound";
      std::vector<const Stmt *> A(CS->body_begin(), CS->body_end());
      O["ch"] = serList(A);
      return O;
    }
    if (auto *DS = dyn_cast<DeclStmt>(S)) {
      O["k"] = "decl";
      json::Array Vars;
      for (const Decl *D : DS->decls()) {
        if (auto *VD = dyn_cast<VarDecl>(D)) {
          json::Object V;
          V["n"] = fix(VD->getNameAsString());
          V["did"] = declId(VD);
          V["t"] = typeId(VD->getType());
          V["ct"] = typeId(VD->getType().getCanonicalType());
          if (VD->isStaticLocal()) V["static"] = true;
          if (VD->getInit()) V["init"] = ser(VD->getInit());
          Vars.push_back(std::move(V));
        }
      }
      O["vars"] = std::move(Vars);
      return O;
    }
    if (auto *IS = dyn_cast<IfStmt>(S)) {
      O["k"] = "if";
      if (IS->getInit()) O["init"] = ser(IS->getInit());
      if (IS->getConditionVariableDeclStmt()) O["condvar"] = ser(IS->getConditionVariableDeclStmt());
      O["c"] = ser(IS->getCond());
      O["then"] = ser(IS->getThen());
      if (IS->getElse()) O["else"] = ser(IS->getElse());
      return O;
    }
    if (auto *WS = dyn_cast<WhileStmt>(S)) {
      O["k"] = "while"; O["c"] = ser(WS->getCond()); O["body"] = ser(WS->getBody()); return O;
    }
    if (auto *DS = dyn_cast<DoStmt>(S)) {
      O["k"] = "do"; O["c"] = ser(DS->getCond()); O["body"] = ser(DS->getBody()); return O;
    }
    if (auto *FS = dyn_cast<ForStmt>(S)) {
      O["k"] = "for";
      if (FS->getInit()) O["init"] = ser(FS->getInit());
      if (FS->getCond()) O["c"] = ser(FS->getCond());
      if (FS->getInc()) O["inc"] = ser(FS->getInc());
      O["body"] = ser(FS->getBody());
      return O;
    }
    if (auto *RS = dyn_cast<CXXForRangeStmt>(S)) {
      O["k"] = "forrange";
      O["range"] = ser(RS->getRangeInit());
      if (const VarDecl *LV = RS->getLoopVariable()) {
        O["var"] = fix(LV->getNameAsString());
        O["vardid"] = declId(LV);
        O["vart"] = typeId(LV->getType());
      }
      if (RS->getRangeStmt()) O["rangestmt"] = ser(RS->getRangeStmt());
      if (RS->getBeginStmt()) O["beginstmt"] = ser(RS->getBeginStmt());
      if (RS->getEndStmt()) O["endstmt"] = ser(RS->getEndStmt());
      if (RS->getCond()) O["c"] = ser(RS->getCond());
      if (RS->getInc()) O["inc"] = ser(RS->getInc());
      if (RS->getLoopVarStmt()) O["loopvarstmt"] = ser(RS->getLoopVarStmt());
      O["body"] = ser(RS->getBody());
      return O;
    }
    if (auto *SS = dyn_cast<SwitchStmt>(S)) {
      O["k"] = "switch"; O["c"] = ser(SS->getCond()); O["body"] = ser(SS->getBody()); return O;
    }
    if (auto *CS = dyn_cast<CaseStmt>(S)) {
      O["k"] = "case";
      Expr::EvalResult R;
      if (CS->getLHS()->EvaluateAsInt(R, Ctx)) O["v"] = (int64_t)R.Val.getInt().getExtValue();
      if (auto *DRE = dyn_cast<DeclRefExpr>(peel(CS->getLHS())))
        O["cn"] = fix(qualName(DRE->getDecl()));
      O["sub"] = ser(CS->getSubStmt());
      return O;
    }
    if (auto *DS = dyn_cast<DefaultStmt>(S)) {
      O["k"] = "default"; O["sub"] = ser(DS->getSubStmt()); return O;
    }
    if (auto *RS = dyn_cast<ReturnStmt>(S)) {
      O["k"] = "return";
      if (RS->getRetValue()) O["e"] = ser(RS->getRetValue());
      return O;
    }
    if (isa<BreakStmt>(S)) { O["k"] = "break"; return O; }
    if (isa<ContinueStmt>(S)) { O["k"] = "continue"; return O; }
    if (isa<NullStmt>(S)) { O["k"] = "null_stmt"; return O; }
    if (auto *LS = dyn_cast<LabelStmt>(S)) {
      O["k"] = "label"; O["n"] = LS->getName(); O["sub"] = ser(LS->getSubStmt()); return O;
    }
    if (auto *GS = dyn_cast<GotoStmt>(S)) {
      O["k"] = "goto"; O["n"] = GS->getLabel()->getNameAsString(); return O;
    }
    // ---- fallback: keep the class name and the children
    O["k"] = "other";
    O["cls"] = S->getStmtClassName();
    json::Array Ch;
    for (const Stmt *C : S->children()) if (C) Ch.push_back(ser(C));
    O["ch"] = std::move(Ch);
    return O;
  }

  std::vector<FnJob> PendingLambdas;

  // ------------------------------------------------------------- functions
  void processFunction(const FnJob &Job) {
    const FunctionDecl *FD = Job.FD;
    if (!FD->doesThisDeclarationHaveABody() || !FD->getBody()) return;
    if (FD->isDependentContext()) return;
    if (!SeenFns.insert(FD).second) return;
    std::string File = fileOf(FD->getLocation());
    if (!inRoots(File)) return;

    json::Array NodeArr;
    Nodes = &NodeArr;
    NodeIds.clear();
    PendingLambdas.clear();
    LambdaCounter = 0;
    CurKey = fnKey(FD);

    json::Object F;
    F["key"] = fix(CurKey);
    F["name"] = fix(qualName(FD));
    F["file"] = mapPath(File);
    F["line"] = (int64_t)lineOf(FD->getLocation());
    F["endline"] = (int64_t)lineOf(FD->getBody()->getEndLoc());
    F["ret"] = typeId(FD->getReturnType());
    if (FD->isTemplateInstantiation()) F["instantiation"] = true;
    json::Array Params;
    for (const ParmVarDecl *P : FD->parameters()) {
      json::Object PO;
      PO["n"] = fix(P->getNameAsString());
      PO["did"] = declId(P);
      PO["t"] = typeId(P->getType());
      PO["ct"] = typeId(P->getType().getCanonicalType());
      if (P->hasDefaultArg() && !P->hasUninstantiatedDefaultArg() && !P->hasUnparsedDefaultArg())
        PO["hasdefault"] = true;
      Params.push_back(std::move(PO));
    }
    F["params"] = std::move(Params);
    if (auto *MD = dyn_cast<CXXMethodDecl>(FD)) {
      const CXXRecordDecl *RD = MD->getParent();
      F["class"] = fix(qualName(RD));
      if (MD->isVirtual()) F["virtual"] = true;
      if (MD->isConst()) F["const"] = true;
      if (MD->isStatic()) F["static"] = true;
      json::Array Ov;
      std::vector<const CXXMethodDecl *> Work(MD->begin_overridden_methods(), MD->end_overridden_methods());
      std::set<const CXXMethodDecl *> SeenO;
      while (!Work.empty()) {
        const CXXMethodDecl *M = Work.back(); Work.pop_back();
        if (!SeenO.insert(M).second) continue;
        Ov.push_back(fix(fnKey(M)));
        Work.insert(Work.end(), M->begin_overridden_methods(), M->end_overridden_methods());
      }
      if (!Ov.empty()) F["overrides"] = std::move(Ov);
      if (isa<CXXConstructorDecl>(MD)) F["ctor"] = true;
      if (isa<CXXDestructorDecl>(MD)) F["dtor"] = true;
    }
    if (Job.LE) {
      F["lambda"] = true;
      F["parent"] = fix(Job.parentKey);
    }

    // constructor initialisers belong to the AST table as well
    json::Array Inits;
    if (auto *CD = dyn_cast<CXXConstructorDecl>(FD)) {
      for (const CXXCtorInitializer *I : CD->inits()) {
        json::Object IO;
        if (I->isAnyMemberInitializer()) {
          IO["field"] = fix(qualName(I->getAnyMember()));
          IO["did"] = declId(I->getAnyMember());
        } else if (I->isBaseInitializer()) {
          IO["base"] = typeId(QualType(I->getBaseClass(), 0));
        }
        IO["written"] = I->isWritten();
        IO["e"] = ser(I->getInit());
        Inits.push_back(std::move(IO));
      }
    }
    int BodyId = ser(FD->getBody());
    F["body"] = BodyId;
    if (!Inits.empty()) F["inits"] = std::move(Inits);

    // ---- CFG
    CFG::BuildOptions BO;
    BO.setAllAlwaysAdd();
    BO.AddImplicitDtors = true;
    BO.AddInitializers = true;
    BO.AddTemporaryDtors = false;
    BO.AddEHEdges = false;
    BO.PruneTriviallyFalseEdges = false;
    std::unique_ptr<CFG> G = CFG::buildCFG(FD, FD->getBody(), &Ctx, BO);
    if (G) {
      json::Object CO;
      CO["entry"] = (int64_t)G->getEntry().getBlockID();
      CO["exit"] = (int64_t)G->getExit().getBlockID();
      json::Array Blocks;
      std::set<int> Emitted;
      for (const CFGBlock *B : *G) {
        json::Object BOb;
        BOb["id"] = (int64_t)B->getBlockID();
        json::Array Elems;
        for (const CFGElement &E : *B) {
          if (auto SE = E.getAs<CFGStmt>()) {
            int Id = ser(SE->getStmt());
            if (Id < 0 || !Emitted.insert(Id).second) continue;
            Elems.push_back(Id);
          } else if (auto IE = E.getAs<CFGInitializer>()) {
            const CXXCtorInitializer *I = IE->getInitializer();
            json::Object EO;
            EO["x"] = "init";
            if (I->isAnyMemberInitializer()) {
              EO["field"] = fix(qualName(I->getAnyMember()));
              EO["did"] = declId(I->getAnyMember());
            }
            EO["e"] = ser(I->getInit());
            Elems.push_back(std::move(EO));
          } else if (auto DE = E.getAs<CFGAutomaticObjDtor>()) {
            const VarDecl *VD = DE->getVarDecl();
            json::Object EO;
            EO["x"] = "dtor";
            EO["n"] = fix(VD->getNameAsString());
            EO["did"] = declId(VD);
            EO["t"] = typeId(VD->getType());
            EO["ln"] = (int64_t)lineOf(DE->getTriggerStmt() ? DE->getTriggerStmt()->getEndLoc() : SourceLocation());
            Elems.push_back(std::move(EO));
          }
        }
        BOb["elems"] = std::move(Elems);
        json::Array Succs;
        for (auto SI = B->succ_begin(); SI != B->succ_end(); ++SI) {
          const CFGBlock *SB = SI->getReachableBlock();
          if (!SB) SB = SI->getPossiblyUnreachableBlock();
          if (SB) Succs.push_back((int64_t)SB->getBlockID());
          else Succs.push_back(nullptr);
        }
        BOb["succs"] = std::move(Succs);
        if (B->hasNoReturnElement()) BOb["noreturn"] = true;
        if (const Stmt *T = B->getTerminatorStmt()) {
          json::Object TO;
          TO["cls"] = T->getStmtClassName();
          TO["ln"] = (int64_t)lineOf(T->getBeginLoc());
          if (auto *BOp = dyn_cast<BinaryOperator>(T)) TO["op"] = BOp->getOpcodeStr().str();
          if (const Stmt *C = B->getTerminatorCondition()) TO["c"] = ser(C);
          TO["s"] = ser(T);
          if (isa<SwitchStmt>(T)) {
            json::Array Cases;
            for (auto SI = B->succ_begin(); SI != B->succ_end(); ++SI) {
              const CFGBlock *SB = SI->getReachableBlock();
              if (!SB) SB = SI->getPossiblyUnreachableBlock();
              const Stmt *L = SB ? SB->getLabel() : nullptr;
              if (L && isa<CaseStmt>(L)) {
                Expr::EvalResult R;
                json::Object CJ;
                if (cast<CaseStmt>(L)->getLHS()->EvaluateAsInt(R, Ctx))
                  CJ["v"] = (int64_t)R.Val.getInt().getExtValue();
                if (auto *DRE = dyn_cast<DeclRefExpr>(peel(cast<CaseStmt>(L)->getLHS())))
                  CJ["cn"] = fix(qualName(DRE->getDecl()));
                Cases.push_back(std::move(CJ));
              } else if (L && isa<DefaultStmt>(L)) {
                Cases.push_back("default");
              } else {
                Cases.push_back("implicit-default");
              }
            }
            TO["cases"] = std::move(Cases);
          }
          BOb["term"] = std::move(TO);
        }
        if (const Stmt *L = B->getLabel()) BOb["label"] = ser(L);
        Blocks.push_back(std::move(BOb));
      }
      CO["blocks"] = std::move(Blocks);
      F["cfg"] = std::move(CO);
    }

    F["nodes"] = std::move(NodeArr);
    Nodes = nullptr;
    std::vector<FnJob> Lams = std::move(PendingLambdas);
    PendingLambdas.clear();
    // lambda node ids
    json::Array LamKeys;
    for (auto &L : Lams) {
      L.lambdaNode = NodeIds.count(L.LE) ? NodeIds[L.LE] : -1;
      LamKeys.push_back(fix(LambdaKeys[L.FD]));
    }
    if (!LamKeys.empty()) F["lambdas"] = std::move(LamKeys);
    Functions.push_back(std::move(F));
    for (auto &L : Lams) Queue.push_back(L);
  }

  void drain() {
    while (!Queue.empty()) {
      FnJob J = Queue.front();
      Queue.pop_front();
      processFunction(J);
    }
  }

  // ------------------------------------------------------------ decl tables
  void addRecord(const CXXRecordDecl *RD) {
    if (!RD->isCompleteDefinition() || RD->isLambda() || RD->isDependentContext()) return;
    std::string File = fileOf(RD->getLocation());
    if (!inRoots(File)) return;
    json::Object R;
    std::string RName = qualName(RD);
    if (const TypedefNameDecl *TD = RD->getTypedefNameForAnonDecl()) RName = qualName(TD);
    R["name"] = fix(RName);
    R["file"] = mapPath(File);
    R["line"] = (int64_t)lineOf(RD->getLocation());
    json::Array Bases;
    for (const CXXBaseSpecifier &B : RD->bases()) {
      if (auto *BD = B.getType()->getAsCXXRecordDecl()) Bases.push_back(fix(qualName(BD)));
    }
    R["bases"] = std::move(Bases);
    json::Array Fields;
    for (const FieldDecl *FD : RD->fields()) {
      json::Object FO;
      FO["n"] = fix(FD->getNameAsString());
      FO["qn"] = fix(qualName(FD));
      FO["did"] = declId(FD);
      FO["t"] = typeId(FD->getType());
      FO["ct"] = typeId(FD->getType().getCanonicalType());
      FO["line"] = (int64_t)lineOf(FD->getLocation());
      if (FD->isBitField()) FO["bits"] = (int64_t)FD->getBitWidthValue(Ctx);
      Fields.push_back(std::move(FO));
    }
    R["fields"] = std::move(Fields);
    json::Array Methods;
    for (const CXXMethodDecl *MD : RD->methods()) {
      if (MD->isImplicit()) continue;
      json::Object MO;
      MO["n"] = fix(MD->getNameAsString());
      MO["key"] = fix(fnKey(MD));
      if (MD->isVirtual()) MO["virtual"] = true;
      if (MD->isPure()) MO["pure"] = true;
      json::Array Ov;
      for (auto It = MD->begin_overridden_methods(); It != MD->end_overridden_methods(); ++It)
        Ov.push_back(fix(fnKey(*It)));
      if (!Ov.empty()) MO["overrides"] = std::move(Ov);
      Methods.push_back(std::move(MO));
    }
    R["methods"] = std::move(Methods);
    Records.push_back(std::move(R));
  }
  void addEnum(const EnumDecl *ED) {
    if (!ED->isCompleteDefinition()) return;
    std::string File = fileOf(ED->getLocation());
    if (!inRoots(File)) return;
    json::Object E;
    std::string EName = qualName(ED);
    if (const TypedefNameDecl *TD = ED->getTypedefNameForAnonDecl()) EName = qualName(TD);
    E["name"] = fix(EName);
    E["file"] = mapPath(File);
    E["line"] = (int64_t)lineOf(ED->getLocation());
    E["underlying"] = typeId(ED->getIntegerType());
    json::Array Vals;
    for (const EnumConstantDecl *C : ED->enumerators()) {
      json::Object CO;
      CO["n"] = fix(C->getNameAsString());
      CO["v"] = (int64_t)C->getInitVal().getExtValue();
      Vals.push_back(std::move(CO));
    }
    E["enumerators"] = std::move(Vals);
    Enums.push_back(std::move(E));
  }
  void addGlobal(const VarDecl *VD) {
    if (!VD->hasGlobalStorage() || !VD->hasInit() || isa<ParmVarDecl>(VD)) return;
    if (VD->getDeclContext()->isDependentContext()) return;
    std::string File = fileOf(VD->getLocation());
    if (!inRoots(File)) return;
    json::Object G;
    G["name"] = fix(qualName(VD));
    G["n"] = fix(VD->getNameAsString());
    G["did"] = declId(VD);
    G["file"] = mapPath(File);
    G["line"] = (int64_t)lineOf(VD->getLocation());
    G["t"] = typeId(VD->getType());
    const Expr *I = VD->getInit();
    if (I && !I->isValueDependent()) {
      const Stmt *P = peel(I);
      if (auto *SL = dyn_cast<StringLiteral>(P)) {
        if (SL->getCharByteWidth() == 1) G["str"] = fix(SL->getBytes());
      } else {
        Expr::EvalResult R;
        if (I->getType()->isIntegralOrEnumerationType() && I->EvaluateAsInt(R, Ctx))
          G["int"] = (int64_t)R.Val.getInt().getExtValue();
      }
    }
    Globals.push_back(std::move(G));
  }
};

class Finder : public RecursiveASTVisitor<Finder> {
public:
  Extractor &X;
  explicit Finder(Extractor &X) : X(X) {}
  bool shouldVisitTemplateInstantiations() const { return true; }
  bool shouldVisitImplicitCode() const { return false; }
  bool VisitFunctionDecl(FunctionDecl *FD) {
    if (auto *MD = dyn_cast<CXXMethodDecl>(FD))
      if (MD->getParent()->isLambda()) return true;
    if (FD->doesThisDeclarationHaveABody()) {
      X.Queue.push_back({FD, "", nullptr, -1});
      X.drain();
    }
    return true;
  }
  bool VisitCXXRecordDecl(CXXRecordDecl *RD) { X.addRecord(RD); return true; }
  bool VisitEnumDecl(EnumDecl *ED) { X.addEnum(ED); return true; }
  bool VisitVarDecl(VarDecl *VD) { X.addGlobal(VD); return true; }
};

class Consumer : public ASTConsumer {
public:
  void HandleTranslationUnit(ASTContext &Ctx) override {
    if (Ctx.getDiagnostics().hasErrorOccurred()) {
      llvm::errs() << "llbx: translation unit has errors\n";
      HadError = true;
    }
    Extractor X(Ctx);
    Finder F(X);
    F.TraverseDecl(Ctx.getTranslationUnitDecl());
    X.drain();
    std::error_code EC;
    llvm::raw_fd_ostream OS(OutPath, EC);
    if (EC) { llvm::errs() << "llbx: cannot write " << OutPath << "\n"; HadError = true; return; }
    json::Object Root;
    json::Array Types;
    for (auto &T : X.TypeTab) Types.push_back(Extractor::fix(T));
    Root["types"] = std::move(Types);
    Root["functions"] = std::move(X.Functions);
    Root["records"] = std::move(X.Records);
    Root["enums"] = std::move(X.Enums);
    Root["globals"] = std::move(X.Globals);
    Root["errors"] = HadError;
    OS << json::Value(std::move(Root)) << "\n";
  }
  static bool HadError;
};
bool Consumer::HadError = false;

class Action : public ASTFrontendAction {
public:
  std::unique_ptr<ASTConsumer> CreateASTConsumer(CompilerInstance &, llvm::StringRef) override {
    return std::make_unique<Consumer>();
  }
};

} // namespace

int main(int argc, const char **argv) {
  std::vector<std::string> Files;
  std::vector<std::string> Flags;
  int i = 1;
  for (; i < argc; ++i) {
    std::string A = argv[i];
    if (A == "--") { ++i; break; }
    if (A == "--out" && i + 1 < argc) { OutPath = argv[++i]; continue; }
    if (A == "--root" && i + 1 < argc) {
      std::string R = argv[++i];
      if (R.empty() || R.back() != '/') R += '/';
      Roots.push_back(R);
      continue;
    }
    if (A == "--map" && i + 1 < argc) {
      std::string M = argv[++i];
      auto P = M.find('=');
      if (P != std::string::npos) PathMap.push_back({M.substr(0, P), M.substr(P + 1)});
      continue;
    }
    Files.push_back(A);
  }
  for (; i < argc; ++i) Flags.push_back(argv[i]);
  if (Files.size() != 1 || OutPath.empty() || Roots.empty()) {
    llvm::errs() << "usage: llbx --out F --root DIR [--map A=B] file -- flags\n";
    return 2;
  }
  clang::tooling::FixedCompilationDatabase DB(".", Flags);
  clang::tooling::ClangTool Tool(DB, Files);
  int RC = Tool.run(clang::tooling::newFrontendActionFactory<Action>().get());
  if (RC != 0 || Consumer::HadError) return 1;
  return 0;
}
