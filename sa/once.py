"""E3 — exactly-once obligations (linear typestate over the CFG).

A *token* is a callable (completion callback parameter, captured copy of one,
a local wrapping one) that must be *discharged* exactly once on every path from
function entry to exit.  A discharge is
  * invoking it:                     tok(args) / tok.getValue()(args) / (*tok)(args)
  * handing it to a consumer:        f(std::move(tok)) / f(tok) where the matching
                                     parameter of f is itself under an exactly-once
                                     obligation (verified recursively when f's body
                                     is in the program, else listed in `sinks`)
  * capturing it into a continuation lambda that is passed to a consumer and
    whose body discharges the captured token exactly once (verified recursively)
For llvm::Optional<callable> tokens the empty arm of `if (tok.hasValue())`
counts as discharged (there is nothing to call).
A local initialised from a lambda that captures the token (or from a move of the
token) becomes an alias: discharging the alias discharges the token.
"""
from .facts import expr_str, strip_casts, core, qmatch
from . import cfg as C


class OnceResult(object):
    def __init__(self):
        self.ok = True
        self.exit_counts = None
        self.problems = []       # (kind, message, node, path)
        self.sites = []          # discharge descriptions
        self.sub = []            # nested results (lambdas / callees)

    def fail(self, kind, msg, node=None, path=None):
        self.ok = False
        self.problems.append((kind, msg, node, path))


def _is_move(n):
    return n is not None and n.get("k") == "call" and (n.get("fn") or "") in ("std::move", "std::forward")


def _tok_ref(n, dids):
    """is expression n (modulo casts, std::move, copies) a plain reference to a token?"""
    n = core(n)
    while _is_move(n):
        n = core(n.fn.nodes[n["args"][0]])
    if n is not None and n.get("k") == "ref" and n.get("did") in dids:
        return n
    return None


def _tok_value(n, dids):
    """tok, tok.getValue(), *tok, tok.value() -> the token ref."""
    n = core(n)
    if n is None:
        return None
    r = _tok_ref(n, dids)
    if r is not None:
        return r
    if n.get("k") == "call" and "obj" in n and ((n.get("fn") or "").split("::")[-1] in ("getValue", "value", "operator*", "get", "operator->")):
        return _tok_ref(n.child("obj"), dids)
    if n.get("k") == "un" and n.get("op") == "*":
        return _tok_ref(n.child("e"), dids)
    return None


class OnceChecker(object):
    def __init__(self, prog, sinks=(), max_depth=6, invoke_names=()):
        self.prog = prog
        self.sinks = list(sinks)         # [(callee suffix, param index)]
        self.memo = {}
        self.max_depth = max_depth
        self.invoke_names = set(invoke_names)   # member functions whose call on the token discharges it (e.g. 'complete')

    # ------------------------------------------------------------------
    def is_sink(self, call, idx):
        fn = call.get("fn") or ""
        for suf, i in self.sinks:
            if (i is None or i == idx) and qmatch(fn, suf):
                return True
        return False

    def check_param(self, fn, pidx, depth=0):
        key = (fn.key, pidx)
        if key in self.memo:
            return self.memo[key]
        self.memo[key] = None     # recursion guard: assume ok while in progress
        p = fn.params[pidx]
        optional = "Optional<" in fn.db_types[p["ct"]]
        res = self.check(fn, {p["did"]}, optional, depth, label=p["n"] or None)
        self.memo[key] = res
        return res

    # ------------------------------------------------------------------
    def check(self, fn, dids, optional=False, depth=0, label=None):
        res = OnceResult()
        dids = set(dids)
        label = label or "/".join(sorted(str(d) for d in dids))
        # ---- aliases: locals initialised from the token or from a lambda capturing it
        changed = True
        alias_lambdas = {}
        while changed:
            changed = False
            for n in fn.nodes:
                if n.get("k") != "decl":
                    continue
                for v in n.get("vars", []):
                    if v["did"] in dids or "init" not in v:
                        continue
                    init = fn.nodes[v["init"]]
                    ic = core(init)
                    lam = None
                    for x in init.walk():
                        if x.get("k") == "lambda" and self._captures(x, dids):
                            lam = x
                    if lam is not None and self._only_wraps(init, lam):
                        dids.add(v["did"])
                        alias_lambdas[v["did"]] = lam
                        changed = True
                    elif _tok_ref(ic, dids) is not None and _is_move(core_nomove(init)):
                        dids.add(v["did"])
                        changed = True
        # ---- discharge elements
        discharge = {}      # node id -> description
        pos = fn.elem_pos()
        for n in fn.nodes:
            k = n.get("k")
            if k == "call":
                # direct invocation
                if n.get("ck") == "operator" and n.get("op") == "()" and "obj" in n and _tok_value(n.child("obj"), dids) is not None:
                    discharge[n["id"]] = "invoke %s" % expr_str(n)[:60]
                    continue
                if n.get("ck") == "indirect" and _tok_value(n.child("callee"), dids) is not None:
                    discharge[n["id"]] = "invoke %s" % expr_str(n)[:60]
                    continue
                if n.get("ck") == "member" and "obj" in n and (n.get("fn") or "").split("::")[-1] in self.invoke_names \
                        and _tok_ref(n.child("obj"), dids) is not None:
                    discharge[n["id"]] = "invoke %s" % expr_str(n)[:60]
                    continue
            if k in ("call", "construct"):
                if _is_move(n):
                    continue
                name = (n.get("fn") or "").split("::")[-1]
                if "obj" in n and _tok_ref(n.child("obj"), dids) is not None:
                    continue      # method on the token itself (hasValue, getValue, operator bool)
                args = n.get("args", [])
                for i, a in enumerate(args):
                    if a < 0:
                        continue
                    an = fn.nodes[a]
                    # (1) the token itself handed over
                    if _tok_ref(an, dids) is not None:
                        if k == "construct" and (n.get("copymove") or len(args) == 1) and not self.is_sink(n, i):
                            continue   # copy/move construction: transparent (core() strips it at the consumer)
                        if name in ("hasValue", "getValue"):
                            continue
                        v = self._handoff(fn, n, i, depth, res)
                        if v:
                            discharge[n["id"]] = "hand-off to %s#%d" % (n.get("fn"), i)
                        break
                    # (2) a continuation lambda capturing the token passed to a consumer
                    lam = None
                    for x in an.walk():
                        if x.get("k") == "lambda" and self._captures(x, dids):
                            lam = x
                            break
                    if lam is not None:
                        if k == "construct" and self._enclosing_decl_alias(fn, n, alias_lambdas):
                            continue  # wrapped into an alias local, handled through the alias
                        if k == "construct" and not self.is_sink(n, i):
                            # wrapper object (std::function{lambda}, QueueJob{…, lambda}) — the consumer is further out
                            par = fn.parent_of(n)
                            if par is not None and par.get("k") in ("call", "construct", "cast", "initlist"):
                                continue
                        if k == "call" or self.is_sink(n, i):
                            okc = self._consumer_ok(fn, n, i, depth, res)
                            self._check_lambda(lam, dids, depth, res)
                            if okc:
                                discharge[n["id"]] = "continuation passed to %s#%d" % (n.get("fn") or expr_str(n)[:30], i)
                            break
        # alias lambdas must themselves discharge the captured token once
        for did, lam in alias_lambdas.items():
            self._check_lambda(lam, dids - {did}, depth, res)
        res.sites = sorted(discharge.values())

        # ---- count dataflow
        def transfer(st, p, e):
            if isinstance(e, int) and e in discharge:
                return frozenset(min(c + 1, 2) for c in st)
            return st

        def edge(st, blk, si, s):
            if not optional:
                return st
            c = blk.effective_cond()
            if c is None or len(blk.succs) != 2:
                return st
            pol = (si == 0)
            cc = core(c)
            neg = False
            while cc is not None and cc.get("k") == "un" and cc.get("op") == "!":
                neg = not neg
                cc = core(cc.child("e"))
            if cc is not None and cc.get("k") == "call" and "obj" in cc and \
                    (cc.get("fn") or "").split("::")[-1] in ("hasValue", "operator bool", "has_value") and \
                    _tok_ref(cc.child("obj"), dids) is not None:
                has = pol != neg
                if not has:
                    return frozenset(min(c_ + 1, 2) for c_ in st)
            return st

        in_state, at = C.forward(fn, frozenset([0]), transfer, edge, meet=lambda a, b: a | b)
        ex = in_state.get(fn.exit)
        res.exit_counts = sorted(ex) if ex is not None else None
        if ex is None:
            return res      # no path reaches the exit (noreturn): vacuous
        if 0 in ex:
            w = C.path_exists(fn, C.entry_pos(fn), C.is_exit,
                              avoid=lambda p, e: isinstance(e, int) and e in discharge)
            # the optional-empty edge may be what zeroes: report path anyway
            res.fail("never", "a path reaches the exit without discharging '%s'" % label, None, describe_path(fn, w))
        if 2 in ex:
            res.fail("twice", "'%s' may be discharged more than once on a path" % label, None, None)
        return res

    # ------------------------------------------------------------------
    def _captures(self, lam, dids):
        for c in lam.get("caps", []):
            if c.get("did") in dids:
                return True
            for key in ("init", "e"):
                if key in c and isinstance(c[key], int) and c[key] >= 0:
                    init = lam.fn.nodes[c[key]]
                    if any(x.get("k") == "ref" and x.get("did") in dids for x in init.walk()):
                        return True
        return False

    def _only_wraps(self, init, lam):
        """init is the lambda possibly wrapped in constructions / casts / init lists."""
        n = init
        while n is not None and n is not lam:
            k = n.get("k")
            kids = [c for c in n.children()]
            if k in ("construct", "cast", "initlist", "stdinitlist") and len(kids) >= 1:
                nxt = None
                for c in kids:
                    if c is lam or any(x is lam for x in c.walk()):
                        nxt = c
                n = nxt
            else:
                return False
        return n is lam

    def _enclosing_decl_alias(self, fn, n, alias_lambdas):
        for a in fn.ancestors(n):
            if a.get("k") == "decl":
                return any(v["did"] in alias_lambdas for v in a.get("vars", []))
            if a.get("k") in ("call",):
                return False
        return False

    def _captured_dids(self, lam, dids):
        """decl ids under which the lambda body sees the token."""
        out = set()
        for c in lam.get("caps", []):
            if c.get("did") in dids:
                out.add(c["did"])
            else:
                for key in ("init", "e"):
                    if key in c and isinstance(c[key], int) and c[key] >= 0:
                        init = lam.fn.nodes[c[key]]
                        if any(x.get("k") == "ref" and x.get("did") in dids for x in init.walk()):
                            out.add(c.get("did"))
        return out

    def _check_lambda(self, lam, dids, depth, res):
        lf = self.prog.lambda_fn(lam)
        if lf is None:
            res.fail("unresolved", "continuation lambda body not found", lam)
            return
        if depth >= self.max_depth:
            return
        inner = self._captured_dids(lam, dids)
        if not inner:
            return
        opt = any("Optional<" in lf.db_types[c.get("t", 0)] for c in lam.get("caps", []) if c.get("did") in inner and "t" in c)
        key = ("lambda", lf.key, tuple(sorted(inner)))
        if key in self.memo:
            sub = self.memo[key]
        else:
            self.memo[key] = None
            sub = self.check(lf, inner, opt, depth + 1, label="captured token")
            self.memo[key] = sub
        if sub is not None:
            res.sub.append(sub)
            if not sub.ok:
                for kind, msg, node, path in sub.problems:
                    res.fail(kind, "in continuation %s: %s" % (lf.key.split("::")[-1] + "@L%d" % lf.line, msg), node or lam, path)

    def _callee(self, call):
        fk = call.get("fk")
        f = self.prog.functions.get(fk)
        return f

    def _handoff(self, fn, call, idx, depth, res):
        if self.is_sink(call, idx):
            return True
        callee = self._callee(call)
        if callee is not None and idx < len(callee.params) and depth < self.max_depth:
            sub = self.check_param(callee, idx, depth + 1)
            if sub is None:
                return True
            res.sub.append(sub)
            if not sub.ok:
                for kind, msg, node, path in sub.problems:
                    res.fail(kind, "in callee %s: %s" % (callee.name.split("::")[-1], msg), node or call, path)
            return True
        pts = call.get("pt", [])
        t = fn.db_types[pts[idx]] if idx < len(pts) and pts[idx] >= 0 else ""
        if t.startswith("const ") and t.endswith("&"):
            return False        # observed, not consumed
        res.fail("unverified", "token handed to %s (argument %d), which is neither analysable nor a listed consumer" % (
            call.get("fn") or expr_str(call)[:40], idx), call)
        return True

    def _consumer_ok(self, fn, call, idx, depth, res):
        """the callee invokes the continuation passed at idx exactly once."""
        if self.is_sink(call, idx):
            return True
        # invoking a std::function parameter / local (e.g. releaseFn(lambda)): consumer must be listed
        if call.get("ck") == "operator" and call.get("op") == "()":
            tgt = core(call.child("obj")) if "obj" in call else None
            nm = expr_str(tgt) if tgt is not None else "?"
            for suf, i in self.sinks:
                if suf == "<callable>" + nm or suf == "<callable>*":
                    return True
            res.fail("unverified", "continuation passed to callable '%s', which is not a listed exactly-once consumer" % nm, call)
            return True
        callee = self._callee(call)
        if callee is not None and idx < len(callee.params) and depth < self.max_depth:
            sub = self.check_param(callee, idx, depth + 1)
            if sub is None:
                return True
            res.sub.append(sub)
            if not sub.ok:
                for kind, msg, node, path in sub.problems:
                    res.fail(kind, "in callee %s: %s" % (callee.name.split("::")[-1], msg), node or call, path)
            return True
        res.fail("unverified", "continuation passed to %s (argument %d), which is neither analysable nor a listed consumer" % (
            call.get("fn") or expr_str(call)[:40], idx), call)
        return True


def core_nomove(n):
    n = core(n)
    return n


def describe_path(fn, blocks):
    if not blocks:
        return None
    out = []
    for b in blocks:
        blk = fn.blocks[b]
        ln = None
        for kind, e in blk.elems():
            if kind == "s" and e.line:
                ln = e.line
                break
        if ln is None and blk.term:
            ln = blk.term.get("ln")
        if ln and (not out or out[-1] != ln):
            out.append(ln)
    return "lines " + "→".join(str(x) for x in out[:40])
