"""E3 — exactly-once obligations (linear typestate over the CFG, interprocedural
through hand-offs).

A *token set* is a set of variables of one function through which one pending
completion can be discharged: a completion callback parameter, a TaskInterface
whose `complete` must be called, a copy captured by a lambda, a local that
wraps one.  On every path from function entry to exit the token set must be
discharged exactly once.  A discharge is

  * an invocation:      tok(args), tok.getValue()(args), (*tok)(args), or
                        tok.<m>(…) for m in `invoke_names` (e.g. `complete`)
  * a hand-off:         a call some of whose arguments *carry* the tokens — the
                        token itself (possibly std::move'd / wrapped in
                        constructions) or a continuation lambda capturing it
                        whose body may discharge it.  The callee (all overriders
                        for a virtual call) is analysed with the matching
                        parameters as its joint token set and must itself
                        discharge exactly once on every path; a callee that never
                        discharges is an observer and the call is not a discharge.
                        Callees without a body must be listed in `sinks`.
For llvm::Optional<callable> tokens the empty arm of `if (tok.hasValue())`
counts as discharged (there is nothing to call).
A local initialised from a discharging lambda that captures the token, or from a
move/copy of the token, joins the token set (alias).
"""
from .facts import expr_str, strip_casts, core, qmatch
from . import cfg as C


class OnceResult(object):
    def __init__(self):
        self.ok = True
        self.exit_counts = None
        self.problems = []       # (kind, message, node, path)
        self.sites = []          # discharge descriptions
        self.n_sites = 0

    def fail(self, kind, msg, node=None, path=None):
        self.ok = False
        if (kind, msg) not in [(p[0], p[1]) for p in self.problems]:
            self.problems.append((kind, msg, node, path))

    @property
    def observer(self):
        return self.n_sites == 0


def _is_move(n):
    return n is not None and n.get("k") == "call" and (n.get("fn") or "") in ("std::move", "std::forward")


WRAP = ("construct", "cast", "initlist", "stdinitlist")


def _unwrap_iter(n):
    """n and everything reachable through value wrappers (constructions, casts,
    init lists, std::move)."""
    stack = [n]
    seen = set()
    while stack:
        x = stack.pop()
        if x is None or x["id"] in seen:
            continue
        seen.add(x["id"])
        yield x
        k = x.get("k")
        if k in WRAP:
            stack.extend(x.children())
        elif _is_move(x):
            stack.append(x.fn.nodes[x["args"][0]])
        elif k == "call" and x.get("ck") == "free" and (x.get("fn") or "").split("::")[-1] in ("make_unique", "make_shared"):
            stack.extend(x.children())


def _tok_ref(n, dids):
    n = core(n)
    while _is_move(n):
        n = core(n.fn.nodes[n["args"][0]])
    if n is not None and n.get("k") == "ref" and n.get("did") in dids:
        return n
    return None


def _tok_value(n, dids):
    n = core(n)
    if n is None:
        return None
    r = _tok_ref(n, dids)
    if r is not None:
        return r
    if n.get("k") == "call" and "obj" in n and ((n.get("fn") or "").split("::")[-1] in ("getValue", "value", "operator*", "get", "operator->")):
        return _tok_ref(n.child("obj"), dids)
    if n.get("k") == "un" and n.get("op") == "*":
        return _tok_ref(n.child("e"), dids)
    return None


class OnceChecker(object):
    def __init__(self, prog, sinks=(), max_depth=8, invoke_names=(), token_type_pred=None, trusted_callees=()):
        self.prog = prog
        self.sinks = list(sinks)         # [(callee suffix | '<callable>name', param index | None)]
        self.memo = {}
        self.max_depth = max_depth
        self.invoke_names = set(invoke_names)
        self.token_type_pred = token_type_pred
        self.trusted_callees = list(trusted_callees)   # bodies that hand the completion to client code
        self.trusted_used = set()
        self._overriders = None

    # ------------------------------------------------------------------
    def is_sink(self, call, idx):
        fn = call.get("fn") or ""
        for suf, i in self.sinks:
            if suf.startswith("<callable>"):
                continue
            if (i is None or i == idx) and qmatch(fn, suf):
                return True
        return False

    def overriders(self, fk):
        if self._overriders is None:
            m = {}
            for f in self.prog.functions.values():
                for o in f.overrides:
                    m.setdefault(o, []).append(f)
            self._overriders = m
        return self._overriders.get(fk, [])

    def callees(self, call):
        out = []
        fk = call.get("fk")
        f = self.prog.functions.get(fk)
        if f is not None:
            out.append(f)
        if call.get("vm") and not call.get("qualified"):
            for o in self.overriders(fk):
                if o not in out:
                    out.append(o)
        return out

    def check_params(self, fn, idxs, depth=0):
        idxs = tuple(sorted(idxs))
        key = (fn.key, idxs)
        if key in self.memo:
            return self.memo[key]
        self.memo[key] = None     # recursion guard
        dids = set()
        optional = False
        names = []
        for i in idxs:
            if i >= len(fn.params):
                continue
            p = fn.params[i]
            dids.add(p["did"])
            names.append(p["n"] or "#%d" % i)
            if "Optional<" in fn.db_types[p["ct"]]:
                optional = True
        res = self.check(fn, dids, optional, depth, label="/".join(names))
        self.memo[key] = res
        return res

    def check_param(self, fn, pidx, depth=0):
        return self.check_params(fn, (pidx,), depth)

    # ------------------------------------------------------------------
    def _lambda_result(self, lam, dids, depth):
        """(inner dids, OnceResult|None) of a lambda capturing tokens."""
        lf = self.prog.lambda_fn(lam)
        if lf is None:
            return None, None
        inner = set()
        opt = False
        for c in lam.get("caps", []):
            hit = c.get("did") in dids
            if not hit:
                for key in ("init", "e"):
                    if key in c and isinstance(c[key], int) and c[key] >= 0:
                        init = lam.fn.nodes[c[key]]
                        if any(x.get("k") == "ref" and x.get("did") in dids for x in init.walk()):
                            hit = True
            if hit and c.get("did") is not None:
                inner.add(c["did"])
                if "t" in c and "Optional<" in lf.db_types[c["t"]]:
                    opt = True
        if not inner:
            return None, None
        key = ("lambda", lf.key, tuple(sorted(inner)))
        if key in self.memo:
            return inner, self.memo[key]
        if depth >= self.max_depth:
            return inner, None
        self.memo[key] = None
        sub = self.check(lf, inner, opt, depth + 1, label="captured completion")
        self.memo[key] = sub
        return inner, sub

    def _carriers(self, fn, arg, dids, depth, res):
        """what in `arg` carries the token: ('tok', ref) | ('lam', lambda node, sub result)"""
        out = []
        for x in _unwrap_iter(arg):
            if x.get("k") == "ref" and x.get("did") in dids:
                out.append(("tok", x, None))
            elif x.get("k") == "lambda":
                inner, sub = self._lambda_result(x, dids, depth)
                if inner and (sub is None or not sub.observer):
                    out.append(("lam", x, sub))
        return out

    # ------------------------------------------------------------------
    def check(self, fn, dids, optional=False, depth=0, label=None):
        res = OnceResult()
        dids = set(dids)
        label = label or "completion"
        # ---- aliases
        changed = True
        alias_inits = {}
        while changed:
            changed = False
            for n in fn.nodes:
                if n.get("k") != "decl":
                    continue
                for v in n.get("vars", []):
                    if v["did"] in dids or "init" not in v:
                        continue
                    init = fn.nodes[v["init"]]
                    car = self._carriers(fn, init, dids, depth, res)
                    if car:
                        dids.add(v["did"])
                        alias_inits[v["did"]] = (init, car)
                        changed = True
        alias_init_nodes = set()
        for did, (init, car) in alias_inits.items():
            for x in init.walk():
                alias_init_nodes.add(x["id"])
            for kind, node, sub in car:
                if kind == "lam" and sub is not None and not sub.ok:
                    for k_, msg, nd, path in sub.problems:
                        res.fail(k_, "in continuation @L%d: %s" % (node.line, msg), nd or node, path)

        # ---- discharge elements
        discharge = {}
        for n in fn.nodes:
            k = n.get("k")
            if k not in ("call", "construct") or n["id"] in alias_init_nodes:
                continue
            if _is_move(n):
                continue
            if k == "call":
                if n.get("ck") == "operator" and n.get("op") == "()" and "obj" in n and _tok_value(n.child("obj"), dids) is not None:
                    discharge[n["id"]] = "invoke %s" % expr_str(n)[:50]
                    continue
                if n.get("ck") == "indirect" and _tok_value(n.child("callee"), dids) is not None:
                    discharge[n["id"]] = "invoke %s" % expr_str(n)[:50]
                    continue
                if n.get("ck") == "member" and "obj" in n and (n.get("fn") or "").split("::")[-1] in self.invoke_names \
                        and _tok_ref(n.child("obj"), dids) is not None:
                    discharge[n["id"]] = "invoke %s" % expr_str(n)[:50]
                    continue
            if k == "construct":
                # constructions are value wrappers unless they are listed consumers or stand alone
                par = fn.parent_of(n)
                listed = any(self.is_sink(n, i) for i in range(len(n.get("args", []))))
                if not listed:
                    continue
            args = n.get("args", [])
            carried = {}
            for i, a in enumerate(args):
                if a < 0:
                    continue
                car = self._carriers(fn, fn.nodes[a], dids, depth, res)
                if car:
                    carried[i] = car
            if not carried:
                continue
            verdict = self._consume(fn, n, carried, depth, res)
            if verdict:
                discharge[n["id"]] = "hand-off to %s%s" % ((n.get("fn") or expr_str(n)[:30]).split("(")[0], sorted(carried))
                # continuation bodies must be exact
                for i, car in carried.items():
                    for kind, node, sub in car:
                        if kind == "lam" and sub is not None and not sub.ok:
                            for k_, msg, nd, path in sub.problems:
                                res.fail(k_, "in continuation @L%d: %s" % (node.line, msg), nd or node, path)
        res.sites = sorted(set(discharge.values()))
        res.n_sites = len(discharge)

        # ---- count dataflow
        def transfer(st, p, e):
            if isinstance(e, int) and e in discharge:
                return frozenset(min(c + 1, 2) for c in st)
            return st

        def edge(st, blk, si, s):
            if not optional:
                return st
            c = blk.effective_cond()
            if c is None or len(blk.succs) != 2:
                return st
            pol = (si == 0)
            cc = core(c)
            neg = False
            while cc is not None and cc.get("k") == "un" and cc.get("op") == "!":
                neg = not neg
                cc = core(cc.child("e"))
            if cc is not None and cc.get("k") == "call" and "obj" in cc and \
                    (cc.get("fn") or "").split("::")[-1] in ("hasValue", "operator bool", "has_value") and \
                    _tok_ref(cc.child("obj"), dids) is not None:
                has = pol != neg
                if not has:
                    return frozenset(min(c_ + 1, 2) for c_ in st)
            return st

        in_state, at = C.forward(fn, frozenset([0]), transfer, edge, meet=lambda a, b: a | b)
        ex = in_state.get(fn.exit)
        res.exit_counts = sorted(ex) if ex is not None else None
        if ex is None or res.n_sites == 0 and not optional:
            # no path reaches the exit, or pure observer: nothing to require here
            if res.n_sites == 0:
                res.exit_counts = [0]
            return res
        if res.n_sites == 0:
            return res
        if 0 in ex:
            w = C.path_exists(fn, C.entry_pos(fn), C.is_exit, avoid=lambda p, e: isinstance(e, int) and e in discharge)
            res.fail("never", "a path reaches the exit of %s without discharging '%s'" % (short(fn), label), None, describe_path(fn, w))
        if 2 in ex:
            res.fail("twice", "'%s' may be discharged more than once on a path of %s" % (label, short(fn)), None, None)
        return res

    # ------------------------------------------------------------------
    def _consume(self, fn, call, carried, depth, res):
        """is `call` a discharge, given the argument indexes that carry the token?"""
        idxs = sorted(carried)
        # indirect call through a callable that is not a token: listed consumers only
        if call.get("k") == "call" and (call.get("ck") == "indirect" or (call.get("ck") == "operator" and call.get("op") == "()")):
            tgt = core(call.child("obj")) if "obj" in call else core(call.child("callee"))
            nm = expr_str(tgt) if tgt is not None else "?"
            if call.get("ck") == "operator":
                idxs_ok = any(suf in ("<callable>" + nm, "<callable>*") for suf, _ in self.sinks)
                if idxs_ok:
                    return True
                res.fail("unverified", "completion handed to callable '%s', which is not a listed exactly-once consumer" % nm, call)
                return True
        if all(self.is_sink(call, i) for i in idxs):
            return True
        cs = self.callees(call)
        if cs and depth < self.max_depth:
            verdicts = []
            for callee in cs:
                if any(qmatch(callee.name, t) for t in self.trusted_callees):
                    self.trusted_used.add(callee.name)
                    verdicts.append(("once", callee, None))
                    continue
                sub = self.check_params(callee, idxs, depth + 1)
                if sub is None:
                    verdicts.append(("rec", callee, None))
                elif sub.observer:
                    verdicts.append(("observer", callee, sub))
                elif sub.ok:
                    verdicts.append(("once", callee, sub))
                else:
                    verdicts.append(("bad", callee, sub))
            kinds = set(v[0] for v in verdicts)
            has_lambda = any(kind == "lam" for car in carried.values() for kind, _, _ in car)
            if kinds <= {"observer"}:
                if has_lambda:
                    res.fail("dropped", "continuation is passed to %s, which never invokes it" % short(cs[0]), call)
                    return True
                return False
            for kind, callee, sub in verdicts:
                if kind == "bad":
                    for k_, msg, nd, path in sub.problems:
                        res.fail(k_, "in callee %s: %s" % (short(callee), msg), call, path)
                elif kind == "observer" and len(verdicts) > 1:
                    res.fail("never", "override %s never discharges the completion its siblings discharge" % short(callee), call)
            return True
        if cs and depth >= self.max_depth:
            return True
        pts = call.get("pt", [])
        only_tok = all(kind == "tok" for car in carried.values() for kind, _, _ in car)
        if only_tok and all((fn.db_types[pts[i]] if i < len(pts) and pts[i] >= 0 else "").startswith("const ") for i in idxs):
            return False        # observed by const reference
        if only_tok and self.token_type_pred is not None and \
                all(self.token_type_pred(node.ctype()) for car in carried.values() for _, node, _ in car):
            # a copyable handle (TaskInterface) given to a function without a body: observer unless listed
            return False
        res.fail("unverified", "completion handed to %s (arguments %s), which is neither analysable nor a listed consumer" % (
            call.get("fn") or expr_str(call)[:40], idxs), call)
        return True


def short(fn):
    if fn.is_lambda:
        return "lambda@%s:%d" % (fn.file.split("/")[-1], fn.line)
    n = fn.name.split("::")
    return "::".join(n[-2:]) if len(n) > 1 else n[0]


def describe_path(fn, blocks):
    if not blocks:
        return None
    out = []
    for b in blocks:
        blk = fn.blocks[b]
        ln = None
        for kind, e in blk.elems():
            if kind == "s" and e.line:
                ln = e.line
                break
        if ln is None and blk.term:
            ln = blk.term.get("ln")
        if ln and (not out or out[-1] != ln):
            out.append(ln)
    return "lines " + "→".join(str(x) for x in out[:40])
