"""Obligation bookkeeping, known-findings matching, evidence and exit protocol."""
import json
import os
import time

from .facts import AnalysisBroken, relpath, VERIF

KNOWN_PATH = os.path.join(VERIF, "known_findings.json")


class Rule(object):
    def __init__(self, report, rid, text, floor=1):
        self.report = report
        self.id = rid
        self.text = text
        self.floor = floor
        self.instances = []

    def _add(self, verdict, site, message, fn=None, node=None, path=None, line=None, file=None):
        inst = {"rule": self.id, "site": site, "verdict": verdict, "message": message}
        if fn is not None:
            inst["function"] = fn.key
            inst["file"] = relpath(fn.file)
            inst["line"] = fn.line
        if node is not None:
            inst["line"] = node.get("ln", inst.get("line", 0))
            if fn is None and getattr(node, "fn", None) is not None:
                inst["function"] = node.fn.key
                inst["file"] = relpath(node.fn.file)
        if file is not None:
            inst["file"] = relpath(file)
        if line is not None:
            inst["line"] = line
        if path is not None:
            inst["path"] = path
        self.instances.append(inst)
        return inst

    def ok(self, site, message="", fn=None, node=None, **kw):
        return self._add("discharged", site, message, fn, node, **kw)

    def violation(self, site, message, fn=None, node=None, path=None, **kw):
        return self._add("violated", site, message, fn, node, path, **kw)

    def exempt(self, site, reason, fn=None, node=None, **kw):
        return self._add("exempt", site, reason, fn, node, **kw)

    def check(self, cond, site, ok_msg, bad_msg, fn=None, node=None, path=None):
        if cond:
            self.ok(site, ok_msg, fn, node)
        else:
            self.violation(site, bad_msg, fn, node, path)
        return cond


class SubsetReport(object):
    """A view of a Report that keeps only the listed rules of another property's rule file: rules outside `only` are created detached (their code
    runs, their obligations are dropped).  Used when a property runs the rules a sibling property has for a file both are anchored in."""

    def __init__(self, report, only):
        self._report = report
        self._only = set(only)
        self.seen = set()

    def rule(self, rid, text, floor=1):
        if rid in self._only:
            self.seen.add(rid)
            return self._report.rule(rid, text, floor)
        return Rule(self._report, rid, text, floor)        # detached: never reaches the evidence or the verdict

    def __getattr__(self, name):
        return getattr(self._report, name)


def run_subset(mod, ctx, only):
    """run `mod.run` (another property's rule file) against ctx.prog, keeping only the rules in `only`."""
    class _Ctx(object):
        pass
    c2 = _Ctx()
    c2.__dict__.update(ctx.__dict__)
    c2.report = SubsetReport(ctx.report, only)
    mod.run(c2)
    missing = set(only) - c2.report.seen
    if missing:
        raise AnalysisBroken("shared rules %s were not produced by %s" % (sorted(missing), mod.__name__))


class Report(object):
    def __init__(self, prop, tier, explanation="", not_decided=""):
        self.prop = prop
        self.tier = tier
        self.rules = []
        self.explanation = explanation
        self.not_decided = not_decided
        self.t0 = time.time()
        self.units = []
        self.functions_analysed = 0
        self.extra = {}
        self.selftests = []

    def rule(self, rid, text, floor=1):
        r = Rule(self, rid, text, floor)
        self.rules.append(r)
        return r

    def selftest(self, name, ok, detail=""):
        self.selftests.append({"name": name, "ok": bool(ok), "detail": detail})
        if not ok:
            raise AnalysisBroken("self-test %s failed: %s" % (name, detail))

    # ------------------------------------------------------------------
    def finish(self, seed=0):
        known = {"findings": [], "fixed": []}
        if os.path.exists(KNOWN_PATH):
            with open(KNOWN_PATH) as f:
                known = json.load(f)
        kf = [k for k in known.get("findings", []) if k.get("property") == self.prop]

        # floors: a rule matching fewer instances than confirmed by hand is broken
        for r in self.rules:
            # (a rule that already reports a violation has given its verdict: a vanished construct is then the finding, not a broken analysis)
            if len(r.instances) < r.floor and not any(i["verdict"] == "violated" for i in r.instances):
                raise AnalysisBroken("rule %s matched %d instances, floor is %d (anchor moved?)"
                                     % (r.id, len(r.instances), r.floor))

        all_inst = [i for r in self.rules for i in r.instances]
        violations = [i for i in all_inst if i["verdict"] == "violated"]
        matched, unmatched = [], []
        for v in violations:
            hit = None
            for k in kf:
                if k["rule"] == v["rule"] and k["site"] == v["site"]:
                    hit = k
                    break
            if hit:
                v["known_finding"] = hit.get("id", "")
                matched.append((v, hit))
            else:
                unmatched.append(v)

        lines = []
        seen_k = set()
        for v, k in matched:
            key = (k["rule"], k["site"])
            if key in seen_k:
                continue
            seen_k.add(key)
            lines.append("KNOWN-FINDING: property=%s %s %s [%s %s] %s" % (
                self.prop, k.get("id", ""), k.get("what", v["message"]), v["rule"], v["site"],
                "%s:%s" % (v.get("file", "?"), v.get("line", "?"))))

        replay_paths = []
        if unmatched:
            rdir = os.path.join(VERIF, "out", "replays")
            os.makedirs(rdir, exist_ok=True)
            for idx, v in enumerate(unmatched):
                p = os.path.join(rdir, "%s-%s-%d.json" % (self.prop, v["rule"], idx))
                with open(p, "w") as f:
                    json.dump({"property": self.prop, "rule": v["rule"],
                               "rule_text": next(r.text for r in self.rules if r.id == v["rule"]),
                               "violation": v}, f, indent=1)
                replay_paths.append(p)
                lines.append("  %s:%s: [%s] %s — %s (in %s)" % (
                    v.get("file", "?"), v.get("line", "?"), v["rule"], v["site"], v["message"], v.get("function", "?")))
                if v.get("path"):
                    lines.append("      path: %s" % (v["path"],))
                lines.append("VIOLATION property=%s replay=%s" % (self.prop, p))

        wall = time.time() - self.t0
        per_rule = []
        for r in self.rules:
            per_rule.append({
                "rule": r.id, "text": r.text, "floor": r.floor,
                "instances": len(r.instances),
                "discharged": sum(1 for i in r.instances if i["verdict"] == "discharged"),
                "violated": sum(1 for i in r.instances if i["verdict"] == "violated"),
                "exempt": sum(1 for i in r.instances if i["verdict"] == "exempt"),
            })
        samples = []
        for r in self.rules:
            for i in r.instances[:4]:
                samples.append({k: i[k] for k in ("rule", "site", "verdict", "message", "file", "line", "function") if k in i})
        for v in violations[:20]:
            s = {k: v[k] for k in ("rule", "site", "verdict", "message", "file", "line", "function", "known_finding") if k in v}
            if s not in samples:
                samples.append(s)
        distinct = len(set((i["rule"], i["site"]) for i in all_inst))
        ev = {
            "property_id": self.prop,
            "tier": self.tier,
            "seed": seed,
            "level": "other",
            "coverage": {
                "explanation": self.explanation + (" NOT DECIDED: " + self.not_decided if self.not_decided else ""),
                "obligations": len(all_inst),
                "discharged": sum(1 for i in all_inst if i["verdict"] == "discharged"),
                "exempt": sum(1 for i in all_inst if i["verdict"] == "exempt"),
                "violated_known": len(matched),
                "violated_new": len(unmatched),
                "evaluations": len(all_inst),
                "distinct_nontrivial": distinct,
                "rule": "one instance per (rule, site) found in the resolved program of /repo's working tree; "
                        "distinct = distinct (rule, semantic site key); trivial instances are not generated",
                "rules": per_rule,
                "units_parsed": [relpath(u) for u in self.units],
                "functions_analysed": self.functions_analysed,
                "selftests": self.selftests,
                "samples": samples,
                "checker_cmd": "./check %s --tier %s" % (self.prop, self.tier),
                "trusted_base": ["clang 14 front end, type checker and CFG builder",
                                 "llbx extractor (tool/llbx.cc)",
                                 "exemption tables in rules/%s.py" % self.prop,
                                 "known_findings.json (listed defects are reported, not hidden)"],
                "exhaustive": True,
            },
            "assumptions": [
                "structural necessary conditions only: a pass means every statically decidable obligation is discharged, not that the behavioural property is proved",
                "analysis uses the production flag set (-DNDEBUG -std=c++14): asserts are not guards",
            ],
            "wall_s": round(wall, 2),
            "violations": len(unmatched),
        }
        ev["coverage"].update(self.extra)
        if os.environ.get("VERIF_DUMP_INSTANCES"):
            os.makedirs(os.environ["VERIF_DUMP_INSTANCES"], exist_ok=True)
            with open(os.path.join(os.environ["VERIF_DUMP_INSTANCES"], "%s.json" % self.prop), "w") as f_:
                json.dump(all_inst, f_)
        edir = os.environ.get("VERIF_EVIDENCE_DIR") or os.path.join(VERIF, "evidence")
        os.makedirs(edir, exist_ok=True)
        with open(os.path.join(edir, "%s.json" % self.prop), "w") as f:
            json.dump(ev, f, indent=1)
        return lines, (1 if unmatched else 0), ev
