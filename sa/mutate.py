"""Seeded source variants (thorough tier): the checker is tested both ways on
scratch copies of the real sources.  Still static — no llbuild code runs; the
variant is re-extracted with llbx (which also proves it still compiles) and the
property's rules are re-run on it.

A variant is {name, file, old, new, expect: (rule, site-substring) | None}.
expect None  => behaviour-preserving variant, the rules must stay silent.
"""
import os
import shutil
import tempfile

from . import facts
from .facts import AnalysisBroken
from .report import Report


def overlay_program(units, replacements, tag="mut"):
    """replacements: {repo-relative path: new text}.  Returns (Program, cleanup)."""
    scratch = tempfile.mkdtemp(prefix="llbx-%s-" % tag, dir=os.environ.get("VERIF_SCRATCH", "/tmp"))
    try:
        extra_inc = []
        header_touched = False
        for rel, text in replacements.items():
            dst = os.path.join(scratch, rel)
            os.makedirs(os.path.dirname(dst), exist_ok=True)
            with open(dst, "w") as f:
                f.write(text)
            if rel.startswith("include/"):
                header_touched = True
                extra_inc.append(os.path.join(facts.REPO, os.path.dirname(rel)))   # sibling headers included by relative name
            elif rel.startswith("products/libllbuild/include/"):
                extra_inc.append(os.path.join(scratch, "products/libllbuild/include"))
            else:
                # local includes ("BuildEngineTrace.h", "CommandUtil.h", private C API headers)
                extra_inc.append(os.path.join(facts.REPO, os.path.dirname(rel)))
        if header_touched:
            extra_inc.insert(0, os.path.join(scratch, "include"))
        ulist = []
        for u in units:
            ulist.append(os.path.join(scratch, u) if u in replacements else u)
        outs = facts.extract(ulist, workdir=os.path.join(scratch, "facts"),
                             roots=[facts.REPO, scratch], maps=[(scratch, facts.REPO)],
                             extra_inc=extra_inc)
        prog = facts.Program(outs)
        return prog
    finally:
        shutil.rmtree(scratch, ignore_errors=True)


class _Ctx(object):
    def __init__(self, prop, prog, mod):
        self.prop = prop
        self.tier = "quick"
        self.mod = mod
        self.prog = prog
        self.report = Report(prop, "quick")


def violations_of(prop, mod, prog):
    ctx = _Ctx(prop, prog, mod)
    mod.run(ctx)
    out = set()
    for r in ctx.report.rules:
        for i in r.instances:
            if i["verdict"] == "violated":
                out.add((i["rule"], i["site"]))
    return out


def run_variants(ctx, variants):
    """runs every variant; records results as self-tests in the evidence.
    Returns list of result dicts."""
    mod = ctx.mod
    units = list(mod.UNITS)
    base = set()
    for r in ctx.report.rules:
        for i in r.instances:
            if i["verdict"] == "violated":
                base.add((i["rule"], i["site"]))
    results = []
    for v in variants:
        path = os.path.join(facts.REPO, v["file"])
        res = {"name": v["name"], "file": v["file"], "kind": "breaking" if v.get("expect") else "benign"}
        try:
            text = open(path).read()
        except OSError:
            res.update(status="skipped", detail="file vanished")
            results.append(res)
            continue
        edits = v.get("edits") or [(v["old"], v["new"])]
        bad = [o for o, _ in edits if text.count(o) != 1]
        if bad:
            res.update(status="skipped", detail="anchor text occurs %d times in the current tree" % text.count(bad[0]))
            results.append(res)
            continue
        new_text = text
        for o, n_ in edits:
            new_text = new_text.replace(o, n_)
        try:
            prog = overlay_program(units, {v["file"]: new_text}, tag=ctx.prop)
        except AnalysisBroken as e:
            res.update(status="does-not-compile", detail=str(e)[-300:])
            results.append(res)
            continue
        try:
            got = violations_of(ctx.prop, mod, prog)
        except AnalysisBroken as e:
            # a vanished anchor on the variant is also a detection (exit 2 on that tree), but weaker
            res.update(status="analysis-broken", detail=str(e)[:200])
            results.append(res)
            continue
        except Exception as e:   # a rule crashed on the variant: framework defect, keep going
            import traceback
            res.update(status="RULE-CRASH", detail=traceback.format_exc()[-300:])
            results.append(res)
            continue
        new = got - base
        if v.get("expect"):
            rule, sub = v["expect"]
            hit = [x for x in new if x[0] == rule and sub in x[1]]
            if hit:
                res.update(status="detected", detail="%s %s" % hit[0])
            elif new:
                res.update(status="detected-other", detail="; ".join("%s %s" % x for x in sorted(new))[:300])
            else:
                res.update(status="MISSED", detail="no new violation")
        else:
            if new:
                res.update(status="FALSE-ALARM", detail="; ".join("%s %s" % x for x in sorted(new))[:300])
            else:
                res.update(status="silent", detail="")
        results.append(res)
    ctx.report.extra["seeded_variants"] = results
    ctx.report.extra["seeded_variants_summary"] = {
        s: sum(1 for r in results if r["status"] == s) for s in sorted(set(r["status"] for r in results))}
    return results


def run_seed_patches(ctx, seed_dir=None):
    """thorough tier: every kept sub-agent change for this property (seeded/<prop>-*/patch.diff) is applied to scratch
    copies of the files it touches and the rules are re-run on that overlay.  Nothing under /repo is modified."""
    import json
    import subprocess
    seed_dir = seed_dir or os.path.join(facts.VERIF, "seeded")
    if not os.path.isdir(seed_dir):
        return []
    notes = {}
    try:
        notes = json.load(open(os.path.join(seed_dir, "NOTES.json")))
    except Exception:
        pass
    mod = ctx.mod
    units = list(mod.UNITS)
    base = set((i["rule"], i["site"]) for r in ctx.report.rules for i in r.instances if i["verdict"] == "violated")
    results = []
    for d in sorted(os.listdir(seed_dir)):
        pf = os.path.join(seed_dir, d, "patch.diff")
        if not d.startswith(ctx.prop + "-") or not os.path.isfile(pf):
            continue
        res = {"name": d, "kind": "sub-agent change", "expected": "not decidable" if "NOT DETECTED" in notes.get(d, "") else "detected"}
        files = []
        for line in open(pf):
            if line.startswith("+++ b/"):
                files.append(line[6:].strip())
        scratch = tempfile.mkdtemp(prefix="llbx-seed-", dir=os.environ.get("VERIF_SCRATCH", "/tmp"))
        try:
            ok = True
            for rel in files:
                src = os.path.join(facts.REPO, rel)
                if not os.path.isfile(src):
                    ok = False
                    break
                dst = os.path.join(scratch, rel)
                os.makedirs(os.path.dirname(dst), exist_ok=True)
                shutil.copy(src, dst)
            if ok:
                p = subprocess.run(["patch", "-p1", "-s", "--no-backup-if-mismatch", "-i", pf], cwd=scratch, stdout=subprocess.PIPE, stderr=subprocess.STDOUT)
                ok = p.returncode == 0
            if not ok:
                res.update(status="skipped", detail="patch does not apply to the current tree")
                results.append(res)
                continue
            repl = {rel: open(os.path.join(scratch, rel)).read() for rel in files}
        finally:
            shutil.rmtree(scratch, ignore_errors=True)
        try:
            prog = overlay_program(units, repl, tag=ctx.prop + "-seed")
            got = violations_of(ctx.prop, mod, prog)
        except AnalysisBroken as e:
            res.update(status="analysis-broken", detail=str(e)[:200])
            results.append(res)
            continue
        new = got - base
        if new:
            res.update(status="detected", detail="; ".join("%s %s" % x for x in sorted(new))[:300])
        else:
            res.update(status="not-detected" if res["expected"] == "not decidable" else "MISSED", detail="no new violation")
        results.append(res)
    ctx.report.extra["sub_agent_changes"] = results
    return results


def run_refactor_patches(ctx, ref_dir=None):
    """thorough tier, the other direction: every kept behaviour-preserving refactoring (refactors/*/r*.diff) that touches a file this property
    analyses is applied to scratch copies and the rules are re-run; any new violation is a FALSE-ALARM of the rule set."""
    import glob
    import subprocess
    ref_dir = ref_dir or os.path.join(facts.VERIF, "refactors")
    if not os.path.isdir(ref_dir):
        return []
    mod = ctx.mod
    units = list(mod.UNITS)
    unit_set = set(units)
    analysed = set(facts.relpath(f.file) for f in ctx.prog.functions.values())
    base = set((i["rule"], i["site"]) for r in ctx.report.rules for i in r.instances if i["verdict"] == "violated")
    results = []
    for pf in sorted(glob.glob(os.path.join(ref_dir, "*", "r*.diff"))):
        files = [l[6:].strip() for l in open(pf) if l.startswith("+++ b/")]
        if not files or not any(f in analysed for f in files):
            continue
        name = "/".join(pf.split("/")[-2:])
        res = {"name": name, "kind": "behaviour-preserving refactoring"}
        scratch = tempfile.mkdtemp(prefix="llbx-ref-", dir=os.environ.get("VERIF_SCRATCH", "/tmp"))
        try:
            ok = True
            for rel in files:
                src = os.path.join(facts.REPO, rel)
                if not os.path.isfile(src):
                    ok = False
                    break
                dst = os.path.join(scratch, rel)
                os.makedirs(os.path.dirname(dst), exist_ok=True)
                shutil.copy(src, dst)
            if ok:
                p = subprocess.run(["patch", "-p1", "-s", "--no-backup-if-mismatch", "-i", pf], cwd=scratch, stdout=subprocess.PIPE, stderr=subprocess.STDOUT)
                ok = p.returncode == 0
            if not ok:
                res.update(status="skipped", detail="patch does not apply to the current tree")
                results.append(res)
                continue
            repl = {rel: open(os.path.join(scratch, rel)).read() for rel in files}
        finally:
            shutil.rmtree(scratch, ignore_errors=True)
        try:
            prog = overlay_program(units, repl, tag=ctx.prop + "-ref")
            got = violations_of(ctx.prop, mod, prog)
        except AnalysisBroken as e:
            res.update(status="analysis-broken", detail=str(e)[:200])
            results.append(res)
            continue
        except Exception:
            import traceback
            res.update(status="RULE-CRASH", detail=traceback.format_exc()[-300:])
            results.append(res)
            continue
        new = got - base
        if new:
            res.update(status="FALSE-ALARM", detail="; ".join("%s %s" % x for x in sorted(new))[:300])
        else:
            res.update(status="silent", detail="")
        results.append(res)
    ctx.report.extra["refactorings"] = results
    ctx.report.extra["refactorings_summary"] = {s_: sum(1 for r in results if r["status"] == s_) for s_ in sorted(set(r["status"] for r in results))}
    return results
