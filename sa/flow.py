"""Small intra-procedural value-flow helpers (flow-insensitive taint)."""
from .facts import strip_casts


def mentions(n, dids):
    """does the subtree of n reference any decl in dids (refs or captures)?"""
    if n is None:
        return False
    for x in n.walk():
        if x.get("k") in ("ref", "member") and x.get("did") in dids:
            return True
        if x.get("k") == "lambda":
            for c in x.get("caps", []):
                if c.get("did") in dids:
                    return True
    return False


def taint_closure(fn, seeds, through_calls=True):
    """decl ids of locals whose value derives from `seeds` (set of decl ids):
    initialisers, assignments, memcpy-like writes (first argument of a call
    whose other arguments mention a tainted value), out-arguments."""
    tainted = set(seeds)
    changed = True
    while changed:
        changed = False
        for n in fn.nodes:
            k = n.get("k")
            if k == "decl":
                for v in n.get("vars", []):
                    if v["did"] in tainted:
                        continue
                    if "init" in v and mentions(fn.nodes[v["init"]], tainted):
                        tainted.add(v["did"])
                        changed = True
            elif k == "bin" and n["op"] in ("=", "+=", "|="):
                l = n.child("l")
                if mentions(n.child("r"), tainted):
                    for x in l.walk():
                        if x.get("k") == "ref" and x.get("dk") in ("local", "param") and x["did"] not in tainted:
                            tainted.add(x["did"])
                            changed = True
                        break
            elif k == "forrange":
                if mentions(n.child("range"), tainted) and n.get("vardid") not in tainted and n.get("vardid"):
                    tainted.add(n["vardid"])
                    changed = True
            elif k == "call" and through_calls:
                name = (n.get("fn") or "").split("::")[-1]
                args = [fn.nodes[a] for a in n.get("args", []) if a >= 0]
                if name in ("memcpy", "memmove", "strncpy") and len(args) >= 2 and mentions(args[1], tainted):
                    for x in args[0].walk():
                        if x.get("k") == "ref" and x.get("dk") in ("local", "param") and x["did"] not in tainted:
                            tainted.add(x["did"])
                            changed = True
                # out-arguments: a local passed by non-const reference next to a tainted argument (path::append(abs, word))
                pts = n.get("pt", [])
                if any(a is not None and mentions(a, tainted) for a in args):
                    for i, a in enumerate(args):
                        t_ = fn.db_types[pts[i]] if i < len(pts) and pts[i] >= 0 else ""
                        if a is not None and t_.endswith("&") and not t_.startswith("const ") and "&&" not in t_:
                            for x in a.walk():
                                if x.get("k") == "ref" and x.get("dk") in ("local", "param") and x["did"] not in tainted:
                                    tainted.add(x["did"])
                                    changed = True
                                break
                if n.get("ck") in ("member", "operator") and "obj" in n and name in (
                        "push_back", "emplace_back", "append", "insert", "assign", "operator=", "operator+=", "operator<<"):
                    if any(mentions(a, tainted) for a in args):
                        o = n.child("obj")
                        for x in o.walk():
                            if x.get("k") == "ref" and x.get("dk") in ("local", "param") and x["did"] not in tainted:
                                tainted.add(x["did"])
                                changed = True
                            break
    return tainted


def param_did(fn, name):
    for p in fn.params:
        if p["n"] == name:
            return p["did"]
    return None


def arg_nodes(call):
    return [call.fn.nodes[a] if a >= 0 else None for a in call.get("args", [])]
