"""E9 — reasoning about the handful of SQL statements held in string literals."""
import re


def affinity(decl_type):
    """SQLite's documented column-affinity rule (https://sqlite.org/datatype3.html §3.1)."""
    t = (decl_type or "").upper()
    if "INT" in t:
        return "INTEGER"
    if "CHAR" in t or "CLOB" in t or "TEXT" in t:
        return "TEXT"
    if "BLOB" in t or t.strip() == "":
        return "BLOB"
    if "REAL" in t or "FLOA" in t or "DOUB" in t:
        return "REAL"
    return "NUMERIC"


def classify(sql):
    s = sql.strip().upper()
    if s.startswith("SELECT"):
        return "read"
    if s.startswith(("INSERT", "UPDATE", "DELETE", "REPLACE")):
        return "mutate"
    if s.startswith(("CREATE", "DROP", "ALTER")):
        return "schema"
    if s.startswith("BEGIN"):
        return "txn-begin"
    if s.startswith(("END", "COMMIT")):
        return "txn-end"
    if s.startswith("ROLLBACK"):
        return "txn-rollback"
    return "other"


def parse_create_table(sql):
    m = re.match(r"\s*CREATE\s+TABLE\s+(\w+)\s*\((.*)\)\s*;?\s*$", sql, re.S | re.I)
    if not m:
        return None
    name, body = m.group(1), m.group(2)
    cols = []
    depth = 0
    cur = ""
    parts = []
    for ch in body:
        if ch == "(":
            depth += 1
        elif ch == ")":
            depth -= 1
        if ch == "," and depth == 0:
            parts.append(cur)
            cur = ""
        else:
            cur += ch
    if cur.strip():
        parts.append(cur)
    for p in parts:
        toks = p.strip().split()
        if not toks:
            continue
        if toks[0].upper() in ("FOREIGN", "PRIMARY", "UNIQUE", "CHECK", "CONSTRAINT"):
            continue
        cname = toks[0]
        ctype = ""
        for t in toks[1:]:
            if t.upper() in ("PRIMARY", "UNIQUE", "NOT", "NULL", "DEFAULT", "REFERENCES", "CHECK", "COLLATE"):
                break
            ctype += (" " if ctype else "") + t
        cols.append((cname, ctype, affinity(ctype)))
    return name, cols


def parse_select(sql):
    m = re.match(r"\s*SELECT\s+(.*?)\s+FROM\s+(\w+)(.*)$", sql, re.S | re.I)
    if not m:
        return None
    cols = [c.strip() for c in m.group(1).split(",")]
    return {"cols": cols, "bare": [c.split(".")[-1] for c in cols], "table": m.group(2), "rest": m.group(3),
            "params": m.group(3).count("?")}


def parse_insert(sql):
    m = re.match(r"\s*INSERT(?:\s+OR\s+\w+)?\s+INTO\s+(\w+)\s*(\(([^)]*)\))?\s*VALUES\s*\(([^)]*)\)", sql, re.S | re.I)
    if not m:
        return None
    cols = [c.strip() for c in m.group(3).split(",")] if m.group(3) else None
    vals = [v.strip() for v in m.group(4).split(",")]
    return {"table": m.group(1), "cols": cols, "values": vals}


def where_columns(sql):
    """column names compared with a parameter in a WHERE clause: `col == ?`"""
    return [c.split(".")[-1] for c in re.findall(r"([\w.]+)\s*==?\s*\?", sql)]
