"""E5 — codec shape symmetry and small table extractors (switch tables, linear index forms)."""
from .facts import expr_str, core, strip_casts
from .cfg import canon


def _field_key(n):
    c = core(n)
    # a local reference alias (`auto& s = value.seconds`) stands for what it is bound to
    if c is not None and c.get("k") == "ref" and c.get("dk") == "local":
        f = c.fn
        for d in f.nodes:
            if d.get("k") == "decl":
                for v in d["vars"]:
                    if v["did"] == c.get("did") and "init" in v and f.db_types[v["t"]].rstrip().endswith("&"):
                        return _field_key(f.nodes[v["init"]])
    s = expr_str(c)
    for pre in ("value.", "this->", "(*this).", "this."):
        if s.startswith(pre):
            s = s[len(pre):]
    return s


def shape(fn, coder_names):
    """normalised I/O shape of an encoder or decoder body:
       list of ('io', field, type) | ('if', cond, then, else) | ('loop', bound, body)"""
    def is_coder(n):
        n = strip_casts(n)
        return n is not None and n.get("k") == "ref" and n.get("n") in coder_names

    def mentions_coder(n):
        return any(x.get("k") == "ref" and x.get("n") in coder_names for x in n.walk())

    def io_of(n):
        """I/O items produced by one expression statement, in evaluation order."""
        out = []
        for x in sorted([y for y in n.walk() if y.get("k") in ("call", "construct")], key=lambda y: y["id"]):
            nm = (x.get("fn") or "").split("::")[-1]
            if x.get("k") == "call" and "obj" in x and is_coder(x.child("obj")):
                if nm in ("write", "read"):
                    a = x.fn.nodes[x["args"][0]]
                    t = x.fn.db_types[x["pt"][0]].replace("const ", "").replace("&", "").strip() if x.get("pt") else core(a).ctype()
                    out.append(("io", _field_key(a), t))
                elif nm in ("writeBytes",):
                    out.append(("io-bytes", "bytes", "bytes"))
                elif nm in ("readBytes",):
                    out.append(("io-bytes", "bytes", "bytes"))
                elif nm in ("isEmpty", "finish", "contents", "data", "size"):
                    continue
                else:
                    out.append(("io?", nm, ""))
            elif any(is_coder(x.fn.nodes[a]) for a in x.get("args", []) if a >= 0):
                # sub-codec: X.encode(coder) / T(coder) / Traits<T>::encode(v, coder)
                if x.get("k") == "call" and "obj" in x:
                    out.append(("io", _field_key(x.child("obj")), "sub:" + core(x.child("obj")).ctype().replace("const ", "")))
                elif x.get("k") == "construct":
                    dest = None
                    for a in fn.ancestors(x):
                        if a.get("k") == "bin" and a["op"] == "=":
                            dest = a.child("l")
                            break
                        if a.get("k") == "call" and a.get("op") == "=" and "obj" in a:
                            dest = a.child("obj")
                            break
                    out.append(("io", _field_key(dest) if dest is not None else "?", "sub:" + x.ctype().replace("const ", "")))
                else:
                    args = [x.fn.nodes[a] for a in x.get("args", []) if a >= 0 and not is_coder(x.fn.nodes[a])]
                    out.append(("io", _field_key(args[0]) if args else "?", "sub:" + (core(args[0]).ctype().replace("const ", "") if args else "")))
        return out

    def walk(n):
        if n is None:
            return []
        k = n.get("k")
        if k == "compound":
            out = []
            for c in n.get("ch", []):
                out += walk(fn.nodes[c])
            return out
        if k == "if":
            cond = n.child("c")
            if mentions_coder(cond):
                return []        # decoder-only stream tests (isEmpty)
            t, e = walk(n.child("then")), walk(n.child("else"))
            if not t and not e:
                return []
            return [("if", canon(cond), tuple(t), tuple(e))]
        if k in ("for", "while", "do"):
            b = walk(n.child("body"))
            if not b:
                return []
            c = n.child("c")
            return [("loop", canon(c) if c is not None else "", tuple(b))]
        if k == "forrange":
            b = walk(n.child("body"))
            return [("loop", "range:" + expr_str(n.child("range")), tuple(b))] if b else []
        if k == "return":
            return io_of(n) if mentions_coder(n) else []
        if k == "decl":
            out = []
            for v in n.get("vars", []):
                if "init" in v and mentions_coder(fn.nodes[v["init"]]):
                    items = io_of(fn.nodes[v["init"]])
                    out += [(i[0], v["n"] if i[1] == "?" else i[1], i[2]) for i in items]
            return out
        if mentions_coder(n):
            return io_of(n)
        return []
    return walk(fn.body)


def switch_table(fn):
    """{case key: returned expression string} for a function that is one switch of returns."""
    out = {}
    pending = []

    def visit(n):
        k = n.get("k")
        if k == "case":
            key = n.get("cn", n.get("v"))
            pending.append(key if not isinstance(key, str) else key.split("::")[-1])
            visit(n.child("sub"))
        elif k == "default":
            pending.append("default")
            visit(n.child("sub"))
        elif k == "return":
            e = core(n.child("e")) if "e" in n else None
            val = None
            if e is not None:
                val = e.get("v") if e.get("k") in ("char", "int") else expr_str(e).split("::")[-1]
            for p in pending:
                out[p] = val
            del pending[:]
        elif k in ("compound", "switch"):
            for c in n.children():
                if k == "switch" and c is n.child("c"):
                    continue
                visit(c)
    sw = [n for n in fn.nodes if n.get("k") == "switch"]
    if len(sw) != 1:
        return None
    visit(sw[0].child("body"))
    return out


def linear(n, env=None):
    """linear form {symbol: coeff, 1: const} of an integer expression, or None."""
    env = env or {}
    n = core(n)
    if n is None:
        return None
    k = n.get("k")
    if k == "int":
        return {1: n["v"]}
    if k == "sizeof":
        return {1: n.get("v", 0)}
    if k == "ref":
        if n["n"] in env:
            return dict(env[n["n"]])
        return {n["n"]: 1}
    if k == "call" and (n.get("fn") or "").split("::")[-1] in ("size", "length") and "obj" in n:
        return {expr_str(core(n.child("obj"))) + ".size()": 1}
    if k == "bin" and n["op"] in ("+", "-"):
        a, b = linear(n.child("l"), env), linear(n.child("r"), env)
        if a is None or b is None:
            return None
        out = dict(a)
        for s, c in b.items():
            out[s] = out.get(s, 0) + (c if n["op"] == "+" else -c)
        return {s: c for s, c in out.items() if c != 0 or s == 1}
    return None


def norm_linear(d):
    if d is None:
        return None
    d = {s: c for s, c in d.items() if c != 0}
    return tuple(sorted(((str(s), c) for s, c in d.items())))


def return_table(fn):
    """{case key: returned value} for a function that maps its (first) parameter to a value by `switch` or by a chain of `if (p == K) return V;`
    (any mixture): the key is what the facts at each `return` establish for the parameter; a return with no such fact is the default."""
    import re
    from .cfg import BranchFacts
    if not fn.params:
        return None
    pname = fn.params[0]["n"]
    bf = BranchFacts(fn, kill="assign")
    out = {}
    rets = [n for n in fn.nodes if n.get("k") == "return"]
    if not rets:
        return None
    for n in rets:
        e = core(n.child("e")) if "e" in n else None
        val = None
        if e is not None:
            val = e.get("v") if e.get("k") in ("char", "int") else expr_str(e).split("::")[-1]
        keys = []
        for a, p in bf.at_node(n) or ():
            if not p:
                continue
            k = None
            if a.startswith("switch:") and a[7:].split("=")[0].split(".")[-1].strip("()") == pname:
                k = a.split("=", 1)[1]
            else:
                m = re.match(r"^\((.+) == (.+)\)$", a)
                if m:
                    l, r_ = m.group(1).strip("()"), m.group(2).strip("()")
                    if l == pname:
                        k = r_
                    elif r_ == pname:
                        k = l
            if k is not None:
                k = k.split("::")[-1]
                k = int(k) if re.match(r"^-?\d+$", k) else k
                if k not in keys:
                    keys.append(k)
        # a switch case contributes both a switch: fact (enumerator name or value) and an equality fact on the value: prefer the name
        names = [k for k in keys if not isinstance(k, int)]
        for k in (names or keys or ["default"]):
            out[k] = val
    return out
