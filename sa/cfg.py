"""CFG utilities over llbx facts: positions, reachability, dominance,
must-pass-through, generic forward dataflow, branch-fact (guarded-use) analysis.

A *position* is (block id, element index).  Index len(elems) denotes the
terminator of the block.
"""
from collections import deque
from .facts import expr_str, strip_casts, root_var


# ------------------------------------------------------------------ basics
def pos_of(fn, node):
    """position of the CFG element that *evaluates* node (node itself or the
    nearest ancestor that is an element)."""
    pos = fn.elem_pos()
    n = node
    while n is not None:
        p = pos.get(n["id"])
        if p is not None:
            return p
        n = fn.parent_of(n)
    return None


def any_pos(fn, node):
    """position of node, or of its first sub-expression that is a CFG element
    (conditions such as `a && b` are terminators, not elements)."""
    p = fn.elem_pos().get(node["id"])
    if p is not None:
        return p
    best = None
    for x in node.walk():
        q = fn.elem_pos().get(x["id"])
        if q is not None:
            key = (-q[0], q[1])
            if best is None or key < best[0]:
                best = (key, q)
    if best:
        return best[1]
    return pos_of(fn, node)


def term_pos(fn, bid):
    return (bid, len(fn.blocks[bid].raw_elems))


def succs(fn, bid):
    return [s for s in fn.blocks[bid].succs if s is not None]


def live_succs(fn, bid):
    b = fn.blocks[bid]
    if b.noreturn:
        return []
    return [s for s in b.succs if s is not None]


def reachable_blocks(fn, start, avoid_blocks=()):
    seen = set()
    work = [start]
    while work:
        b = work.pop()
        if b in seen or b in avoid_blocks:
            continue
        seen.add(b)
        work.extend(live_succs(fn, b))
    return seen


def path_exists(fn, src, dst_pred, avoid=lambda pos, elem: False, include_src=False):
    """Is there a CFG path starting *after* position src (or at it when
    include_src) that reaches an element/terminator satisfying dst_pred without
    first crossing an element for which avoid(...) holds?

    dst_pred(pos, elem) / avoid(pos, elem): elem is the raw element (int node id
    or dict) or None for the block-end pseudo element; EXIT is reported as
    (exit_block, 0, 'EXIT').
    Returns a witness list of block ids or None.
    """
    bid, idx = src
    start_idx = idx if include_src else idx + 1
    work = deque()
    work.append((bid, start_idx, (bid,)))
    seen = set()
    while work:
        b, i, path = work.popleft()
        if (b, i) in seen:
            continue
        seen.add((b, i))
        blk = fn.blocks[b]
        elems = blk.raw_elems
        blocked = False
        j = i
        while j < len(elems):
            e = elems[j]
            if dst_pred((b, j), e):
                return list(path)
            if avoid((b, j), e):
                blocked = True
                break
            j += 1
        if blocked:
            continue
        if dst_pred((b, len(elems)), "TERM"):
            return list(path)
        if avoid((b, len(elems)), "TERM"):
            continue
        if b == fn.exit:
            if dst_pred((b, 0), "EXIT"):
                return list(path)
            continue
        if blk.noreturn:
            continue
        for s in blk.succs:
            if s is None:
                continue
            work.append((s, 0, path + (s,)))
    return None


def is_exit(pos, e):
    return e == "EXIT"


def must_pass_through(fn, src, through_pred, include_src=False):
    """True iff every path from src to function EXIT crosses an element
    satisfying through_pred.  Returns (ok, witness_path)."""
    w = path_exists(fn, src, is_exit, avoid=through_pred, include_src=include_src)
    return (w is None, w)


def entry_pos(fn):
    return (fn.entry, -1)


def dominated_by(fn, target_pos, pred):
    """True iff every path from ENTRY to target_pos crosses an element
    satisfying pred (i.e. some pred-element dominates the target)."""
    w = path_exists(fn, entry_pos(fn), lambda p, e: p == target_pos, avoid=pred)
    return (w is None, w)


def elem_node(fn, e):
    if isinstance(e, int):
        return fn.nodes[e]
    return None


# -------------------------------------------------- generic forward dataflow
def forward(fn, init, transfer, edge=None, meet=None):
    """Generic forward dataflow.

    state objects must be hashable/comparable (frozenset recommended).
    transfer(state, pos, elem) -> state  (per element, in order)
    edge(state, block, succ_index, succ_block) -> state or None (infeasible)
    meet(a, b) -> state (default: intersection of frozensets)
    Returns (in_states: block->state, at: callable(pos)->state before pos).
    """
    if meet is None:
        meet = lambda a, b: a & b
    in_state = {fn.entry: init}
    work = deque([fn.entry])
    out_cache = {}
    iters = 0
    while work:
        b = work.popleft()
        iters += 1
        if iters > 200000:
            raise RuntimeError("dataflow did not converge in %s" % fn.key)
        st = in_state[b]
        blk = fn.blocks[b]
        for j, e in enumerate(blk.raw_elems):
            st = transfer(st, (b, j), e)
        out_cache[b] = st
        if blk.noreturn:
            continue
        for si, s in enumerate(blk.succs):
            if s is None:
                continue
            st2 = edge(st, blk, si, s) if edge else st
            if st2 is None:
                continue
            if s not in in_state:
                in_state[s] = st2
                work.append(s)
            else:
                m = meet(in_state[s], st2)
                if m != in_state[s]:
                    in_state[s] = m
                    work.append(s)

    def at(pos):
        b, idx = pos
        if b not in in_state:
            return None        # unreachable
        st = in_state[b]
        blk = fn.blocks[b]
        for j, e in enumerate(blk.raw_elems[:idx]):
            st = transfer(st, (b, j), e)
        return st

    return in_state, at


# -------------------------------------------------- canonical conditions
_FLIP = {"<": ">", ">": "<", "<=": ">=", ">=": "<=", "==": "==", "!=": "!="}
_NEG = {"<": ">=", ">": "<=", "<=": ">", ">=": "<", "==": "!=", "!=": "=="}


def canon(n, names=None):
    """canonical, position-free string of an expression; locals are rendered
    by name (shadowing is resolved through `did` suffix only on request)."""
    if n is None:
        return "?"
    n = strip_noise(n)
    k = n.get("k")
    if k == "bin" and n["op"] in _FLIP:
        l, r = canon(n.child("l"), names), canon(n.child("r"), names)
        op = n["op"]
        if op in (">", ">="):          # normalise to < / <=
            l, r, op = r, l, _FLIP[op]
        elif op in ("==", "!=") and r < l:
            l, r = r, l
        return "(%s %s %s)" % (l, op, r)
    if k == "call" and n.get("ck") == "operator" and n.get("op") in _FLIP:
        ops = []
        if "obj" in n:
            ops.append(n.child("obj"))
        ops += [n.fn.nodes[a] for a in n.get("args", [])]
        if len(ops) == 2:
            l, r = canon(ops[0], names), canon(ops[1], names)
            op = n["op"]
            if op in (">", ">="):
                l, r, op = r, l, _FLIP[op]
            elif op in ("==", "!=") and r < l:
                l, r = r, l
            return "(%s %s %s)" % (l, op, r)
    return expr_str(n)


def strip_noise(n):
    """drop integral/pointer casts that do not change truthiness reasoning."""
    while n is not None and n.get("k") == "cast" and n.get("ck") in (
            "IntegralCast", "NullToPointer", "IntegralToBoolean", "PointerToBoolean", "BitCast"):
        if n.get("ck") in ("IntegralToBoolean", "PointerToBoolean"):
            break
        n = n.child("e")
    return n


def cond_atoms(n, polarity=True):
    """decompose a branch condition into (canonical atom, polarity) pairs that
    are implied when the condition evaluates to `polarity`.  Only sound
    implications: (a && b) true => a, b ;  (a || b) false => !a, !b."""
    n = strip_noise(n)
    if n is None:
        return []
    k = n.get("k")
    if k == "cast" and n.get("ck") in ("IntegralToBoolean", "PointerToBoolean"):
        inner = n.child("e")
        return cond_atoms(inner, polarity)
    if k == "un" and n.get("op") == "!":
        return cond_atoms(n.child("e"), not polarity)
    if k == "bin" and n["op"] == "&&":
        if polarity:
            return cond_atoms(n.child("l"), True) + cond_atoms(n.child("r"), True)
        return []
    if k == "bin" and n["op"] == "||":
        if not polarity:
            return cond_atoms(n.child("l"), False) + cond_atoms(n.child("r"), False)
        return []
    if k == "bin" and n["op"] in _NEG:
        c = canon(n)
        if not polarity:
            # store negated comparisons positively: !(a<b) == (b<=a)
            l, r = n.child("l"), n.child("r")
            op = _NEG[n["op"]]
            cl, cr = canon(l), canon(r)
            if op in (">", ">="):
                cl, cr, op = cr, cl, _FLIP[op]
            elif op in ("==", "!=") and cr < cl:
                cl, cr = cr, cl
            return [("(%s %s %s)" % (cl, op, cr), True)]
        return [(c, True)]
    if k == "call" and n.get("ck") == "operator" and n.get("op") in _NEG:
        c = canon(n)
        if c.startswith("(") and not polarity:
            ops = []
            if "obj" in n:
                ops.append(n.child("obj"))
            ops += [n.fn.nodes[a] for a in n.get("args", [])]
            if len(ops) == 2:
                op = _NEG[n["op"]]
                cl, cr = canon(ops[0]), canon(ops[1])
                if op in (">", ">="):
                    cl, cr, op = cr, cl, _FLIP[op]
                elif op in ("==", "!=") and cr < cl:
                    cl, cr = cr, cl
                return [("(%s %s %s)" % (cl, op, cr), True)]
        return [(c, polarity)]
    return [(canon(n), polarity)] + _expand_helper(n, polarity)


def _expand_helper(n, polarity, depth=0):
    """`if (noReadyJobs())` where the callee is a parameter-less const/static helper whose body is `return E;`: the branch also
    establishes what E establishes (names inside a member helper denote the same members as in the caller)."""
    if depth > 2 or n is None or n.get("k") != "call" or n.get("args") or n.get("ck") not in ("member", "free"):
        return []
    if n.get("ck") == "member" and "obj" in n and strip_noise(n.child("obj")) is not None and strip_noise(n.child("obj")).get("k") != "this":
        return []
    prog = getattr(n.fn, "prog", None)
    g = prog.functions.get(n.get("fk")) if prog is not None and n.get("fk") else None
    if g is None or g.body is None or g.params or (n.get("ck") == "member" and not n.get("cm")):
        return []
    ch = [g.nodes[c] for c in g.body.get("ch", [])] if g.body.get("k") == "compound" else [g.body]
    if len(ch) != 1 or ch[0].get("k") != "return" or "e" not in ch[0]:
        return []
    return cond_atoms(ch[0].child("e"), polarity)


def assigned_roots(fn, e):
    """only explicit assignment / ++ / -- / declaration (no call effects)."""
    out = set()
    n = fn.nodes[e] if isinstance(e, int) else None
    if n is None:
        return out
    k = n.get("k")

    def root(x):
        # field-sensitive by name: a write to a.b.c changes facts that mention `c`
        # (and nothing about a.b.d); a write through *p / p[i] / a plain variable
        # changes facts that mention that variable.
        while x is not None:
            kk = x.get("k")
            if kk == "ref":
                out.add(x.get("n"))
                return
            if kk == "member":
                out.add(x.get("n"))
                return
            elif kk in ("index", "cast", "un"):
                x = x.child("b") if kk == "index" else x.child("e")
            elif kk == "call" and "obj" in x:
                x = x.child("obj")
            else:
                return
    if k == "bin" and n["op"].endswith("=") and n["op"] not in ("==", "!=", "<=", ">="):
        root(n.child("l"))
    elif k == "un" and n["op"] in ("++", "--"):
        root(n.child("e"))
    elif k == "call" and n.get("ck") == "operator" and n.get("op") in ("=", "+=", "-=", "++", "--"):
        if "obj" in n:
            root(n.child("obj"))
        elif n.get("args"):
            root(fn.nodes[n["args"][0]])
    elif k == "decl":
        for v in n.get("vars", []):
            out.add(v["n"])
    return out


def written_roots(fn, e):
    """names of variables (root identifiers / member names) that the element
    may modify: assignment, ++/--, compound assignment, non-const method call,
    argument passed by non-const reference or pointer."""
    out = set()
    n = fn.nodes[e] if isinstance(e, int) else None
    if n is None:
        return out
    k = n.get("k")

    def add_lvalue(x):
        x0 = x
        while x is not None:
            kk = x.get("k")
            if kk == "ref":
                out.add(x.get("n"))
                return
            if kk == "member":
                out.add(x.get("n"))
                x = x.child("b")
                continue
            if kk in ("index",):
                x = x.child("b")
                continue
            if kk == "cast":
                x = x.child("e")
                continue
            if kk == "un":
                x = x.child("e")
                continue
            if kk == "call" and "obj" in x:
                x = x.child("obj")
                continue
            return

    if k == "bin" and (n["op"] == "=" or n["op"].endswith("=") and n["op"] not in ("==", "!=", "<=", ">=")):
        add_lvalue(n.child("l"))
    elif k == "un" and n["op"] in ("++", "--"):
        add_lvalue(n.child("e"))
    elif k in ("call", "construct"):
        if k == "call" and "obj" in n and not n.get("cm"):
            add_lvalue(n.child("obj"))
        pts = n.get("pt", [])
        args = n.get("args", [])
        # operator calls on methods: obj already removed from args
        for i, a in enumerate(args):
            if a < 0:
                continue
            t = fn.db_types[pts[i]] if i < len(pts) and pts[i] >= 0 else ""
            if ("&" in t and not t.startswith("const ") and "&&" not in t) or (t.endswith("*") and not t.startswith("const ")):
                add_lvalue(fn.nodes[a])
        if k == "call" and n.get("ck") == "operator" and n.get("op") in ("=", "+=", "-=", "++", "--", "<<", ">>") and "obj" not in n and args:
            add_lvalue(fn.nodes[args[0]])
    elif k == "decl":
        for v in n.get("vars", []):
            out.add(v["n"])
    return out


def fact_mentions(fact, names):
    import re
    toks = set(re.findall(r"[A-Za-z_][A-Za-z_0-9]*", fact))
    return bool(toks & names)


class BranchFacts(object):
    """Forward must-analysis of branch facts for one function.

    facts_at(pos) -> frozenset of (atom, polarity) known to hold on every path
    reaching pos since the last write to anything the atom mentions.
    """

    def __init__(self, fn, extra_kill=None, kill="calls", kill_calls_of=()):
        self.fn = fn
        self.extra_kill = extra_kill
        self.event_atoms = set()
        kill_fn = written_roots if kill == "calls" else assigned_roots
        if kill_calls_of:
            # assignments kill; additionally non-const calls into the named classes kill what they are given
            def kill_fn(fn_, e, _pref=tuple(kill_calls_of)):
                w = assigned_roots(fn_, e)
                n = fn_.nodes[e] if isinstance(e, int) else None
                if n is not None and n.get("k") == "call" and not n.get("cm") and any(p_ in (n.get("fn") or "") for p_ in _pref):
                    w |= written_roots(fn_, e)
                return w

        def transfer(st, pos, e):
            # a named condition: `const bool missingColon = cur == end || *cur != ':';` -- remember what the name stands for, for as long as
            # nothing it mentions (nor the name itself) is written
            nd_ = fn.nodes[e] if isinstance(e, int) else None
            add = []
            if nd_ is not None and nd_.get("k") == "decl":
                for v in nd_.get("vars", []):
                    if "init" in v and fn.db_types[v["t"]].replace("const ", "").strip() == "bool":
                        add.append(("@def:%s#%d %s" % (v["n"], v["init"], canon(fn.nodes[v["init"]])), True))
                        # the initialiser may be the result of an engine operation: an event, like a branch on the call itself
                        self._note_event(fn.nodes[v["init"]])
            if not st and not add:
                return st
            st = st or frozenset()
            w = kill_fn(fn, e)
            if self.extra_kill:
                w |= self.extra_kill(fn, e)
            if w:
                st = frozenset(f for f in st if f[0] in self.event_atoms or not fact_mentions(f[0], w))
            return (st | frozenset(add)) if add else st

        def edge(st, blk, si, s):
            t = blk.term
            if not t:
                return st
            c = blk.cond()
            cls = t["cls"]
            if c is None:
                return st
            if cls in ("IfStmt", "WhileStmt", "ForStmt", "DoStmt", "ConditionalOperator",
                       "BinaryConditionalOperator", "CXXForRangeStmt") or \
                    (cls == "BinaryOperator" and t.get("op") in ("&&", "||")):
                if len(blk.succs) != 2:
                    return st
                pol = (si == 0)
                ec = blk.effective_cond()
                self._note_event(ec)
                atoms = set(cond_atoms(c, pol)) | set(cond_atoms(ec, pol))
                # expand named conditions still in force
                defs = {}
                for a_, _p in st:
                    if a_.startswith("@def:"):
                        nm_, rest = a_[5:].split("#", 1)
                        defs[nm_] = int(rest.split(" ", 1)[0])
                for a_, p_ in list(atoms):
                    if a_ in defs:
                        atoms |= set(cond_atoms(fn.nodes[defs[a_]], p_))
                return st | frozenset(atoms)
            if cls == "SwitchStmt":
                cases = t.get("cases", [])
                if si < len(cases) and isinstance(cases[si], dict) and "v" in cases[si]:
                    add_ = [("(%s == %s)" % tuple(sorted([canon(c), str(cases[si]["v"])])), True),
                            ("switch:%s=%s" % (canon(c), cases[si].get("cn", cases[si]["v"])), True)]
                    if cases[si].get("cn"):
                        # the same fact an `if (x == Enumerator)` would give
                        add_.append(("(%s == %s)" % tuple(sorted([canon(c), str(cases[si]["cn"]).split("::")[-1]])), True))
                    return st | frozenset(add_)
                return st
            return st

        self.in_state, self._at = forward(fn, frozenset(), transfer, edge)

    def _note_event(self, c):
        """a condition that is the result of a non-const call (delegate query, engine
        operation) is an *event* on the path, not a state predicate: later writes do
        not undo the fact that the call returned that value."""
        n = strip_noise(c)
        while n is not None and (n.get("k") == "un" and n.get("op") == "!" or
                                 n.get("k") == "cast" and n.get("ck") in ("IntegralToBoolean", "PointerToBoolean")):
            n = strip_noise(n.child("e"))
        if n is not None and n.get("k") == "call" and n.get("ck") in ("member", "free") and not n.get("cm") \
                and n.get("ck") != "operator":
            self.event_atoms.add(canon(n))

    def at(self, pos):
        return self._at(pos)

    def at_node(self, node):
        p = pos_of(self.fn, node)
        if p is None:
            return None
        return self._at(p)

    def holds(self, node, atom, polarity=True):
        st = self.at_node(node)
        if st is None:
            return True   # unreachable code: vacuous
        return (atom, polarity) in st


# -------------------------------------------------- structural helpers
def enclosing(fn, node, kinds):
    for a in fn.ancestors(node):
        if a.k in kinds:
            return a
    return None


def stmts_in_order(fn):
    """all CFG element nodes in reverse-post-order-ish order (by block id desc)."""
    for bid in sorted(fn.blocks, reverse=True):
        for kind, e in fn.blocks[bid].elems():
            if kind == "s":
                yield e


# -------------------------------------------------- feasibility-pruned path search
def _norm_fact(f):
    import re
    atom, pol = f
    m = re.match(r"^\((.*) (!=|==) (.*)\)$", atom)
    if m and m.group(2) == "!=":
        return ("(%s == %s)" % (m.group(1), m.group(3)), not pol)
    return (atom, pol)


def path_exists_feasible(fn, src, dst_pred, avoid=lambda pos, elem: False, kill="assign", max_states=200000, init_facts=(), infeasible=None):
    """like path_exists, but tracks the branch facts established along the path
    (killed by assignments to what they mention) and prunes an edge whose
    condition contradicts a fact still in force — removes the classic
    `if (ok) step1; if (ok) step2; if (!ok) return;` false paths."""
    kill_fn = assigned_roots if kill == "assign" else written_roots
    bid, idx = src
    start = (bid, idx + 1, frozenset(_norm_fact(x) for x in init_facts))
    work = deque([(start, (bid,))])
    seen = set()
    while work:
        (b, i, facts), path = work.popleft()
        if (b, i, facts) in seen:
            continue
        seen.add((b, i, facts))
        if len(seen) > max_states:
            return list(path)          # give up conservatively: report reachable
        blk = fn.blocks[b]
        elems = blk.raw_elems
        blocked = False
        j = i
        while j < len(elems):
            e = elems[j]
            if dst_pred((b, j), e):
                return list(path)
            if avoid((b, j), e):
                blocked = True
                break
            w = kill_fn(fn, e)
            if w and facts:
                facts = frozenset(f for f in facts if not fact_mentions(f[0], w))
            j += 1
        if blocked:
            continue
        if dst_pred((b, len(elems)), "TERM"):
            return list(path)
        if avoid((b, len(elems)), "TERM"):
            continue
        if b == fn.exit:
            if dst_pred((b, 0), "EXIT"):
                return list(path)
            continue
        if blk.noreturn:
            continue
        c = blk.effective_cond()
        two = blk.term is not None and c is not None and len(blk.succs) == 2 and blk.term["cls"] in (
            "IfStmt", "WhileStmt", "ForStmt", "DoStmt", "ConditionalOperator", "BinaryOperator")
        for si, s in enumerate(blk.succs):
            if s is None:
                continue
            nf = facts
            if two:
                new = set(_norm_fact(x) for x in cond_atoms(c, si == 0))
                cur = set(_norm_fact(x) for x in facts)
                if any((a, not p) in cur for a, p in new):
                    continue        # contradicts a fact in force: infeasible edge
                if infeasible is not None and any(infeasible(a, p) for a, p in new):
                    continue        # contradicts the caller's standing assumption
                nf = frozenset(cur | new)
            work.append(((s, 0, nf), path + (s,)))
    return None


def is_discarded(fn, node):
    """is the value of expression `node` thrown away (the node is an expression statement)?"""
    p = fn.parent_of(node)
    if p is None:
        return True
    k = p.get("k")
    if k == "compound":
        return True
    if k in ("if", "for", "while", "do", "forrange", "case", "default", "label"):
        for key in ("then", "else", "body", "sub", "inc", "init"):
            if p.get(key) == node["id"]:
                return True
    if k == "bin" and p.get("op") == "," :
        return p.get("l") == node["id"] or is_discarded(fn, p)
    if k == "cast" and p.get("ck") == "ToVoid":
        return True
    return False


# -------------------------------------------------- boolean structure of a condition
def bool_eval(fn, n, env, depth=0):
    """Evaluate condition n under env: {canonical atom string -> bool}.  Understands && || ! == != on atoms, the constants,
    and locals of type bool that are initialised once and never reassigned (substituted by their initialiser).
    Returns True / False / None (None: mentions an atom outside env)."""
    from .facts import core, expr_str
    n = core(n)
    if n is None:
        return None
    k = n.get("k")
    if k == "bool":
        return bool(n.get("v"))
    s = canon(n)
    if s in env:
        return env[s]
    if k == "un" and n.get("op") == "!":
        v = bool_eval(fn, n.child("e"), env, depth)
        return None if v is None else (not v)
    if k == "bin" and n.get("op") in ("&&", "||"):
        a, b = bool_eval(fn, n.child("l"), env, depth), bool_eval(fn, n.child("r"), env, depth)
        if n["op"] == "&&":
            if a is False or b is False:
                return False
            return None if a is None or b is None else True
        if a is True or b is True:
            return True
        return None if a is None or b is None else False
    if (k == "bin" or k == "call") and n.get("op") in ("==", "!="):
        l = n.child("l") if k == "bin" else (n.child("obj") if "obj" in n else fn.nodes[n["args"][0]])
        r = n.child("r") if k == "bin" else fn.nodes[n["args"][-1]]
        for key in ("(%s == %s)" % (canon(l), canon(r)), "(%s == %s)" % (canon(r), canon(l))):
            if key in env:
                return env[key] if n["op"] == "==" else (not env[key])
        return None
    if k == "call" and depth < 3 and n.get("fk") and getattr(fn, "prog", None) is not None and n.get("fk") in fn.prog.functions:
        # a small predicate helper: a static / free function, or a member called on this same object.  Evaluate its body under env, with the
        # caller's argument spellings replaced by the helper's parameter names.
        import re as _re
        h = fn.prog.functions[n["fk"]]
        obj = core(n.child("obj")) if "obj" in n else None
        on_this = obj is None or obj.get("k") == "this"
        if on_this and h is not fn and not h.is_lambda and len(h.nodes) < 120 and h.blocks:
            env2 = dict(env)
            args = [fn.nodes[a] for a in n.get("args", []) if a is not None and a >= 0]
            for prm, a in zip(h.params, args):
                ca = canon(a)
                if prm.get("n") and ca and ca != prm["n"]:
                    for key in list(env2):
                        nk = _re.sub(r"(?<![A-Za-z0-9_>.])%s(?![A-Za-z0-9_])" % _re.escape(ca), prm["n"], key)
                        if nk != key:
                            env2[nk] = env2[key]
            got = possible_returns(h, env2, _depth=depth + 1)
            if got == {True}:
                return True
            if got == {False}:
                return False
        return None
    if k == "ref" and depth < 4:
        inits, writes = [], 0
        for d in fn.nodes:
            if d.get("k") == "decl":
                for v in d.get("vars", []):
                    if v.get("did") == n.get("did") and "init" in v:
                        inits.append(fn.nodes[v["init"]])
            if d.get("k") == "bin" and d.get("op", "").endswith("=") and d["op"] not in ("==", "!=", "<=", ">=") and \
                    core(d.child("l")) is not None and core(d.child("l")).get("did") == n.get("did") and n.get("did") is not None:
                writes += 1
        if len(inits) == 1 and writes == 0:
            return bool_eval(fn, inits[0], env, depth + 1)
    return None



def _edges_under(fn, blk, env, depth=0):
    """successors of blk that are not refuted by env: a two-way branch whose condition evaluates to a constant takes that edge only; a switch
    whose subject is fixed by env ((subject == Enumerator) entries) takes the matching case, or the default when every case is refuted."""
    c = blk.effective_cond()
    t = blk.term
    if t is not None and t.get("cls") == "SwitchStmt" and c is not None:
        cases = t.get("cases", [])
        subj = canon(c)
        verdicts = []
        for si, s_ in enumerate(blk.succs):
            cs = cases[si] if si < len(cases) else None
            if isinstance(cs, dict) and "v" in cs:
                names = [str(cs["v"])] + ([str(cs["cn"]).split("::")[-1]] if cs.get("cn") else [])
                v = None
                for nm in names:
                    for key in ("(%s == %s)" % (subj, nm), "(%s == %s)" % (nm, subj)):
                        if key in env:
                            v = env[key]
                verdicts.append((s_, v, True))
            else:
                verdicts.append((s_, None, False))
        hit = [s_ for s_, v, is_case in verdicts if is_case and v is True]
        if hit:
            return hit
        if all(v is False for s_, v, is_case in verdicts if is_case) and any(is_case for _s, _v, is_case in verdicts):
            return [s_ for s_, v, is_case in verdicts if not is_case and s_ is not None]
        return [s_ for s_, v, is_case in verdicts if s_ is not None and v is not False]
    two = t is not None and c is not None and len(blk.succs) == 2
    v = bool_eval(fn, c, env, depth) if two else None
    out = []
    for si, s_ in enumerate(blk.succs):
        if s_ is None:
            continue
        if two and v is not None and ((si == 0) != v):
            continue
        out.append(s_)
    return out


def reach_under(fn, env, dst_pred, avoid_pred, max_states=20000):
    """Is there a path from the entry to an element satisfying dst_pred that passes no element satisfying avoid_pred, when the atoms in
    env have the given truth values?  Branches whose condition evaluates to a constant under env (cfg.bool_eval: && || ! == !=, once-
    initialised bool locals) take that edge only; all others take both.  Returns the list of blocks of a witness path or None."""
    work = [(fn.entry, (fn.entry,))]
    seen = set()
    while work:
        b, path = work.pop()
        if b in seen or b is None:
            continue
        seen.add(b)
        if len(seen) > max_states:
            return list(path)
        blk = fn.blocks[b]
        blocked = False
        for j, e in enumerate(blk.raw_elems):
            if dst_pred((b, j), e):
                return list(path)
            if avoid_pred((b, j), e):
                blocked = True
                break
        if blocked or blk.noreturn:
            continue
        if b == fn.exit:
            if dst_pred((b, 0), "EXIT"):
                return list(path)
            continue
        for s_ in _edges_under(fn, blk, env):
            work.append((s_, path + (s_,)))
    return None


def cycle_under(fn, head, env, max_states=20000):
    """Can control return to the CFG position `head` (block, index) after leaving it, when the condition atoms in env are fixed?  The walk
    follows only edges not refuted by env (see reach_under).  Returns the blocks of a witness cycle or None."""
    hb, hi = head
    start_blk = fn.blocks[hb]
    work = []
    seen = set()
    # leave the head element, continue in its block, then follow successors
    for s_ in _edges_under(fn, start_blk, env):
        work.append((s_, (hb, s_)))
    while work:
        b, path = work.pop()
        if b is None:
            continue
        if b == hb:
            return list(path)
        if b in seen:
            continue
        seen.add(b)
        if len(seen) > max_states:
            return list(path)
        blk = fn.blocks[b]
        if blk.noreturn or b == fn.exit:
            continue
        stop = False
        for e in blk.raw_elems:
            n = elem_node(fn, e)
            if n is not None and n.get("k") == "return":
                stop = True
                break
        if stop:
            continue
        for s_ in _edges_under(fn, blk, env):
            work.append((s_, path + (s_,)))
    return None


def returns_under(fn, env, max_states=20000):
    """the `return` statements reachable from the entry when the atoms in env have the given truth values (see reach_under)."""
    out = []
    seen = set()
    work = [fn.entry]
    while work:
        b = work.pop()
        if b in seen or b is None:
            continue
        seen.add(b)
        if len(seen) > max_states:
            return [n for n in fn.nodes if n.get("k") == "return"]
        blk = fn.blocks[b]
        stop = False
        for e in blk.raw_elems:
            n = elem_node(fn, e)
            if n is not None and n.get("k") == "return":
                out.append(n)
                stop = True
                break
        if stop or blk.noreturn or b == fn.exit:
            continue
        for s_ in _edges_under(fn, blk, env):
            work.append(s_)
    return out


def possible_returns(fn, env, max_states=20000, _depth=0):
    """{True, False, None} values a bool function can return when the atoms in env have the given truth values: every CFG path whose
    branch conditions are not refuted by env is followed (a condition that evaluates to a constant under env takes that edge only);
    the returned expression is evaluated under env too (None: depends on something outside env).  Form-independent: `if (a) return false;
    return true;` and `return !a;` give the same answer.  Conditional operators in a returned expression are handled by their CFG edges."""
    from .facts import core
    out = set()
    seen = set()
    work = [fn.entry]
    while work:
        b = work.pop()
        if b in seen or b is None:
            continue
        seen.add(b)
        if len(seen) > max_states:
            return {True, False, None}
        blk = fn.blocks[b]
        stop = False
        for e in blk.raw_elems:
            n = elem_node(fn, e)
            if n is not None and n.get("k") == "return":
                out.add(bool_eval(fn, n.child("e"), env, _depth) if "e" in n else None)
                stop = True
                break
        if stop or blk.noreturn or b == fn.exit:
            continue
        for s_ in _edges_under(fn, blk, env, _depth):
            work.append(s_)
    return out

# -------------------------------------------------- boolean normal form of small conditions
def norm_bool(fn, n, depth=0):
    """(atom, polarity) for a simple boolean expression, looking through: `!`, `c ? true : false`, a bool local that is initialised once
    and never written, and the spellings of emptiness (`x.size() == 0`, `0 == x.size()`, `x.empty()`, `x.size() > 0`, `x.size() != 0`,
    `0 < x.size()`, `!x.empty()`).  The atom of an emptiness test is `<x>.empty()`.  Anything else: (canon(n), True)."""
    from .facts import core
    n = core(n)
    if n is None:
        return (None, True)
    k = n.get("k")
    if k == "un" and n.get("op") == "!":
        a, p = norm_bool(fn, n.child("e"), depth)
        return (a, not p)
    if k == "cond":
        ta, fa = core(n.child("a")), core(n.child("b"))
        if ta is not None and fa is not None and ta.get("k") == "bool" and fa.get("k") == "bool" and ta.get("v") != fa.get("v"):
            a, p = norm_bool(fn, n.child("c"), depth)
            return (a, p if ta.get("v") else not p)
    if k == "ref" and depth < 4 and n.get("did") is not None:
        inits, writes = [], 0
        for d in fn.nodes:
            if d.get("k") == "decl":
                for v in d.get("vars", []):
                    if v.get("did") == n.get("did") and "init" in v:
                        inits.append(fn.nodes[v["init"]])
            if d.get("k") == "bin" and d.get("op", "").endswith("=") and d["op"] not in ("==", "!=", "<=", ">=") and \
                    core(d.child("l")) is not None and core(d.child("l")).get("did") == n.get("did"):
                writes += 1
        if len(inits) == 1 and writes == 0:
            return norm_bool(fn, inits[0], depth + 1)
    if k == "call" and (n.get("fn") or "").split("::")[-1] == "empty" and "obj" in n and not n.get("args"):
        return ("%s.empty()" % canon(n.child("obj")), True)
    if k == "bin" and n.get("op") in ("==", "!=", ">", "<", ">=", "<="):
        l, r = core(n.child("l")), core(n.child("r"))
        op = n["op"]

        def is_size(x):
            return x is not None and x.get("k") == "call" and (x.get("fn") or "").split("::")[-1] in ("size", "length") and "obj" in x

        def is_zero(x):
            return x is not None and x.get("k") == "int" and x.get("v") == 0
        if is_zero(l) and is_size(r):
            l, r, op = r, l, {"<": ">", ">": "<", "<=": ">=", ">=": "<=", "==": "==", "!=": "!="}[op]
        if is_size(l) and is_zero(r):
            atom = "%s.empty()" % canon(l.child("obj"))
            if op in ("==", "<="):
                return (atom, True)
            if op in ("!=", ">"):
                return (atom, False)
    return (canon(n), True)


def established_cases(st, names):
    """enumerators (or integer case values, as strings) that the facts `st` positively establish for *some* subject, whether the code says
    `switch (x) case N:` or `if (x == N)` / `if (N == x)` (also through a local copy of x)."""
    import re
    out = []
    names = set(str(n) for n in names)
    for a, p in st or ():
        if not p:
            continue
        if a.startswith("switch:"):
            v = a.split("=")[-1].split("::")[-1]
            if v in names and v not in out:
                out.append(v)
            continue
        m = re.match(r"^\((.+) == (.+)\)$", a)
        if m:
            for side in (m.group(1), m.group(2)):
                v = side.split("::")[-1].strip("()")
                if v in names and v not in out:
                    out.append(v)
    return out
