"""E2 — lockset analysis and condition-variable protocol over RAII lock scopes.

held(pos) = set of mutex expressions (canonical strings) certainly held when
the element at pos executes:  lock_guard / unique_lock / scoped_lock local
constructed from mutex M  … until that local's implicit destructor element;
`lk.unlock()` releases, `lk.lock()` re-acquires.  Joins intersect (must-hold).
Function entry locksets are the intersection over all call sites (private
helpers inherit what every caller holds); lambdas start empty.
"""
from .facts import expr_str, core, qmatch
from . import cfg as C

LOCK_TYPES = ("std::lock_guard<", "std::unique_lock<", "std::scoped_lock<", "lock_guard<", "unique_lock<")


def _lock_decl(fn, e):
    """element is `std::lock_guard<…> g(M)` -> (var did, var name, mutex string)"""
    n = C.elem_node(fn, e)
    if n is None or n.get("k") != "decl":
        return None
    for v in n.get("vars", []):
        t = fn.db_types[v["ct"]]
        if any(lt in t for lt in LOCK_TYPES) and "init" in v:
            init = fn.nodes[v["init"]]
            c = init
            # construct(lock_type)(mutex [, defer_lock])
            while c is not None and c.get("k") == "construct" and c.get("copymove"):
                c = fn.nodes[c["args"][0]]
            if c is not None and c.get("k") == "construct" and c.get("args"):
                args = [fn.nodes[a] for a in c["args"] if a >= 0]
                deferred = any("defer_lock" in expr_str(a) for a in args[1:])
                m = expr_str(core(args[0]))
                return (v["did"], v["n"], m, deferred)
    return None


class LockSets(object):
    def __init__(self, fn, entry=frozenset()):
        self.fn = fn
        self.guards = {}    # var name -> mutex

        def transfer(st, pos, e):
            ld = _lock_decl(fn, e)
            if ld:
                did, name, m, deferred = ld
                self.guards[did] = m
                if not deferred:
                    return st | frozenset([(m, did)])
                return st
            if isinstance(e, dict) and e.get("x") == "dtor":
                did = e.get("did")
                return frozenset(x for x in st if x[1] != did)
            n = C.elem_node(fn, e)
            if n is not None and n.get("k") == "call" and n.get("ck") == "member" and "obj" in n:
                nm = (n.get("fn") or "").split("::")[-1]
                o = core(n.child("obj"))
                if o is not None and o.get("k") == "ref" and o.get("did") in self.guards:
                    if nm == "unlock":
                        return frozenset(x for x in st if x[1] != o["did"])
                    if nm == "lock":
                        return st | frozenset([(self.guards[o["did"]], o["did"])])
                # raw mutex.lock()/unlock()
                if nm in ("lock", "unlock") and "mutex" in n.child("obj").ctype().lower():
                    m = expr_str(o)
                    if nm == "lock":
                        return st | frozenset([(m, -1)])
                    return frozenset(x for x in st if not (x[0] == m and x[1] == -1))
            return st

        init = frozenset((m, -2) for m in entry)
        # pre-scan guards so that unlock before decl in block order is still resolved
        for b in fn.blocks.values():
            for e in b.raw_elems:
                ld = _lock_decl(fn, e)
                if ld:
                    self.guards[ld[0]] = ld[2]
        self.in_state, self._at = C.forward(fn, init, transfer, None)

    def held_at(self, pos):
        st = self._at(pos)
        if st is None:
            return None
        return set(m for m, _ in st)

    def held_at_node(self, node):
        p = C.any_pos(self.fn, node)
        if p is None:
            return None
        return self.held_at(p)


def entry_locksets(prog, fns):
    """interprocedural entry locksets for the given functions (same class /
    file): intersection over all call sites inside `fns`; functions with no
    caller in `fns`, virtual entry points and lambdas start empty."""
    fns = list(fns)
    keys = {f.key: f for f in fns}
    entry = {f.key: None for f in fns}     # None = top (not yet constrained)
    callers = {f.key: [] for f in fns}
    for f in fns:
        for c in f.calls():
            if c.get("fk") in keys:
                callers[c["fk"]].append((f, c))
    for f in fns:
        if not callers[f.key] or f.is_lambda:
            entry[f.key] = frozenset()
    for _ in range(10):
        changed = False
        ls = {}
        for f in fns:
            if entry[f.key] is None:
                continue
            ls[f.key] = LockSets(f, entry[f.key])
        for f in fns:
            if f.is_lambda or not callers[f.key]:
                continue
            acc = None
            for (g, c) in callers[f.key]:
                if g.key not in ls:
                    continue
                h = ls[g.key].held_at_node(c)
                if h is None:
                    continue
                acc = set(h) if acc is None else (acc & h)
            if acc is None:
                continue
            acc = frozenset(acc)
            if entry[f.key] != acc:
                entry[f.key] = acc
                changed = True
        if not changed:
            break
    return {k: (v if v is not None else frozenset()) for k, v in entry.items()}


WRITE_METHODS = {"push_back", "push", "pop", "pop_front", "pop_back", "clear", "insert", "erase", "emplace",
                 "emplace_back", "addJob", "getNextJob", "reset", "swap", "resize", "operator=", "operator[]",
                 "push_front", "try_emplace", "assign", "append"}


def field_accesses(fn, field_qn):
    """[(node, 'write'|'read')] for accesses of member field (qualified name suffix) in fn."""
    out = []
    for n in fn.nodes:
        if n.get("k") != "member" or not qmatch(n.get("qn", ""), field_qn):
            continue
        par = fn.parent_of(n)
        kind = "read"
        x, p = n, par
        # climb through wrappers that keep designating the same object
        while p is not None and p.get("k") in ("cast",) or (p is not None and p.get("k") == "call" and p.get("ck") in ("operator", "member")
                                                           and "obj" in p and p.child("obj") is x and (p.get("fn") or "").split("::")[-1] in ("operator->", "operator*", "get")):
            x, p = p, fn.parent_of(p)
        if p is not None:
            k = p.get("k")
            if k == "bin" and p.get("op", "").endswith("=") and p["op"] not in ("==", "!=", "<=", ">=") and p.child("l") is x:
                kind = "write"
            elif k == "un" and p.get("op") in ("++", "--"):
                kind = "write"
            elif k == "member" and p.get("method"):
                # method call on the field: find the call
                call = fn.parent_of(p)
                nm = p.get("n")
                if call is not None and call.get("k") == "call":
                    if nm in WRITE_METHODS or (not call.get("cm") and nm not in ("empty", "size", "begin", "end", "find", "count", "front", "back", "top", "get", "load")):
                        kind = "write"
            elif k == "call" and "obj" in p and p.child("obj") is x:
                nm = (p.get("fn") or "").split("::")[-1]
                if nm in WRITE_METHODS or (p.get("ck") == "operator" and p.get("op") in ("=", "+=", "-=", "++", "--", "[]")):
                    kind = "write"
                elif not p.get("cm") and nm not in ("empty", "size", "begin", "end", "find", "count", "front", "back", "top", "get", "load", "operator bool"):
                    kind = "write"
        out.append((n, kind))
    return out
