"""E8 — resolved call graph (direct calls, virtual overrides, lambdas and
function arguments invoked through std::function / function-pointer
parameters), SCCs and who-may-call queries."""
from .facts import qmatch


class CallGraph(object):
    def __init__(self, prog):
        self.prog = prog
        self.edges = {}        # caller key -> set(callee key)
        self.sites = {}        # (caller, callee) -> [call node]
        fns = prog.functions
        # parameters that are invoked inside the function: key -> {param index}
        self.invoked_params = {}
        for f in fns.values():
            pidx = {p["did"]: i for i, p in enumerate(f.params)}
            for n in f.nodes:
                if n.get("k") != "call":
                    continue
                tgt = None
                if n.get("ck") == "indirect":
                    tgt = n.child("callee")
                elif n.get("ck") == "operator" and n.get("op") == "()" and "obj" in n:
                    tgt = n.child("obj")
                if tgt is not None and tgt.get("k") == "ref" and tgt.get("did") in pidx:
                    self.invoked_params.setdefault(f.key, set()).add(pidx[tgt["did"]])
        overriders = {}
        for f in fns.values():
            for o in f.overrides:
                overriders.setdefault(o, []).append(f.key)
        for f in fns.values():
            out = self.edges.setdefault(f.key, set())
            for n in f.nodes:
                k = n.get("k")
                if k in ("call", "construct"):
                    fk = n.get("fk")
                    if fk:
                        targets = [fk]
                        if n.get("vm") and not n.get("qualified"):
                            targets += overriders.get(fk, [])
                        for t in targets:
                            if t in fns:
                                out.add(t)
                                self.sites.setdefault((f.key, t), []).append(n)
                        # functions / lambdas passed as arguments that the callee invokes
                        inv = self.invoked_params.get(fk)
                        if inv:
                            for i, a in enumerate(n.get("args", [])):
                                if i in inv and a >= 0:
                                    for t in self._callable_targets(f, f.nodes[a]):
                                        if fk in fns:
                                            self.edges.setdefault(fk, set()).add(t)
                                            self.sites.setdefault((fk, t), []).append(n)
                elif k == "lambda":
                    # a lambda defined here is assumed callable from here (conservative for SCCs)
                    if n.get("fk") in fns:
                        out.add(n["fk"])
                        self.sites.setdefault((f.key, n["fk"]), []).append(n)

    def _callable_targets(self, fn, n):
        out = []
        for x in n.walk():
            if x.get("k") == "lambda" and x.get("fk") in self.prog.functions:
                out.append(x["fk"])
            elif x.get("k") == "ref" and x.get("dk") == "func" and x.get("fk") in self.prog.functions:
                out.append(x["fk"])
        return out

    def sccs(self):
        index = {}
        low = {}
        onstack = set()
        stack = []
        result = []
        counter = [0]
        import sys
        sys.setrecursionlimit(10000)

        def strong(v):
            index[v] = low[v] = counter[0]
            counter[0] += 1
            stack.append(v)
            onstack.add(v)
            for w in self.edges.get(v, ()):
                if w not in index:
                    strong(w)
                    low[v] = min(low[v], low[w])
                elif w in onstack:
                    low[v] = min(low[v], index[w])
            if low[v] == index[v]:
                comp = []
                while True:
                    w = stack.pop()
                    onstack.discard(w)
                    comp.append(w)
                    if w == v:
                        break
                result.append(comp)
        for v in list(self.edges):
            if v not in index:
                strong(v)
        return result

    def recursive_sccs(self):
        out = []
        for comp in self.sccs():
            if len(comp) > 1 or comp[0] in self.edges.get(comp[0], ()):
                out.append(comp)
        return out

    def callers_of(self, suffix):
        """[(caller Function, call node)] for calls whose callee name matches suffix."""
        out = []
        for f in self.prog.functions.values():
            for n in f.nodes:
                if n.get("k") in ("call", "construct") and n.get("fn") and qmatch(n["fn"], suffix):
                    out.append((f, n))
        return out

    def reachable_from(self, key):
        seen = set()
        work = [key]
        while work:
            k = work.pop()
            if k in seen:
                continue
            seen.add(k)
            work.extend(self.edges.get(k, ()))
        return seen
