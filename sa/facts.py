"""Loader for llbx facts: functions (AST node table + CFG), records, enums, globals.

Everything the rule files see comes through this module.  Nothing here
executes llbuild code; the facts are the clang-14 type-checked AST and CFG of
/repo's current working tree.
"""
import json
import os
import subprocess
import sys
import hashlib
import concurrent.futures

REPO = os.environ.get("VERIF_REPO", "/repo")
VERIF = os.path.dirname(os.path.dirname(os.path.abspath(__file__)))
WORK = os.path.join(VERIF, ".work")
LLBX = os.path.join(WORK, "llbx")
RESOURCE_DIR = "/usr/lib/llvm-14/lib/clang/14.0.6"

UNIT_DIRS = ["lib/Basic", "lib/Core", "lib/BuildSystem", "lib/Ninja",
             "lib/Commands", "products/libllbuild"]


class AnalysisBroken(Exception):
    """An anchor vanished, a unit failed to parse, a floor was missed …"""


def base_flags(repo=REPO, extra_inc=()):
    fl = []
    for inc in extra_inc:
        fl += ["-I" + inc]
    fl += ["-I%s/include" % repo, "-I%s/products/libllbuild/include" % repo,
           "-I%s/lib/Commands" % repo, "-I%s/lib/Core" % repo,
           "-DNDEBUG", "-std=c++14", "-fno-rtti", "-fno-exceptions",
           "-include", "%s/include/libstdc++14-workaround.h" % repo,
           "-resource-dir", RESOURCE_DIR, "-w"]
    return fl


def all_units(repo=REPO):
    out = []
    for d in UNIT_DIRS:
        p = os.path.join(repo, d)
        if not os.path.isdir(p):
            continue
        for f in sorted(os.listdir(p)):
            if f.endswith(".cpp"):
                out.append(os.path.join(d, f))
    return out


def ensure_tool():
    src = os.path.join(VERIF, "tool", "llbx.cc")
    if os.path.exists(LLBX) and os.path.getmtime(LLBX) >= os.path.getmtime(src):
        return
    os.makedirs(WORK, exist_ok=True)
    cxxflags = subprocess.check_output(["llvm-config-14", "--cxxflags"], text=True).split()
    cmd = ["clang++-14"] + cxxflags + ["-fno-rtti", "-O1", src, "-o", LLBX + ".tmp",
           "/usr/lib/llvm-14/lib/libclang-cpp.so.14", "/usr/lib/llvm-14/lib/libLLVM-14.so"]
    r = subprocess.run(cmd, stdout=subprocess.PIPE, stderr=subprocess.STDOUT, text=True)
    if r.returncode != 0:
        raise AnalysisBroken("cannot build llbx:\n" + r.stdout[-3000:])
    os.replace(LLBX + ".tmp", LLBX)


def _extract_one(args):
    unit_path, out, roots, maps, flags = args
    cmd = [LLBX, "--out", out]
    for r in roots:
        cmd += ["--root", r]
    for a, b in maps:
        cmd += ["--map", "%s=%s" % (a, b)]
    cmd += [unit_path, "--"] + flags
    r = subprocess.run(cmd, stdout=subprocess.PIPE, stderr=subprocess.STDOUT, text=True)
    return unit_path, r.returncode, r.stdout[-4000:]


def extract(units, repo=REPO, workdir=None, roots=None, maps=(), extra_inc=(), jobs=16):
    """Run llbx over `units` (paths relative to repo, or absolute) -> list of json paths."""
    ensure_tool()
    workdir = workdir or os.path.join(WORK, "facts")
    os.makedirs(workdir, exist_ok=True)
    roots = roots or [repo]
    flags = base_flags(repo, extra_inc)
    jobs_l = []
    outs = []
    for u in units:
        path = u if os.path.isabs(u) else os.path.join(repo, u)
        if not os.path.exists(path):
            raise AnalysisBroken("unit vanished: %s" % u)
        tag = hashlib.sha1(path.encode()).hexdigest()[:8]
        out = os.path.join(workdir, os.path.basename(path) + "." + tag + ".json")
        if os.path.exists(out):
            os.unlink(out)
        outs.append(out)
        jobs_l.append((path, out, roots, list(maps), flags))
    with concurrent.futures.ThreadPoolExecutor(max_workers=jobs) as ex:
        for path, rc, log in ex.map(_extract_one, jobs_l):
            if rc != 0:
                raise AnalysisBroken("llbx failed on %s:\n%s" % (path, log))
    return outs


# --------------------------------------------------------------------------
class Node(dict):
    """One AST node; dict with attribute sugar.  `fn` is the owning Function."""
    __slots__ = ("fn",)

    @property
    def k(self):
        return self.get("k")

    @property
    def line(self):
        return self.get("ln", 0)

    def child(self, key):
        v = self.get(key)
        if v is None or v < 0:
            return None
        return self.fn.nodes[v]

    def children_ids(self):
        out = []
        for key in ("obj", "callee", "b", "l", "r", "e", "c", "a", "i", "init", "size",
                    "condvar", "then", "else", "body", "inc", "range", "sub",
                    "rangestmt", "beginstmt", "endstmt", "loopvarstmt"):
            v = self.get(key)
            if isinstance(v, int) and not isinstance(v, bool) and v >= 0:
                # 'b' of cond is an id too; 'c','a' fine
                out.append(v)
        for key in ("args", "ch"):
            v = self.get(key)
            if v:
                out.extend(x for x in v if isinstance(x, int) and x >= 0)
        if self.get("k") == "decl":
            for var in self.get("vars", []):
                if "init" in var and var["init"] >= 0:
                    out.append(var["init"])
        if self.get("k") == "lambda":
            for c in self.get("caps", []):
                for key in ("init", "e"):
                    if key in c and isinstance(c[key], int) and c[key] >= 0:
                        out.append(c[key])
        return out

    def children(self):
        return [self.fn.nodes[i] for i in self.children_ids()]

    def walk(self):
        """pre-order over the subtree (does not enter lambda bodies)."""
        stack = [self]
        seen = set()
        while stack:
            n = stack.pop()
            if n["id"] in seen:
                continue
            seen.add(n["id"])
            yield n
            stack.extend(reversed(n.children()))

    def type(self):
        t = self.get("t")
        return self.fn.db_types[t] if t is not None and t >= 0 else ""

    def ctype(self):
        t = self.get("ct", self.get("t"))
        return self.fn.db_types[t] if t is not None and t >= 0 else ""

    def tname(self, key):
        t = self.get(key)
        return self.fn.db_types[t] if t is not None and t >= 0 else ""

    def __hash__(self):
        return hash((id(self.fn), self["id"]))

    def __eq__(self, other):
        return self is other

    def __repr__(self):
        return "<%s %s@%d>" % (self.get("k"), expr_str(self), self.line)


class Block(object):
    def __init__(self, fn, raw):
        self.fn = fn
        self.id = raw["id"]
        self.raw_elems = raw["elems"]
        self.succs = raw["succs"]
        self.noreturn = raw.get("noreturn", False)
        self.term = raw.get("term")
        self.label = raw.get("label")
        self.preds = []

    def elems(self):
        """yield ('s', Node) | ('init', dict) | ('dtor', dict)"""
        for e in self.raw_elems:
            if isinstance(e, int):
                yield ("s", self.fn.nodes[e])
            else:
                yield (e["x"], e)

    def cond(self):
        if self.term and "c" in self.term and self.term["c"] >= 0:
            return self.fn.nodes[self.term["c"]]
        return None

    def effective_cond(self):
        """the operand whose value decides the branch *in this block*: for a
        terminator condition `A && B` / `A || B` the block is only reached when
        A did not short-circuit, so the edge taken is decided by B alone."""
        c = self.cond()
        while c is not None and c.get("k") == "bin" and c.get("op") in ("&&", "||"):
            c = c.child("r")
        return c


class Function(object):
    def __init__(self, raw, types, unit):
        self.raw = raw
        self.unit = unit
        self.db_types = types
        self.key = raw["key"]
        self.name = raw["name"]
        self.file = raw["file"]
        self.line = raw["line"]
        self.endline = raw.get("endline", 0)
        self.cls = raw.get("class", "")
        self.is_lambda = raw.get("lambda", False)
        self.parent = raw.get("parent")
        self.params = raw.get("params", [])
        self.overrides = raw.get("overrides", [])
        self.nodes = []
        for n in raw["nodes"]:
            nd = Node(n)
            nd.fn = self
            self.nodes.append(nd)
        self.body = self.nodes[raw["body"]] if raw.get("body", -1) >= 0 else None
        self.inits = raw.get("inits", [])
        self.blocks = {}
        self.entry = self.exit = None
        cfg = raw.get("cfg")
        if cfg:
            for b in cfg["blocks"]:
                self.blocks[b["id"]] = Block(self, b)
            self.entry = cfg["entry"]
            self.exit = cfg["exit"]
            for b in self.blocks.values():
                for s in b.succs:
                    if s is not None:
                        self.blocks[s].preds.append(b.id)
        self._parents = None

    def ret_type(self):
        return self.db_types[self.raw["ret"]] if self.raw.get("ret", -1) >= 0 else ""

    def param_type(self, i):
        return self.db_types[self.params[i]["t"]]

    def short(self):
        return "%s (%s:%d)" % (self.name if not self.is_lambda else self.key, relpath(self.file), self.line)

    def all_nodes(self):
        return self.nodes

    def find(self, pred):
        return [n for n in self.nodes if pred(n)]

    def calls(self, suffix=None):
        out = []
        for n in self.nodes:
            if n.k in ("call", "construct"):
                if suffix is None or callee_matches(n, suffix):
                    out.append(n)
        return out

    def parents(self):
        if self._parents is None:
            p = {}
            for n in self.nodes:
                for c in n.children_ids():
                    p.setdefault(c, n["id"])
            self._parents = p
        return self._parents

    def parent_of(self, n):
        p = self.parents().get(n["id"])
        return self.nodes[p] if p is not None else None

    def ancestors(self, n):
        while True:
            n = self.parent_of(n)
            if n is None:
                return
            yield n

    def elem_pos(self):
        """node id -> (block id, index) for nodes that are CFG elements."""
        if not hasattr(self, "_pos"):
            pos = {}
            for b in self.blocks.values():
                for i, e in enumerate(b.raw_elems):
                    if isinstance(e, int):
                        pos[e] = (b.id, i)
            # terminator statements (break / continue / if / while …) sit at the end of their block
            for b in self.blocks.values():
                if b.term and b.term.get("s", -1) >= 0 and b.term["s"] not in pos:
                    pos[b.term["s"]] = (b.id, len(b.raw_elems))
            self._pos = pos
        return self._pos


def relpath(p):
    for root in (REPO + "/",):
        if p.startswith(root):
            return p[len(root):]
    return p


def callee_matches(n, suffix):
    """suffix match on '::' boundaries against the qualified callee name."""
    fn = n.get("fn")
    if not fn:
        return False
    if isinstance(suffix, (list, tuple, set, frozenset)):
        return any(callee_matches(n, s) for s in suffix)
    return qmatch(fn, suffix)


def qmatch(qualified, suffix):
    if qualified == suffix:
        return True
    return qualified.endswith("::" + suffix)


class Program(object):
    """Union of several units' facts, de-duplicated on (file, line, key)."""

    def __init__(self, json_paths):
        self.functions = {}      # key -> Function
        self.by_name = {}        # qualified name -> [Function]
        self.records = {}
        self.enums = {}
        self.globals = {}
        self.units = []
        for p in json_paths:
            with open(p) as f:
                d = json.load(f)
            if d.get("errors"):
                raise AnalysisBroken("unit had parse errors: %s" % p)
            types = d["types"]
            self.units.append(p)
            for rf in d["functions"]:
                ident = (rf["file"], rf["line"], rf["key"])
                if rf["key"] in self.functions:
                    old = self.functions[rf["key"]]
                    if (old.file, old.line) == (rf["file"], rf["line"]):
                        if len(old.raw["nodes"]) != len(rf["nodes"]):
                            raise AnalysisBroken("header function differs between units: %s" % (ident,))
                        continue
                    # same key, different location: keep both under distinct keys
                    rf = dict(rf)
                    rf["key"] = rf["key"] + "@" + relpath(rf["file"])
                    if rf["key"] in self.functions:
                        continue
                fn = Function(rf, types, p)
                fn.prog = self
                self.functions[fn.key] = fn
                self.by_name.setdefault(fn.name, []).append(fn)
            for r in d["records"]:
                r = dict(r)
                for fl in r["fields"]:
                    fl["type"] = types[fl["t"]]
                    fl["ctype"] = types[fl["ct"]]
                self.records.setdefault(r["name"], r)
            for e in d["enums"]:
                self.enums.setdefault(e["name"], e)
            for g in d["globals"]:
                g = dict(g)
                g["type"] = types[g["t"]]
                self.globals.setdefault((g["name"], g["file"], g["line"]), g)
        self._lambda_children = {}
        for fn in self.functions.values():
            if fn.parent:
                self._lambda_children.setdefault(fn.parent, []).append(fn)
        self.alpha_renamed = 0
        if not os.environ.get("VERIF_NO_ALPHA"):
            self._alpha_normalise()

    # ---- alpha-normalisation of local names
    def _alpha_normalise(self):
        """Local variable and parameter names carry no meaning, but rules are much more readable when they may say `isAvailable` or
        `request`.  sa/localnames.json records, for every function of the reference tree, its parameters by position and its locals by
        declaration order with their types.  A function of the analysed tree whose locals line up with the recorded ones (aligned on the
        sequence of types) gets the recorded names back: renaming a local or a parameter cannot change any verdict."""
        path = os.path.join(os.path.dirname(os.path.abspath(__file__)), "localnames.json")
        if not os.path.exists(path):
            return
        try:
            with open(path) as f:
                table = json.load(f)
        except Exception:
            return
        import difflib
        maps = {}

        def local_decls(fn):
            out = []
            for n in fn.nodes:
                if n.get("k") == "decl":
                    for v in n.get("vars", []):
                        if v.get("n") and v.get("did") is not None:
                            out.append((v["did"], v["n"], fn.db_types[v["ct"]] if "ct" in v else fn.db_types[v["t"]]))
                elif n.get("k") == "forrange" and n.get("var") and n.get("vardid") is not None:
                    out.append((n["vardid"], n["var"], fn.db_types[n["vart"]] if "vart" in n else ""))
            return out

        order = sorted(self.functions.values(), key=lambda f: f.key.count("::<lambda#"))
        for fn in order:
            ent = table.get(fn.key.split("@")[0])
            m = dict(maps.get(fn.parent, {})) if fn.parent else {}
            if ent:
                ps = ent.get("p", [])
                if len(ps) == len(fn.params):
                    known = set(ps) | set(r_[0] for r_ in ent.get("l", []))
                    for prm, nm in zip(fn.params, ps):
                        if prm.get("n") and nm and prm["n"] != nm and prm.get("did") is not None and prm["n"] not in known:
                            m[prm["did"]] = nm
                cur = local_decls(fn)
                ref = ent.get("l", [])
                ref_names = set(r_[0] for r_ in ref) | set(ent.get("p", []))
                sm = difflib.SequenceMatcher(a=[c[2] for c in cur], b=[r_[1] for r_ in ref], autojunk=False)
                for tag, i1, i2, j1, j2 in sm.get_opcodes():
                    if tag == "equal":
                        for k_ in range(i2 - i1):
                            did, nm, _t = cur[i1 + k_]
                            want = ref[j1 + k_][0]
                            # a name the reference knows for another local of this function is a re-ordering, not a renaming: keep it
                            if nm != want and nm not in ref_names:
                                m[did] = want
                # never create a clash: a target name still used by a declaration that is not itself renamed
                # (only declarations the reference does not have can clash: shadowing that the reference itself has is reproduced as it is)
                matched_dids = set()
                for tag, i1, i2, j1, j2 in sm.get_opcodes():
                    if tag == "equal":
                        matched_dids |= set(cur[i][0] for i in range(i1, i2))
                keep = set(nm for did, nm, _t in cur if did not in matched_dids)
                for did in [d for d, w in m.items() if w in keep and d in set(c[0] for c in cur) | set(p_.get("did") for p_ in fn.params)]:
                    del m[did]
            maps[fn.key] = m
            if ent:
                self._note_new_aliases(fn, cur, ref, sm)
            if not m:
                continue
            for prm in fn.params:
                if prm.get("did") in m:
                    prm["n"] = m[prm["did"]]
                    self.alpha_renamed += 1
            for n in fn.nodes:
                k = n.get("k")
                if k == "ref" and n.get("did") in m:
                    n["n"] = m[n["did"]]
                elif k == "decl":
                    for v in n.get("vars", []):
                        if v.get("did") in m:
                            v["n"] = m[v["did"]]
                            self.alpha_renamed += 1
                elif k == "forrange" and n.get("vardid") in m:
                    n["var"] = m[n["vardid"]]
                    self.alpha_renamed += 1

    def _note_new_aliases(self, fn, cur, ref, sm):
        """A local that the reference tree does not have and that merely names a path expression (`RuleInfo* const requested =
        request.inputRuleInfo;`, `auto& info = it.second;`) is rendered as that expression, so that introducing such a local does not change
        what the rules read.  Only when the name is never written and nothing the expression starts from can be written between the
        declaration and a use of the name."""
        from . import cfg as C
        matched = set()
        for tag, i1, i2, j1, j2 in sm.get_opcodes():
            if tag == "equal":
                matched |= set(range(i1, i2))
        new = [cur[i] for i in range(len(cur)) if i not in matched]
        if not new:
            return
        decl_of = {}
        for n in fn.nodes:
            if n.get("k") == "decl":
                for v in n.get("vars", []):
                    decl_of[v.get("did")] = (n, v)
        aliases = {}
        for did, nm, _t in new:
            if did not in decl_of or "init" not in decl_of[did][1]:
                continue
            dnode, v = decl_of[did]
            init = fn.nodes[v["init"]]
            pure = True
            root = None
            for x in init.walk():
                k = x.get("k")
                if k == "ref":
                    root = root or x
                elif k in ("member", "this", "cast", "int"):
                    continue
                elif k == "un" and x.get("op") in ("*", "&"):
                    continue
                elif k == "construct" and len([a for a in x.get("args", []) if a >= 0]) == 1 and x.get("copymove"):
                    continue
                else:
                    pure = False
                    break
            if not pure or root is None:
                continue
            uses = [x for x in fn.nodes if x.get("k") == "ref" and x.get("did") == did]
            written = False
            for x in fn.nodes:
                if x.get("k") == "bin" and x.get("op", "").endswith("=") and x["op"] not in ("==", "!=", "<=", ">="):
                    l = strip_casts(x.child("l"))
                    if l is not None and l.get("k") == "ref" and l.get("did") == did:
                        written = True
                if x.get("k") == "un" and x.get("op") in ("++", "--", "&") and strip_casts(x.child("e")) is not None and strip_casts(x.child("e")).get("did") == did:
                    written = True
            if written:
                continue
            dpos = C.pos_of(fn, dnode)
            upos = set(p for p in (C.pos_of(fn, u) for u in uses) if p is not None)
            ok = dpos is not None
            if ok:
                for x in fn.nodes:
                    if x.get("k") == "bin" and x.get("op", "").endswith("=") and x["op"] not in ("==", "!=", "<=", ">="):
                        l = x.child("l")
                        if l is not None and any(y.get("k") == "ref" and y.get("did") == root.get("did") for y in l.walk()):
                            wp = C.pos_of(fn, x)
                            if wp is not None and C.path_exists(fn, wp, lambda p, e: p in upos, avoid=lambda p, e: p == dpos) is not None:
                                ok = False
                                break
            if ok:
                aliases[did] = v["init"]
        if aliases:
            fn.new_aliases = aliases

    # ---- lookup by role helpers
    def fn(self, suffix, unique=True, cls=None):
        """function(s) whose qualified name matches suffix on '::' boundary."""
        res = [f for name, fs in self.by_name.items() if qmatch(name, suffix) for f in fs if not f.is_lambda]
        if cls:
            res = [f for f in res if qmatch(f.cls, cls)]
        if unique:
            if len(res) != 1:
                raise AnalysisBroken("anchor %r resolves to %d functions%s" % (
                    suffix, len(res), "" if not res else ": " + ", ".join(f.key for f in res[:6])))
            return res[0]
        return res

    def fns(self, suffix):
        return self.fn(suffix, unique=False)

    def lambdas_of(self, fn, recursive=True):
        out = []
        for l in self._lambda_children.get(fn.key, []):
            out.append(l)
            if recursive:
                out.extend(self.lambdas_of(l, True))
        return out

    def lambda_fn(self, node):
        """Function for a lambda node."""
        return self.functions.get(node.get("fk"))

    def record(self, suffix):
        res = [r for n, r in self.records.items() if qmatch(n, suffix)]
        if len(res) != 1:
            raise AnalysisBroken("record %r resolves to %d" % (suffix, len(res)))
        return res[0]

    def enum(self, suffix):
        res = [e for n, e in self.enums.items() if qmatch(n, suffix)]
        if len(res) != 1:
            raise AnalysisBroken("enum %r resolves to %d" % (suffix, len(res)))
        return res[0]

    def global_named(self, suffix):
        res = [g for (n, _, _), g in self.globals.items() if qmatch(n, suffix)]
        if len(res) != 1:
            raise AnalysisBroken("global %r resolves to %d" % (suffix, len(res)))
        return res[0]

    def overriders(self, base_suffix):
        """all function definitions that override a method matching base_suffix."""
        out = []
        for f in self.functions.values():
            for o in f.overrides:
                name = o.split("(")[0]
                if qmatch(name, base_suffix):
                    out.append(f)
                    break
        return out

    def subclasses(self, base_suffix):
        out = set()
        changed = True
        while changed:
            changed = False
            for n, r in self.records.items():
                if n in out:
                    continue
                for b in r["bases"]:
                    if qmatch(b, base_suffix) or b in out:
                        out.add(n)
                        changed = True
                        break
        return out


# --------------------------------------------------------------------------
_PLAIN = [False]


def expr_plain(n):
    """expr_str with every cast node rendered as its operand."""
    _PLAIN[0] = True
    try:
        return expr_str(n)
    finally:
        _PLAIN[0] = False


def expr_str(n, depth=0):
    """compact, position-free rendering of an expression/statement subtree."""
    if n is None:
        return "<null>"
    if depth > 12:
        return "…"
    k = n.get("k")
    if _PLAIN[0] and k == "cast":
        return expr_str(n.child("e"), depth)
    if _PLAIN[0] and k == "construct" and len([a for a in n.get("args", []) if a >= 0]) == 1:
        return expr_str(n.fn.nodes[[a for a in n["args"] if a >= 0][0]], depth)
    c = lambda key: expr_str(n.child(key), depth + 1)
    if k == "ref":
        al = getattr(n.fn, "new_aliases", None)
        if al and n.get("did") in al and depth < 10:
            return expr_str(n.fn.nodes[al[n["did"]]], depth + 1)
        return n.get("n", "?")
    if k == "member":
        if n.get("implicit_this"):
            return n["n"]
        return "%s%s%s" % (c("b"), "->" if n.get("arrow") else ".", n["n"])
    if k == "this":
        return "this"
    if k in ("int", "char"):
        return str(n.get("v"))
    if k == "bool":
        return "true" if n.get("v") else "false"
    if k == "null":
        return "nullptr"
    if k == "float":
        return "<float>"
    if k == "str":
        return json.dumps(n.get("v", ""))
    if k == "lambda":
        return "[lambda]"
    if k in ("call", "construct"):
        args = ", ".join(expr_str(n.fn.nodes[a], depth + 1) for a in n.get("args", []) if a >= 0)
        if k == "construct":
            return "%s(%s)" % ((n.get("fn") or "ctor").split("::")[-1], args)
        name = (n.get("fn") or "?").split("::")[-1]
        if n.get("ck") == "member" or (n.get("ck") == "operator" and "obj" in n):
            if n.get("ck") == "operator":
                if n.get("op") == "[]":
                    return "%s[%s]" % (c("obj"), args)
                if n.get("op") in ("*", "->") and not args:
                    return "(*%s)" % c("obj") if n.get("op") == "*" else "%s->" % c("obj")
                if n.get("op") in ("++", "--"):
                    return "(%s%s)" % (c("obj"), n.get("op"))
                return "%s %s (%s)" % (c("obj"), n.get("op"), args)
            if n.child("obj") is not None and n.child("obj").get("k") == "this":
                return "%s(%s)" % (name, args)
            return "%s.%s(%s)" % (c("obj"), name, args)
        if n.get("ck") == "operator":
            return "operator%s(%s)" % (n.get("op"), args)
        if n.get("ck") == "indirect":
            return "(*%s)(%s)" % (c("callee"), args)
        return "%s(%s)" % (name, args)
    if k == "bin":
        return "(%s %s %s)" % (c("l"), n["op"], c("r"))
    if k == "un":
        return ("(%s%s)" % (c("e"), n["op"])) if n.get("post") else ("(%s%s)" % (n["op"], c("e")))
    if k == "cond":
        return "(%s ? %s : %s)" % (c("c"), c("a"), c("b"))
    if k == "cast":
        return "cast<%s>(%s)" % (n.tname("t"), c("e"))
    if k == "index":
        return "%s[%s]" % (c("b"), c("i"))
    if k == "return":
        return "return %s" % (c("e") if "e" in n else "")
    if k == "decl":
        return "; ".join("%s %s%s" % (n.fn.db_types[v["t"]], v["n"],
                                      (" = " + expr_str(n.fn.nodes[v["init"]], depth + 1)) if "init" in v else "")
                         for v in n.get("vars", []))
    if k == "sizeof":
        return "sizeof(%s)" % n.get("v")
    if k == "initlist":
        return "{%s}" % ", ".join(expr_str(n.fn.nodes[a], depth + 1) for a in n.get("args", []) if a >= 0)
    if k in ("if", "while", "for", "do", "switch", "forrange"):
        return "%s(%s)…" % (k, c("c") if "c" in n else "")
    if k == "new":
        return "new %s" % n.tname("at")
    return "<%s>" % (n.get("cls") or k)


def strip_casts(n):
    while n is not None and n.get("k") == "cast":
        n = n.child("e")
    return n


def core(n):
    """strip casts and copy/move/converting single-argument constructions."""
    while n is not None:
        k = n.get("k")
        if k == "cast":
            n = n.child("e")
        elif k == "construct" and len([a for a in n.get("args", []) if a >= 0]) == 1:
            n = n.fn.nodes[[a for a in n["args"] if a >= 0][0]]
        elif k == "construct" and len(n.get("args", [])) == 2 and "allocator" in expr_str(n.fn.nodes[n["args"][1]]):
            n = n.fn.nodes[n["args"][0]]
        else:
            return n
    return n


def root_var(n):
    """the base variable/`this` an lvalue expression is rooted at."""
    while n is not None:
        k = n.get("k")
        if k == "member":
            n = n.child("b")
        elif k == "index":
            n = n.child("b")
        elif k == "cast":
            n = n.child("e")
        elif k == "un" and n.get("op") in ("*", "&"):
            n = n.child("e")
        elif k == "call" and n.get("ck") in ("operator", "member") and "obj" in n and \
                (n.get("op") in ("->", "*", "[]") or (n.get("fn") or "").split("::")[-1] in ("get", "getValue", "operator->", "operator*")):
            n = n.child("obj")
        else:
            return n
    return n


def dump_function(fn, out=sys.stdout):
    out.write("== %s  [%s:%d]\n" % (fn.key, relpath(fn.file), fn.line))
    for bid in sorted(fn.blocks, reverse=True):
        b = fn.blocks[bid]
        tag = ""
        if bid == fn.entry:
            tag = " ENTRY"
        if bid == fn.exit:
            tag = " EXIT"
        out.write(" B%d%s%s  succs=%s\n" % (bid, tag, " NORETURN" if b.noreturn else "", b.succs))
        for kind, e in b.elems():
            if kind == "s":
                out.write("    %4d: [%s] %s   (L%d)\n" % (e["id"], e.k, expr_str(e), e.line))
            else:
                out.write("    %s %s\n" % (kind, {k: v for k, v in e.items() if k != "x"}))
        if b.term:
            out.write("    T: %s %s cond=%s %s\n" % (b.term["cls"], b.term.get("op", ""),
                                                 expr_str(b.cond()) if b.cond() is not None else "-",
                                                 b.term.get("cases", "")))


if __name__ == "__main__":
    # debugging aid: python3 -m sa.facts <unit> <function-suffix>
    unit, suffix = sys.argv[1], sys.argv[2]
    prog = Program(extract([unit]))
    for f in prog.functions.values():
        if suffix in f.key:
            dump_function(f)
