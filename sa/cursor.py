"""E7 — cursor bounds: abstract interpretation of (cursor, limit) pointer pairs.

Abstract value per cursor: a lower bound of `limit - cursor` in {0,1,2,3}
(3 = "3 or more").  Unreachable = absent.  Meet = min.  Finite domain, so the
fixpoint needs no widening.

Every `*p`, `p[k]` needs bound > k; every `++p` / `p += k` needs bound >= k.
Facts come only from real branch conditions (asserts are compiled out).
"""
from .facts import expr_str, strip_casts
from . import cfg as C

CAP = 3


def _strip(n):
    n = strip_casts(n)
    return n


def _const_int(n):
    n = _strip(n)
    if n is not None and n.get("k") in ("int", "char"):
        return n["v"]
    return None


class CursorSpec(object):
    """identifies cursor lvalue and limit expression inside one function."""

    def __init__(self, cursor, limit, sentinel=False):
        self.cursor = cursor      # canonical string, e.g. 'cur' or 'bufferPos'
        self.limit = limit        # canonical string, e.g. 'end' or 'buffer.end()'
        self.sentinel = sentinel  # limit[-1] == '\0' is established by the caller/prologue

    def is_cursor(self, n):
        n = _strip(n)
        return n is not None and n.get("k") in ("ref", "member") and expr_str(n) == self.cursor

    def is_limit(self, n):
        n = _strip(n)
        return n is not None and expr_str(n) == self.limit

    def cursor_plus(self, n):
        """n == cursor (+k)?  returns k or None."""
        n = _strip(n)
        if n is None:
            return None
        if self.is_cursor(n):
            return 0
        if n.get("k") == "un" and n["op"] in ("++",) and not n.get("post") and self.is_cursor(n.child("e")):
            return 0
        if n.get("k") == "bin" and n["op"] == "+":
            l, r = n.child("l"), n.child("r")
            if self.is_cursor(l) and _const_int(r) is not None:
                return _const_int(r)
            if self.is_cursor(r) and _const_int(l) is not None:
                return _const_int(l)
        return None


class Finding(object):
    def __init__(self, node, need, have, what):
        self.node = node
        self.need = need
        self.have = have
        self.what = what


def analyse(fn, spec, modifies_cursor=None, entry_bound=0):
    """returns (findings, stats).  modifies_cursor(call_node) -> bool tells
    whether a call may move the cursor (by-ref argument or member cursor)."""
    findings = []
    stats = {"derefs": 0, "increments": 0, "refinements": 0}
    checked = set()

    def default_modifies(n):
        # cursor passed by non-const reference / pointer-to-cursor
        pts = n.get("pt", [])
        for i, a in enumerate(n.get("args", [])):
            if a < 0:
                continue
            t = fn.db_types[pts[i]] if i < len(pts) and pts[i] >= 0 else ""
            an = fn.nodes[a]
            if spec.is_cursor(an) and "&" in t and not t.startswith("const char *const"):
                return True
            if an.get("k") == "un" and an.get("op") == "&" and spec.is_cursor(an.child("e")):
                return True
        return False

    mod = modifies_cursor or default_modifies

    def transfer(st, pos, e, record=False):
        if st is None:
            return st
        n = C.elem_node(fn, e)
        if n is None:
            return st
        b = st
        k = n.get("k")
        if k == "un" and n["op"] == "*":
            op = n.child("e")
            so = _strip(op)
            if so is not None and so.get("k") == "un" and so["op"] in ("++", "--") and so.get("post") and spec.is_cursor(so.child("e")):
                if record:
                    stats["derefs"] += 1
                return b   # requirement enforced at the post-increment
            off = spec.cursor_plus(op)
            if off is not None:
                if record:
                    stats["derefs"] += 1
                    if b < off + 1:
                        findings.append(Finding(n, off + 1, b, "dereference %s" % expr_str(n)))
            return b
        if k == "index":
            if spec.is_cursor(n.child("b")):
                kk = _const_int(n.child("i"))
                if record:
                    stats["derefs"] += 1
                    if kk is None:
                        findings.append(Finding(n, -1, b, "index with non-constant offset %s" % expr_str(n)))
                    elif b < kk + 1:
                        findings.append(Finding(n, kk + 1, b, "read %s" % expr_str(n)))
            return b
        if k == "un" and n["op"] == "++" and spec.is_cursor(n.child("e")):
            if record:
                stats["increments"] += 1
                if b < 1:
                    findings.append(Finding(n, 1, b, "advance %s past the limit" % expr_str(n)))
            return max(b - 1, 0)
        if k == "un" and n["op"] == "--" and spec.is_cursor(n.child("e")):
            return min(b + 1, CAP)
        if k == "bin" and n["op"] == "+=" and spec.is_cursor(n.child("l")):
            kk = _const_int(n.child("r"))
            if record:
                stats["increments"] += 1
                if kk is None or kk < 0:
                    findings.append(Finding(n, -1, b, "advance by non-constant amount %s" % expr_str(n)))
                elif b < kk:
                    findings.append(Finding(n, kk, b, "advance %s past the limit" % expr_str(n)))
            return max(b - (kk or 0), 0) if kk is not None and kk >= 0 else 0
        if k == "bin" and n["op"] in ("=", "-=") and spec.is_cursor(n.child("l")):
            return 0
        if k in ("call", "construct") and mod(n):
            return 0
        return b

    def moves_cursor(e):
        n = C.elem_node(fn, e)
        if n is None:
            return False
        k = n.get("k")
        if k == "un" and n.get("op") in ("++", "--") and spec.is_cursor(n.child("e")):
            return True
        if k == "bin" and n.get("op") in ("=", "+=", "-=") and spec.is_cursor(n.child("l")):
            return True
        return k in ("call", "construct") and mod(n)

    def named_condition(c, at_pos):
        """`const bool missingColon = cur == end || *cur != ':'; ... if (missingColon)`: the initialiser, provided the name is never
        written and the cursor cannot move between the declaration and the branch."""
        if c.get("k") != "ref" or c.get("did") is None or at_pos is None:
            return None
        inits, dpos = [], None
        for d in fn.nodes:
            if d.get("k") == "decl":
                for v in d.get("vars", []):
                    if v.get("did") == c["did"] and "init" in v and fn.db_types[v["t"]].replace("const ", "").strip() == "bool":
                        inits.append(fn.nodes[v["init"]])
                        dpos = C.pos_of(fn, d)
            if d.get("k") == "bin" and d.get("op", "").endswith("=") and d["op"] not in ("==", "!=", "<=", ">=") and \
                    _strip(d.child("l")) is not None and _strip(d.child("l")).get("did") == c["did"]:
                return None
        if len(inits) != 1 or dpos is None:
            return None
        if C.path_exists(fn, dpos, lambda p, e: e not in ("TERM", "EXIT") and moves_cursor(e), avoid=lambda p, e: p == at_pos) is not None:
            return None
        return inits[0]

    def refine(b, cond, pol, at_pos=None):
        """bound after `cond` evaluated to pol."""
        c = _strip(cond)
        if c is None:
            return b
        k = c.get("k")
        if k == "ref":
            ini = named_condition(c, at_pos)
            if ini is not None:
                return refine(b, ini, pol, None)
            return b
        if k == "bin" and c.get("op") in ("&&", "||"):
            l_, r_ = c.child("l"), c.child("r")
            conj_ = (c["op"] == "&&")
            if conj_ == pol:
                # both operands have the polarity: a && b true, a || b false
                return refine(refine(b, l_, pol, at_pos), r_, pol, at_pos)
            # a && b false / a || b true: either the left decided, or the left had the other value and the right decided
            return min(refine(b, l_, pol, at_pos), refine(refine(b, l_, not pol, at_pos), r_, pol, at_pos))
        if k == "un" and c["op"] == "!":
            return refine(b, c.child("e"), not pol, at_pos)
        if k == "cast" and c.get("ck") in ("IntegralToBoolean", "PointerToBoolean"):
            inner = c.child("e")
            si = _strip(inner)
            # truthiness of *cur with a sentinel
            if spec.sentinel and si is not None and si.get("k") == "un" and si["op"] == "*" and spec.cursor_plus(si.child("e")) == 0:
                if pol and b >= 1:
                    return max(b, 2)
            return refine(b, inner, pol, at_pos)
        if k == "bin" and c["op"] in ("==", "!=", "<", ">", "<=", ">="):
            l, r, op = c.child("l"), c.child("r"), c["op"]
            # normalise so that the cursor side is on the left
            if spec.is_limit(l) and spec.cursor_plus(r) is not None:
                l, r = r, l
                op = {"<": ">", ">": "<", "<=": ">=", ">=": "<=", "==": "==", "!=": "!="}[op]
            off = spec.cursor_plus(l)
            if off is not None and spec.is_limit(r):
                if not pol:
                    op = {"==": "!=", "!=": "==", "<": ">=", ">=": "<", ">": "<=", "<=": ">"}[op]
                if op == "==":
                    return max(b, off) if b >= off else b
                if op == "!=":
                    return max(b, off + 1) if b >= off else b
                if op == "<":
                    return max(b, min(off + 1, CAP))
                if op == "<=":
                    return max(b, min(off, CAP))
                return b
            # limit - cursor > k
            sl = _strip(l)
            if sl is not None and sl.get("k") == "bin" and sl["op"] == "-" and spec.is_limit(sl.child("l")) and spec.is_cursor(sl.child("r")):
                kk = _const_int(r)
                if kk is not None:
                    if not pol:
                        op = {"==": "!=", "!=": "==", "<": ">=", ">=": "<", ">": "<=", "<=": ">"}[op]
                    if op == ">":
                        return max(b, min(kk + 1, CAP))
                    if op == ">=":
                        return max(b, min(kk, CAP))
                    if op == "==":
                        return max(b, min(kk, CAP))
                return b
            # sentinel: *cur != '\0'
            if spec.sentinel:
                for a, o in ((l, r), (r, l)):
                    sa_ = _strip(a)
                    if sa_ is not None and sa_.get("k") == "un" and sa_["op"] == "*" and spec.cursor_plus(sa_.child("e")) == 0 \
                            and _const_int(o) == 0:
                        eff = op if pol else {"==": "!=", "!=": "=="}.get(op)
                        if eff == "!=" and b >= 1:
                            return max(b, 2)
            return b
        return b

    def edge(st, blk, si, s):
        t = blk.term
        if not t or st is None:
            return st
        c = blk.effective_cond()
        if c is None or len(blk.succs) != 2:
            return st
        cls = t["cls"]
        if cls in ("IfStmt", "WhileStmt", "ForStmt", "DoStmt", "ConditionalOperator") or \
                (cls == "BinaryOperator" and t.get("op") in ("&&", "||")):
            nb = refine(st, c, si == 0, C.term_pos(fn, blk.id))
            if nb != st:
                stats["refinements"] += 1
            return nb
        return st

    in_state, at = C.forward(fn, entry_bound, lambda st, pos, e: transfer(st, pos, e, False), edge, meet=min)
    # second pass: record requirements with the fixpoint states
    for bid, st in in_state.items():
        blk = fn.blocks[bid]
        for j, e in enumerate(blk.raw_elems):
            st = transfer(st, (bid, j), e, True)
    return findings, stats
