"""C04 — Killing the process at any instant leaves a usable, consistent database (structural part)."""
from sa.facts import expr_plain, AnalysisBroken, expr_str, qmatch, strip_casts, relpath, core
from sa import cfg
from sa.cfg import BranchFacts
from sa.flow import arg_nodes
from sa import sqlschema as SQL
from sa.callgraph import CallGraph
from rules import engine as E
from rules.C03 import DBModel, DB

UNITS = ["lib/Core/SQLiteBuildDB.cpp", "lib/Core/BuildEngine.cpp", "products/libllbuild/BuildDB-C-API.cpp"]
THOROUGH_ALL_UNITS = False
EXPLANATION = (
    "All mutating SQL is executed by a frozen set of functions (rule-result insert, key insert, iteration update, schema "
    "creation inside its own BEGIN EXCLUSIVE … END); transaction-ending SQL appears only in buildComplete and schema "
    "creation; in the engine those writers are reached only from build() after a successful buildStarted, and the deferred "
    "buildComplete is registered before any later exit; on every path from the epoch increment to the end of build() the "
    "current epoch is written to the database — on failed and cancelled builds too — so no result stamped with the new epoch "
    "can be committed beside the old stored epoch; results are written only for tasks that completed, after their "
    "dependency list is final. Atomic commit of the transaction itself is SQLite's (trusted).")
NOT_DECIDED = ("that builds continued from the committed snapshot return clean-build results when outputs were already "
               "modified by the interrupted build (behavioural); the fault path where setCurrentIteration itself fails.")

MUTATORS = {
    "setRuleResult": {"insertIntoRuleResultsStmt"},
    "getKeyIDFromDB": {"insertIntoKeysStmt"},
    "setCurrentIteration": {"<literal>UPDATE info"},
    "open": {"<literal>schema"},
}



def engine_txn_pairing(prog, r, with_epoch=True):
    """the engine side of the build transaction (shared with C05: a cancelled build that leaves the transaction open poisons every later build):
    a successful buildStarted is followed on every path by the registration of the scope guard that calls buildComplete, the guard runs on every
    exit, and the work loop and the epoch write sit between the two."""
    f = E.efn(prog, "build")
    bf = BranchFacts(f, kill="assign")
    bs = f.calls("BuildDB::buildStarted")
    ex = f.calls(E.ENGINE + "::executeTasks")
    sci = f.calls("BuildDB::setCurrentIteration")
    if len(bs) != 1 or len(ex) != 1 or len(sci) > 1:
        raise AnalysisBroken("build(): buildStarted=%d executeTasks=%d setCurrentIteration=%d" % (len(bs), len(ex), len(sci)))
    # the defer that calls buildComplete
    defer = None
    for d in f.nodes:
        if d.get("k") == "decl":
            for v in d["vars"]:
                if "ScopeDefer" in f.db_types[v["ct"]] and "init" in v:
                    for x in f.nodes[v["init"]].walk():
                        if x.get("k") == "lambda":
                            lf = prog.lambda_fn(x)
                            if lf is not None and lf.calls("BuildDB::buildComplete"):
                                defer = d
    r.check(defer is not None, "build|deferred-buildComplete", "", "no scope guard commits the transaction", f)
    if defer is not None:
        dp = cfg.pos_of(f, defer)
        bsp = cfg.pos_of(f, bs[0])
        # between a successful buildStarted and the registration of the guard there is no way out
        legit = set()
        for x in f.nodes:
            if x.get("k") == "return" and any((a == "result" or "buildStarted(" in a) and not pol for a, pol in (bf.at_node(x) or frozenset())) and \
                    cfg.path_exists(f, dp, lambda p, e, xp=cfg.pos_of(f, x): p == xp) is None:
                legit.add(cfg.pos_of(f, x))       # `if (!result) return` right after buildStarted failed
        w = cfg.path_exists_feasible(f, bsp, cfg.is_exit, avoid=lambda p, e: p == dp or p in legit)
        ok = w is None and len(legit) == 1
        r.check(ok, "build|guard-registered-right-after-start", "", "a path leaves build() after a successful buildStarted without the commit guard", f, defer,
                path=str(w))
        # the work loop and the epoch write happen under the guard
        for c, nm in ((ex[0], "executeTasks"),) + (((sci[0], "setCurrentIteration"),) if sci and with_epoch else ()):
            r.check(cfg.dominated_by(f, cfg.pos_of(f, c), lambda p, e: p == dp)[0], "build|%s-inside-transaction" % nm, "",
                    "%s reachable outside the build transaction" % nm, f, c)
        if not sci and with_epoch:
            # the epoch write moved out of build()'s body: inside the transaction only if the commit guard performs it before buildComplete
            where = []
            for d_, lf in E.scope_guards(prog, f):
                cs, bc = lf.calls("BuildDB::setCurrentIteration"), lf.calls("BuildDB::buildComplete")
                if cs:
                    where.append(lf)
                    ok = d_ is defer and len(cs) == 1 and len(bc) == 1 and \
                        cfg.dominated_by(lf, cfg.pos_of(lf, bc[0]), lambda p, e, sp=cfg.pos_of(lf, cs[0]): p == sp)[0]
                    r.check(ok, "build|setCurrentIteration-inside-transaction", "", "the epoch is written after buildComplete() has committed the build transaction: "
                            "a kill between the two commits leaves results stamped with an epoch the database does not record", lf, cs[0])
            if not where:
                r.violation("build|setCurrentIteration-inside-transaction", "the current epoch is not written between buildStarted and the commit", f)
        # the guard's destructor runs on every exit after registration: implicit-dtor element on each such path
        dv = defer["vars"][0]["did"]
        w = cfg.path_exists(f, dp, cfg.is_exit, avoid=lambda p, e: isinstance(e, dict) and e.get("x") == "dtor" and e.get("did") == dv)
        r.check(w is None, "build|guard-runs-on-every-exit", "", "an exit after the guard was registered skips its destructor", f, defer)




def run(ctx):
    prog, rep = ctx.prog, ctx.report
    db = DBModel(prog)

    r = rep.rule("R-TXN-SCOPE",
                 "only the listed functions execute mutating SQL; transaction-ending SQL only in buildComplete and schema creation; "
                 "the key insert is reached only from the rule-result writer; in the engine the writers run only between a successful "
                 "buildStarted and the deferred buildComplete", floor=10)
    found = {}
    for f in db.fns:
        fname = f.name.split("::")[-1]
        for c in f.calls():
            nm = c.get("fn") or ""
            if nm == "sqlite3_step":
                sname, ssql = db.sql_at(f, arg_nodes(c)[0], c)
                if not isinstance(ssql, str):
                    raise AnalysisBroken("cannot resolve the statement stepped in %s" % fname)
                cls = SQL.classify(ssql)
                label = sname if sname.endswith("Stmt") and sname != "stmt" else "<literal>" + " ".join(ssql.split()[:2])
                site = "%s|step %s" % (fname, label)
                if cls in ("mutate", "schema"):
                    ok = fname in MUTATORS and label in MUTATORS[fname]
                    r.check(ok, site, cls, "mutating statement executed in %s, which is not one of the database writers" % fname, f, c)
                    found.setdefault(fname, set()).add(label)
                elif cls.startswith("txn"):
                    r.violation(site, "transaction control through a prepared statement in %s" % fname, f, c)
                else:
                    r.ok(site, cls, f, c)
            elif nm == "sqlite3_exec":
                sql = db.sql_text(f, arg_nodes(c)[1])
                if sql is None:
                    # dynamic text (sqlite3_mprintf): only the schema creation may do that
                    r.check(fname == "open", "%s|exec <dynamic>" % fname, "", "dynamic SQL executed outside schema creation", f, c)
                    continue
                cls = SQL.classify(sql)
                site = "%s|exec %s" % (fname, " ".join(sql.split()[:3]))
                if cls in ("mutate", "schema"):
                    r.check(fname == "open", site, cls, "mutating SQL executed in %s" % fname, f, c)
                elif cls == "txn-end":
                    r.check(fname in ("buildComplete", "open"), site, cls, "transaction ended in %s" % fname, f, c)
                elif cls == "txn-begin":
                    r.check(fname in ("buildStarted", "open") and "EXCLUSIVE" in sql.upper(), site, cls, "transaction begun in %s / not EXCLUSIVE" % fname, f, c)
                elif cls == "txn-rollback":
                    r.violation(site, "explicit rollback in %s" % fname, f, c)
                else:
                    r.ok(site, cls, f, c)
    for fname, labels in MUTATORS.items():
        if fname in ("open",):
            continue
        r.check(found.get(fname) == labels, "%s|is-writer" % fname, "", "%s executes %s, expected %s" % (fname, found.get(fname), labels))
    # schema creation is one transaction: BEGIN EXCLUSIVE dominates every CREATE, END follows them all
    g = prog.fn(DB + "::open")
    execs = [(c, db.sql_text(g, arg_nodes(c)[1])) for c in g.calls("sqlite3_exec")]
    begin = [c for c, s in execs if s and SQL.classify(s) == "txn-begin"]
    end = [c for c, s in execs if s and SQL.classify(s) == "txn-end"]
    muts = [c for c, s in execs if s is None or SQL.classify(s) in ("mutate", "schema")]
    ok = len(begin) == 1 and len(end) == 1 and len(muts) >= 4
    if ok:
        bp, ep = cfg.pos_of(g, begin[0]), cfg.pos_of(g, end[0])
        for m in muts:
            mp = cfg.pos_of(g, m)
            ok = ok and cfg.dominated_by(g, mp, lambda p, e: p == bp)[0] and cfg.path_exists(g, ep, lambda p, e, mp=mp: p == mp) is None
    r.check(ok, "open|schema-in-one-transaction", "%d statements" % len(muts), "schema creation is not bracketed by BEGIN EXCLUSIVE … END", g)
    # the build transaction itself: buildStarted answers `true` only after BEGIN EXCLUSIVE was executed (no early `true` for a build that
    # was "already announced": every later build of the process would then run in autocommit mode); buildComplete ends it on every path
    bs_ = prog.fn(DB + "::buildStarted")
    bexec = [c for c in bs_.calls("sqlite3_exec") if (db.sql_text(bs_, arg_nodes(c)[1]) or "") and SQL.classify(db.sql_text(bs_, arg_nodes(c)[1])) == "txn-begin"]
    if len(bexec) == 1:
        bp = cfg.pos_of(bs_, bexec[0])
        early = [x for x in bs_.nodes if x.get("k") == "return" and "e" in x and not (core(x.child("e")).get("k") == "bool" and core(x.child("e")).get("v") is False)
                 and not cfg.dominated_by(bs_, cfg.pos_of(bs_, x), lambda p, e: p == bp)[0]]
        r.check(not early, "buildStarted|true-only-after-begin", "", "buildStarted can report success without having begun the exclusive transaction", bs_, early[0] if early else None)
    else:
        r.violation("buildStarted|true-only-after-begin", "buildStarted executes %d BEGIN statements" % len(bexec), bs_)
    bc_ = prog.fn(DB + "::buildComplete")
    eexec = [c for c in bc_.calls("sqlite3_exec") if (db.sql_text(bc_, arg_nodes(c)[1]) or "") and SQL.classify(db.sql_text(bc_, arg_nodes(c)[1])) == "txn-end"]
    ok = len(eexec) == 1 and cfg.must_pass_through(bc_, cfg.entry_pos(bc_), lambda p, e, ep=cfg.pos_of(bc_, eexec[0]) if eexec else None: p == ep)[0]
    r.check(ok, "buildComplete|end-on-every-path", "", "buildComplete can return without ending the build transaction", bc_)
    # who calls the key insert
    cg = CallGraph(prog)
    callers = set(f.name.split("::")[-1] for f, c in cg.callers_of(DB + "::getKeyIDFromDB"))
    callers2 = set(f.name.split("::")[-1] for f, c in cg.callers_of(DB + "::getKeyID"))
    r.check(callers == {"getKeyID"} and callers2 == {"setRuleResult"}, "getKeyIDFromDB|only-from-writer", "",
            "key insertion reachable from %s / %s" % (sorted(callers), sorted(callers2)))
    # engine side: who calls the writers
    wr = {}
    for f in E.engine_functions(prog):
        for c in f.calls():
            nm = (c.get("fn") or "")
            for w in ("BuildDB::setRuleResult", "BuildDB::setCurrentIteration", "BuildDB::buildStarted", "BuildDB::buildComplete"):
                if qmatch(nm, w):
                    wr.setdefault(w.split("::")[-1], set()).add(f.name.split("::")[-1] if not f.is_lambda else "build::defer")
    r.check(wr.get("setRuleResult") == {"executeTasks"} and wr.get("setCurrentIteration") in ({"build"}, {"build::defer"}) and wr.get("buildStarted") == {"build"}
            and wr.get("buildComplete") == {"build::defer"}, "engine|writer-callers", "", "database writers are called from %s" % wr)
    ex_callers = set(f.name.split("::")[-1] for f, c in cg.callers_of(E.ENGINE + "::executeTasks"))
    r.check(ex_callers == {"build"}, "engine|work-loop-only-from-build", "", "executeTasks called from %s" % sorted(ex_callers))
    engine_txn_pairing(prog, r)

    E.r_epoch_persist(prog, rep)
    # the exclusive begin and its error path, and the recreate-or-refuse decision, as C03 decides them (same file, same functions)
    from sa.report import run_subset
    from rules import C03
    run_subset(C03, ctx, {"R-DB-EXCLUSIVE", "R-DB-VERSION"})

    r = rep.rule("R-DB-ATOMIC-COMMIT",
                 "nothing the database layer executes weakens SQLite's atomic commit: no PRAGMA journal_mode = OFF / MEMORY, no PRAGMA "
                 "synchronous = OFF, no writable_schema, the file is opened with the default VFS (sqlite3_open on the path)", floor=15)
    import re
    for f_, c_, sql in db.literals:
        fname = f_.name.split("::")[-1]
        site = "%s|%s" % (fname, " ".join(sql.split()[:3])[:40])
        m = re.match(r"\s*PRAGMA\s+([\w.]+)\s*(?:=|\()\s*['\"]?(\w+)", sql, re.I)
        if m:
            name, val = m.group(1).lower().split(".")[-1], m.group(2).upper()
            bad = (name == "journal_mode" and val in ("OFF", "MEMORY")) or (name == "synchronous" and val in ("OFF", "0")) or \
                (name == "writable_schema" and val not in ("OFF", "0", "FALSE")) or (name == "locking_mode" and val == "NORMAL" and False)
            r.check(not bad, site, "", "PRAGMA %s = %s removes the on-disk rollback journal / sync that makes a killed commit recoverable" % (name, val), f_, c_)
        else:
            r.ok(site, SQL.classify(sql), f_, c_)
    # dynamic PRAGMA text would hide from the literal scan: only sqlite3_mprintf in schema creation builds SQL
    dyn = [(f_, c_) for f_ in db.fns for c_ in f_.calls() if (c_.get("fn") or "") in ("sqlite3_exec", "sqlite3_prepare_v2") and db.sql_text(f_, arg_nodes(c_)[1]) is None]
    r.check(len(dyn) == 1 and dyn[0][0].name.endswith("::open"), "dynamic-sql-only-in-schema-creation", "", "SQL text built at run time in %s" % [d[0].name.split("::")[-1] for d in dyn])
    opens = [(f_, c_) for f_ in db.fns for c_ in f_.calls() if (c_.get("fn") or "").startswith("sqlite3_open")]
    ok = bool(opens) and all((c_.get("fn") or "") == "sqlite3_open" and expr_str(core(arg_nodes(c_)[0])) == "path.c_str()" for f_, c_ in opens)
    r.check(ok, "open|default-vfs-on-path", "%d open call(s)" % len(opens), "database opened other than with sqlite3_open(path)", opens[0][0] if opens else None)

    # the files SQLite's recovery depends on are touched by SQLite only
    FSMUT = {"unlink", "remove", "rename", "truncate", "ftruncate", "open", "open64", "fopen", "creat", "rmdir", "link", "symlink", "chmod", "mkstemp",
             "remove_all", "rm_tree", "copy_file", "resize_file", "createUniqueFile", "openFileForWrite"}
    fsc = []
    for f_ in db.fns:
        for c_ in f_.calls():
            nm_ = c_.get("fn") or ""
            if c_.get("k") == "call" and nm_.split("::")[-1] in FSMUT and ("::" not in nm_ or nm_.startswith(("llbuild::basic::sys::", "llvm::sys::", "std::filesystem", "std::"))):
                fsc.append((f_, c_))
    r.check(len(fsc) == 1, "db-files|only-the-recreate-unlink", "%d file-system call(s)" % len(fsc),
            "the database layer makes %d direct file-system calls (one expected: unlinking the database file to recreate it)" % len(fsc), fsc[0][0] if fsc else None)
    for f_, c_ in fsc:
        fn_short = f_.name.split("::")[-1]
        a0 = expr_plain(arg_nodes(c_)[0]) if arg_nodes(c_) else ""
        bfo = BranchFacts(f_, kill="assign")
        st = bfo.at_node(c_) or frozenset()
        closes = [x for x in f_.calls() if (x.get("fn") or "") == "sqlite3_close"]
        after_close = any(cfg.dominated_by(f_, cfg.pos_of(f_, c_), lambda p, e, xp=cfg.pos_of(f_, x): p == xp)[0] for x in closes)
        ok = fn_short == "open" and (c_.get("fn") or "").endswith("unlink") and a0 == "path.c_str()" and after_close and \
            any("recreateOnUnmatchedVersion" in a for a, p in st)
        r.check(ok, "db-files|%s(%s) in %s" % ((c_.get("fn") or "").split("::")[-1], a0[:30], fn_short), "",
                "%s(%s): the database layer removes or rewrites a file that SQLite owns (the rollback journal is what makes a killed commit recoverable; "
                "only the database file itself may be unlinked, after closing it, to recreate it on a version mismatch)" % ((c_.get("fn") or "").split("::")[-1], a0[:40]), f_, c_)

    r = rep.rule("R-RESULT-FROM-COMPLETED-TASK", "a rule result is written to the database only for a task taken from the finished queue, after it was "
                                                 "stamped complete and its discovered dependencies were appended", floor=3)
    E.r_discovered_append(prog, rep)
    g = E.efn(prog, "executeTasks")
    sr = g.calls("BuildDB::setRuleResult")
    a = [expr_str(core(x)) for x in arg_nodes(sr[0])]
    r.check(a[0] == "ruleInfo->keyID" and "ruleInfo->rule" in a[1] and a[2] == "ruleInfo->result", "executeTasks|writes-own-result", "",
            "setRuleResult is given %s" % a[:3], g, sr[0])
    bfg = BranchFacts(g, kill="assign")
    r.check(E.has(E.facts_at(bfg, sr[0]), "taskInfo", True), "executeTasks|task-was-popped", "", "result written without a finished task", g, sr[0])
    decl = [v for d in g.nodes if d.get("k") == "decl" for v in d["vars"] if v["n"] == "ruleInfo" and "init" in v and
            any(x is sr[0] for x in (E.loop_of(g, d) or d).walk())]
    r.check(bool(decl) and expr_str(core(g.nodes[decl[0]["init"]])) == "taskInfo->forRuleInfo", "executeTasks|result-of-that-task", "",
            "the result written is not the finished task's rule", g)


def failed_start_only(f, path_blocks, bs_call):
    """the only admissible exit before the guard is the failed-buildStarted return."""
    bf = BranchFacts(f, kill="assign")
    rets = [n for n in f.nodes if n.get("k") == "return"]
    for x in rets:
        p = cfg.pos_of(f, x)
        if p and p[0] in path_blocks:
            st = bf.at_node(x) or frozenset()
            if any(a == "result" and not pol for a, pol in st):
                return True
    return False


VARIANTS = [
    dict(name="stale-journal-unlinked-on-open", file="lib/Core/SQLiteBuildDB.cpp",
         old="    sqlite3_busy_timeout(db, 5000);", new="    (void)basic::sys::unlink((path + \"-journal\").c_str());\n    sqlite3_busy_timeout(db, 5000);",
         expect=("R-DB-ATOMIC-COMMIT", "db-files|")),
    dict(name="database-unlinked-without-version-mismatch", file="lib/Core/SQLiteBuildDB.cpp",
         old="    sqlite3_busy_timeout(db, 5000);", new="    if (path.size() > 200) (void)basic::sys::unlink(path.c_str());\n    sqlite3_busy_timeout(db, 5000);",
         expect=("R-DB-ATOMIC-COMMIT", "db-files|")),
    dict(name="epoch-write-deferred-after-commit", file="lib/Core/BuildEngine.cpp",
         edits=[("      if (db)\n        db->buildComplete();\n    };", "      if (!db)\n        return;\n      db->buildComplete();\n      std::string error;\n      if (!db->setCurrentIteration(currentEpoch, &error))\n        delegate.error(error);\n    };"),
                ("    if (db) {\n      std::string error;\n      bool result = db->setCurrentIteration(currentEpoch, &error);\n      if (!result) {\n        delegate.error(error);\n        static ValueType emptyValue{};\n        return emptyValue;\n      }\n    }\n", "")],
         expect=("R-TXN-SCOPE", "setCurrentIteration-inside-transaction")),
    dict(name="benign-epoch-write-deferred-before-commit", file="lib/Core/BuildEngine.cpp",
         edits=[("      if (db)\n        db->buildComplete();\n    };", "      if (!db)\n        return;\n      std::string error;\n      if (!db->setCurrentIteration(currentEpoch, &error))\n        delegate.error(error);\n      db->buildComplete();\n    };"),
                ("    if (db) {\n      std::string error;\n      bool result = db->setCurrentIteration(currentEpoch, &error);\n      if (!result) {\n        delegate.error(error);\n        static ValueType emptyValue{};\n        return emptyValue;\n      }\n    }\n", "")],
         expect=None),
    dict(name="journal-in-memory", file="lib/Core/SQLiteBuildDB.cpp", old="    sqlite3_busy_timeout(db, 5000);\n",
         new="    sqlite3_busy_timeout(db, 5000);\n    sqlite3_exec(db, \"PRAGMA journal_mode = MEMORY;\", nullptr, nullptr, nullptr);\n", expect=("R-DB-ATOMIC-COMMIT", "PRAGMA journal_mode")),
    dict(name="synchronous-off", file="lib/Core/SQLiteBuildDB.cpp", old="    sqlite3_busy_timeout(db, 5000);\n",
         new="    sqlite3_busy_timeout(db, 5000);\n    sqlite3_exec(db, \"PRAGMA synchronous=OFF\", nullptr, nullptr, nullptr);\n", expect=("R-DB-ATOMIC-COMMIT", "PRAGMA synchronous")),
    dict(name="benign-pragma-cache-size", file="lib/Core/SQLiteBuildDB.cpp", old="    sqlite3_busy_timeout(db, 5000);\n",
         new="    sqlite3_busy_timeout(db, 5000);\n    sqlite3_exec(db, \"PRAGMA cache_size = 4000;\", nullptr, nullptr, nullptr);\n", expect=None),
    dict(name="epoch-write-only-on-success", file="lib/Core/BuildEngine.cpp",
         old="    // FIXME: Is it correct to do this here, or earlier?\n    if (db) {", new="    // FIXME: Is it correct to do this here, or earlier?\n    if (db && success) {",
         expect=("R-EPOCH-PERSIST", "build|epoch-write-unconditional")),
    dict(name="early-return-before-epoch-write", file="lib/Core/BuildEngine.cpp",
         old="    bool success = executeTasks(key);\n", new="    bool success = executeTasks(key);\n    if (!success && buildCancelled) {\n      static ValueType emptyValue{};\n      return emptyValue;\n    }\n",
         expect=("R-EPOCH-PERSIST", "build|")),
    dict(name="epoch-write-stale-value", file="lib/Core/BuildEngine.cpp",
         old="      bool result = db->setCurrentIteration(currentEpoch, &error);", new="      bool result = db->setCurrentIteration(currentEpoch - 1, &error);",
         expect=("R-EPOCH-PERSIST", "persists-current-epoch")),
    dict(name="commit-guard-after-queue-setup", file="lib/Core/BuildEngine.cpp",
         edits=[("    llbuild_defer {\n      if (db)\n        db->buildComplete();\n    };\n\n", ""),
                ("    // Increment our running iteration count.\n", "    llbuild_defer {\n      if (db)\n        db->buildComplete();\n    };\n    // Increment our running iteration count.\n")],
         expect=("R-TXN-SCOPE", "build|guard-registered-right-after-start")),
    dict(name="commit-per-result", file="lib/Core/SQLiteBuildDB.cpp",
         old="    result = sqlite3_step(insertIntoRuleResultsStmt);\n    if (result != SQLITE_DONE) {\n      *error_out = getCurrentErrorMessage();\n      return false;\n    }\n\n    return true;",
         new="    result = sqlite3_step(insertIntoRuleResultsStmt);\n    if (result != SQLITE_DONE) {\n      *error_out = getCurrentErrorMessage();\n      return false;\n    }\n    sqlite3_exec(db, \"END;\", nullptr, nullptr, nullptr);\n    sqlite3_exec(db, \"BEGIN EXCLUSIVE;\", nullptr, nullptr, nullptr);\n\n    return true;",
         expect=("R-TXN-SCOPE", "setRuleResult|exec")),
    dict(name="lookup-deletes-stale-key", file="lib/Core/SQLiteBuildDB.cpp",
         old="      // If the rule wasn't found, we are done.\n      result = sqlite3_step(findRuleResultStmt);\n      if (result == SQLITE_DONE)\n        return false;",
         new="      // If the rule wasn't found, we are done.\n      result = sqlite3_step(findRuleResultStmt);\n      if (result == SQLITE_DONE) {\n        sqlite3_step(deleteFromKeysStmt);\n        return false;\n      }",
         expect=("R-TXN-SCOPE", "lookupRuleResult|step deleteFromKeysStmt")),
    dict(name="result-written-before-complete", file="lib/Core/BuildEngine.cpp",
         edits=[("        ruleInfo->setPendingTaskInfo(nullptr);\n        ruleInfo->setComplete(this);\n\n        // Report the status change.", "        ruleInfo->setPendingTaskInfo(nullptr);\n\n        // Report the status change."),
                ("        // Wake up all of the pending scan requests.\n        for (const auto& request: taskInfo->deferredScanRequests) {", "        ruleInfo->setComplete(this);\n        for (const auto& request: taskInfo->deferredScanRequests) {")],
         expect=("R-DISCOVERED-APPEND", "complete-before-db-write")),
    dict(name="build-started-twice-tolerated", file="lib/Core/SQLiteBuildDB.cpp", old="    if (!open(error_out))\n      return false;\n\n    // Execute the entire build inside a single transaction.", new="    if (!open(error_out))\n      return false;\n    if (sqlite3_get_autocommit(db) == 0)\n      return true;\n\n    // Execute the entire build inside a single transaction.",
         expect=("R-TXN-SCOPE", "true-only-after-begin")),
    dict(name="end-only-when-not-autocommit", file="lib/Core/SQLiteBuildDB.cpp", old="    // Sync changes to disk.\n    int result = sqlite3_exec(db, \"END;\", nullptr, nullptr, nullptr);\n    assert(result == SQLITE_OK);\n    (void)result;",
         new="    // Sync changes to disk.\n    if (db && getCurrentErrorMessage().empty()) {\n      int result = sqlite3_exec(db, \"END;\", nullptr, nullptr, nullptr);\n      (void)result;\n    }", expect=("R-TXN-SCOPE", "end-on-every-path")),
]
