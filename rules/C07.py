"""C07 — Dependency cycles are always detected and reported accurately, never falsely (structural part)."""
from rules import engine as E

UNITS = ["lib/Core/BuildEngine.cpp"]
THOROUGH_ALL_UNITS = False
EXPLANATION = ("Decides: every work loop records didWork before processing an item and the wait branch always records it (so an "
               "acyclic build can never fall into cycle resolution); cycle resolution is entered only when nothing was done and "
               "tasks remain; every container that parks a waiting request is read by the cycle finder; an unresolved cycle is "
               "reported with the list the finder produced, then cancels the remaining tasks and fails the build.")
NOT_DECIDED = ("correctness of the depth-first search itself (first key, consecutive-pair and repeated-last-key properties of the "
               "reported list); termination on all graphs.")


def run(ctx):
    prog, rep = ctx.prog, ctx.report
    E.r_didwork(prog, rep)
    E.r_cycle_trigger(prog, rep)
    E.r_waitfor_coverage(prog, rep)
    E.r_scan_waits(prog, rep)
    E.r_request_flags(prog, rep)
    E.r_waitcount(prog, rep)              # a wait count that cannot reach zero is a stall, reported as a cycle
    E.r_outstanding_count(prog, rep)
    E.r_queue_ops(prog, rep)           # a lost scan request leaves its rule scanning for ever: a stall, reported as a cycle
    E.r_dfs_pairing(prog, rep)
    E.r_cancel_on_exit(prog, rep)
    E.run_all(prog, rep)        # every other engine rule: this property is anchored in the whole engine
from rules.engine_variants import C07 as VARIANTS  # noqa: E402
