"""C20 — The C API is a faithful binding of the engine (structural part)."""
from sa.facts import AnalysisBroken, expr_str, qmatch, strip_casts, relpath, core
from sa import cfg
import re
from sa.flow import mentions, taint_closure, param_did, arg_nodes

UNITS = ["products/libllbuild/Core-C-API.cpp", "products/libllbuild/BuildDB-C-API.cpp",
         "products/libllbuild/C-API.cpp"]
THOROUGH_UNITS_EXTRA = ["products/libllbuild/BuildKey-C-API.cpp", "products/libllbuild/BuildValue-C-API.cpp",
                        "products/libllbuild/BuildSystem-C-API.cpp", "products/libllbuild/Ninja-C-API.cpp"]
THOROUGH_ALL_UNITS = False

EXPLANATION = (
    "Decides the forwarding shape of the C binding: every parameter of every exported llb_* function of the "
    "core/database API reaches the C++ call (and argument position) of the same role; every C++ -> C callback "
    "override passes each of its parameters on; byte strings cross the boundary as (pointer,length) pairs in both "
    "directions; enums converted by cast have identical numeric tables; positional C-struct initialisers put each "
    "Result field into the member of the same name; attach_db reports its error string on every path.")
NOT_DECIDED = ("event-by-event equality of callback sequences between a C and a C++ client; API gaps that are "
               "design (no prior-value callback, no key in provide_value).")

# (C function, parameter, C++ callee suffix, argument index)
ROLE_TABLE = [
    ("llb_buildengine_task_is_complete", "value", "TaskInterface::complete", 0),
    ("llb_buildengine_task_is_complete", "force_change", "TaskInterface::complete", 1),
    ("llb_buildengine_task_needs_input", "key", "TaskInterface::request", 0),
    ("llb_buildengine_task_needs_input", "input_id", "TaskInterface::request", 1),
    ("llb_buildengine_task_must_follow", "key", "TaskInterface::mustFollow", 0),
    ("llb_buildengine_task_discovered_dependency", "key", "TaskInterface::discoveredDependency", 0),
    ("llb_buildengine_attach_db", "path", "createSQLiteBuildDB", 0),
    ("llb_buildengine_attach_db", "schema_version", "createSQLiteBuildDB", 1),
    ("llb_buildengine_build", "key", "BuildEngine::build", 0),
    ("llb_database_open", "path", "CAPIBuildDB::create", 0),
    ("llb_database_open", "clientSchemaVersion", "CAPIBuildDB::create", 1),
]

# (override suffix, parameter name, C callback member) ; None callback = documented gap
CALLBACK_TABLE = [
    ("CAPIRule::isResultValid", "value", "is_result_valid"),
    ("CAPIRule::updateStatus", "status", "update_status"),
    ("CAPIBuildEngineDelegate::lookupRule", "key", "lookup_rule"),
    ("CAPIBuildEngineDelegate::cycleDetected", "items", "cycle_detected"),
    ("CAPIBuildEngineDelegate::error", "message", "error"),
    ("CAPITask::start", "ti", "start"),
    ("CAPITask::provideValue", "ti", "provide_value"),
    ("CAPITask::provideValue", "inputID", "provide_value"),
    ("CAPITask::provideValue", "value", "provide_value"),
    ("CAPITask::inputsAvailable", "ti", "inputs_available"),
]
CALLBACK_EXEMPT = {
    ("CAPITask::provideValue", "key"): "documented API gap: provide_value has no key parameter (core.h)",
}


def exported(prog):
    out = []
    for f in prog.functions.values():
        if f.is_lambda or f.cls:
            continue
        if f.name.startswith("llb_") and relpath(f.file).startswith("products/libllbuild/"):
            out.append(f)
    return sorted(out, key=lambda f: (f.file, f.line))


def sinks_reached(fn, tainted):
    """calls / returns / stores through pointers that consume a tainted value."""
    hits = []
    for n in fn.nodes:
        k = n.get("k")
        if k in ("call", "construct"):
            name = (n.get("fn") or "")
            if name.split("::")[-1] in ("move", "forward", "operator*", "operator->", "get"):
                continue
            ops = arg_nodes(n)
            if "obj" in n:
                ops.append(n.child("obj"))
            if "callee" in n:
                ops.append(n.child("callee"))
            if any(o is not None and mentions(o, tainted) for o in ops):
                hits.append(n)
        elif k == "return" and "e" in n and mentions(n.child("e"), tainted):
            hits.append(n)
        elif k == "delete" and mentions(n.child("e"), tainted):
            hits.append(n)
        elif k == "bin" and n["op"] == "=":
            if mentions(n.child("l"), tainted) or mentions(n.child("r"), tainted):
                hits.append(n)
    return hits


def run(ctx):
    prog, rep = ctx.prog, ctx.report

    # ------------------------------------------------------------------
    r = rep.rule("R-FORWARD-ALL-PARAMS",
                 "every parameter of every exported llb_* function flows into a call, a store or the return value "
                 "(a parameter that reaches nothing cannot have its documented effect)", floor=30)
    exp = exported(prog)
    for f in exp:
        for p in f.params:
            if not p["n"]:
                continue
            site = "%s|%s" % (f.name, p["n"])
            t = taint_closure(f, {p["did"]})
            hits = sinks_reached(f, t)
            if hits:
                r.ok(site, "reaches %s" % expr_str(hits[0])[:80], f)
            else:
                r.violation(site, "parameter '%s' of exported function %s is never forwarded" % (p["n"], f.name), f)

    # ------------------------------------------------------------------
    r = rep.rule("R-FORWARD-ROLE",
                 "each C parameter reaches the C++ call argument of the same role (frozen role table); a defaulted "
                 "C++ parameter must not stay defaulted when the C function has a parameter for it", floor=len(ROLE_TABLE))
    INT_WIDTH = {"bool": 1, "char": 1, "signed char": 1, "unsigned char": 1, "short": 2, "unsigned short": 2, "int": 4, "unsigned int": 4, "long": 8,
                 "unsigned long": 8, "long long": 8, "unsigned long long": 8}

    def via_helper(f, did, callee):
        """the C function hands the parameter to a helper of this unit which makes the C++ call: (helper, its parameter's did, call node) per such call"""
        t0 = taint_closure(f, {did})
        out = []
        for c in f.calls():
            h = prog.functions.get(c.get("fk")) if c.get("k") == "call" and c.get("fk") else None
            if h is None or h is f or h.is_lambda or relpath(h.file) != relpath(f.file) or not h.calls(callee):
                continue
            for i, a in enumerate(arg_nodes(c)):
                if a is not None and mentions(a, t0) and i < len(h.params):
                    out.append((h, h.params[i], c))
        return out

    for cname, pname, callee, idx in ROLE_TABLE:
        site = "%s|%s->%s#%d" % (cname, pname, callee, idx)
        f = prog.fn(cname)
        did = param_did(f, pname)
        if did is None:
            raise AnalysisBroken("role table: %s has no parameter %s" % (cname, pname))
        calls = f.calls(callee)
        if not calls:
            hops = via_helper(f, did, callee)
            if not hops:
                r.violation(site, "%s no longer calls %s" % (cname, callee), f)
                continue
            # follow the parameter into the helper: same check there, and nothing narrowed on the way
            p0 = [p_ for p_ in f.params if p_["did"] == did][0]
            w0 = INT_WIDTH.get(f.db_types[p0["ct"]])
            narrowed = [(h, hp) for h, hp, _c in hops if w0 is not None and INT_WIDTH.get(h.db_types[hp["ct"]]) is not None and INT_WIDTH[h.db_types[hp["ct"]]] < w0]
            if narrowed:
                h, hp = narrowed[0]
                r.violation(site, "%s: '%s' (%s) is passed through %s's parameter '%s' of the narrower type %s before it reaches %s" % (
                    cname, pname, f.db_types[p0["t"]], h.name.split("::")[-1], hp["n"], h.db_types[hp["t"]], callee), f, hops[0][2])
                continue
            f, did, pname = hops[0][0], hops[0][1]["did"], hops[0][1]["n"]
            calls = f.calls(callee)
        t = taint_closure(f, {did})
        tnames = {pname} | set(n.get("n") for n in f.nodes if n.get("k") in ("decl", "ref") and n.get("did") in t and n.get("n"))
        bf = cfg.BranchFacts(f, kill="assign")

        def selected_by_param(c):
            # implicit flow: the call is reached only under a test of the parameter (e.g. a dedicated call for the
            # empty value); the constant it passes then still derives from the parameter
            st = bf.at_node(c) or frozenset()
            if any(re.search(r"\b%s\b" % re.escape(nm), a) for a, _ in st for nm in tnames):
                return True
            for n in f.nodes:
                if n.get("k") == "if" and mentions(n.child("c"), t):
                    arms = [n.child(x) for x in ("then", "else") if x in n]
                    if any(y is c for a in arms if a is not None for y in a.walk()):
                        return True
                    # early-out guard before the call
                    if any(y.get("k") == "return" for a in arms if a is not None for y in a.walk()) and \
                            (n.get("ln") or 0) < (c.get("ln") or 0):
                        return True
            return False
        good = True
        why = ""
        bad = calls[0]
        for c in calls:
            # every call of the C++ counterpart must carry the role: a second, early-out call that drops it
            # serves some inputs without the parameter's effect
            args = arg_nodes(c)
            if (idx >= len(args) or args[idx] is None) and not selected_by_param(c):
                why = "argument #%d of %s is left to its default" % (idx, callee)
                good, bad = False, c
                break
            if idx >= len(args) or args[idx] is None:
                continue
            # a defaulted argument is materialised by clang as the default expr: it mentions nothing
            if not mentions(args[idx], t) and not selected_by_param(c):
                why = "argument #%d of %s is '%s', which does not derive from '%s'" % (idx, callee, expr_str(args[idx])[:60], pname)
                good, bad = False, c
                break
            # ... and arrives whole: no narrower integer local or explicit cast between the parameter and the argument
            pw = [p_ for p_ in f.params if p_["did"] == did]
            w0 = INT_WIDTH.get(f.db_types[pw[0]["ct"]]) if pw else None
            if w0 is not None:
                narrow = None
                for x in args[idx].walk():
                    if x.get("k") == "ref" and x.get("did") in t and x.get("did") != did and INT_WIDTH.get(x.ctype(), w0) < w0:
                        narrow = "local '%s' of type %s" % (x.get("n"), x.ctype())
                    if x.get("k") == "cast" and x.get("explicit") and INT_WIDTH.get(x.ctype(), w0) < w0 and mentions(x, t):
                        narrow = "a cast to %s" % x.ctype()
                if narrow:
                    why = "'%s' reaches argument #%d of %s through %s, which is narrower than the parameter" % (pname, idx, callee, narrow)
                    good, bad = False, c
                    break
        if good:
            r.ok(site, "", f, calls[0])
        else:
            r.violation(site, "%s: %s" % (cname, why), f, bad)

    # ------------------------------------------------------------------
    r = rep.rule("R-CALLBACK-FORWARD",
                 "every C++ -> C callback override hands each listed parameter to the C callback it wraps", floor=len(CALLBACK_TABLE))
    for meth, pname, cb in CALLBACK_TABLE:
        site = "%s|%s->%s" % (meth, pname, cb)
        f = prog.fn(meth)
        did = param_did(f, pname)
        if did is None:
            raise AnalysisBroken("callback table: %s has no parameter %s" % (meth, pname))
        t = taint_closure(f, {did})
        # implicit flow: a local assigned under a switch / if on the parameter (an explicit enumeration mapping) carries it too
        for n_ in f.nodes:
            if n_.get("k") == "bin" and n_["op"] == "=" and core(n_.child("l")) is not None and core(n_.child("l")).get("k") == "ref":
                for anc in f.ancestors(n_):
                    if anc.get("k") in ("switch", "if") and mentions(anc.child("c"), t):
                        t = t | taint_closure(f, {core(n_.child("l")).get("did")})
                        break
        found = False
        called = False
        for c in f.calls():
            if c.get("ck") != "indirect":
                continue
            cal = c.child("callee")
            if cal is None or not any(x.get("k") == "member" and x.get("n") == cb for x in cal.walk()):
                continue
            called = True
            if any(a is not None and mentions(a, t) for a in arg_nodes(c)):
                found = True
        if found:
            r.ok(site, "", f)
        elif not called:
            r.violation(site, "%s never invokes the C callback '%s'" % (meth, cb), f)
        else:
            r.violation(site, "%s invokes '%s' without passing '%s'" % (meth, cb, pname), f)
    for (meth, pname), why in CALLBACK_EXEMPT.items():
        r.exempt("%s|%s" % (meth, pname), why)

    # ------------------------------------------------------------------
    r = rep.rule("R-NUL-SAFE",
                 "byte strings cross the boundary as (pointer,length): strings built from llb_data_t::data carry "
                 "llb_data_t::length; llb_data_t values are built from size()/data() of one object; no strlen/c_str "
                 "on key or value bytes", floor=1)
    cfuncs = [f for f in prog.functions.values() if relpath(f.file) in (UNITS[0], UNITS[1])]
    n_pairs = [0]
    for f in cfuncs:
        for n in f.nodes:
            k = n.get("k")
            # C -> C++ : std::string / StringRef / vector from data pointer
            if k == "construct":
                args = arg_nodes(n)
                if not args or args[0] is None:
                    continue
                a0 = args[0]
                d0 = strip_casts(a0)
                if d0 is not None and d0.get("k") == "member" and re.search(r"llb_data_t_?::data$", d0.get("qn", "")):
                    site = "%s|string-from-data" % f.name
                    ok = len(args) >= 2 and args[1] is not None and any(
                        x.get("k") == "member" and re.search(r"llb_data_t_?::length$", x.get("qn", "")) for x in args[1].walk())
                    if ok:
                        base0 = expr_str([x for x in a0.walk() if x.get("k") == "member" and x.get("n") == "data"][0].child("b"))
                        base1 = expr_str([x for x in args[1].walk() if x.get("k") == "member" and x.get("n") == "length"][0].child("b"))
                        ok = base0 == base1
                    r.check(ok, site, "", "string built from llb_data_t::data without the matching length: %s" % expr_str(n)[:80], f, n)
            # C++ -> C : llb_data_t{ size, data }
            if k == "initlist" and n.ctype().replace("const ", "") in ("llb_data_t", "llb_data_t_", "struct llb_data_t_"):
                args = arg_nodes(n)
                site = "%s|llb_data_t-init" % (f.name if not f.is_lambda else f.key)
                if len(args) != 2 or args[0] is None or args[1] is None:
                    continue
                a0, a1 = strip_casts(args[0]), strip_casts(args[1])

                def recv(x, names):
                    if x.get("k") == "call" and x.get("ck") == "member" and (x.get("fn") or "").split("::")[-1] in names:
                        return expr_str(x.child("obj"))
                    return None
                o0 = recv(a0, ("size", "length"))
                o1 = recv(a1, ("data",))
                if o1 is None and a1.get("k") in ("ref",):
                    # buffer allocated locally with the same size (mapData): accept when arg0 is a size()
                    ok = o0 is not None
                else:
                    ok = o0 is not None and o0 == o1
                r.check(ok, site, "", "llb_data_t built from mismatched length/pointer: %s" % expr_str(n)[:80], f, n)
            # C++ -> C : (pointer, count) argument pairs handed to a C callback come from one container
            if k == "call" and n.get("fk") in ("indirect", "fnptr", None) or (k == "call" and "callee" in n):
                args = arg_nodes(n)
                for i, a in enumerate(args[:-1]):
                    a_ = strip_casts(a) if a is not None else None
                    if a_ is not None and a_.get("k") == "call" and (a_.get("fn") or "").split("::")[-1] == "data" and "obj" in a_ and \
                            strip_casts(a_.child("obj")).get("k") == "ref":
                        nxt = strip_casts(args[i + 1]) if args[i + 1] is not None else None
                        ok = nxt is not None and nxt.get("k") == "call" and (nxt.get("fn") or "").split("::")[-1] == "size" and "obj" in nxt and \
                            expr_str(nxt.child("obj")) == expr_str(a_.child("obj"))
                        n_pairs[0] += 1
                        r.check(ok, "%s|pointer-count-pair" % (f.name if not f.is_lambda else f.key), "",
                                "array handed to a C callback with a count other than its size(): %s" % expr_str(n)[:100], f, n)
            if k == "call" and (n.get("fn") or "").split("::")[-1] in ("strlen",):
                r.violation("%s|strlen" % f.name, "strlen on boundary data: %s" % expr_str(n)[:80], f, n)
    # every entry point that is handed a byte string (`const llb_data_t *`) turns it into a C++ string at one of the sites just checked — in its
    # own body or in a helper of this unit it calls (the sites are counted per entry point, not in total: sharing a helper is a refactoring)
    from sa.callgraph import CallGraph
    cg = CallGraph(prog)
    ckeys = set(g.key for g in cfuncs)
    sfd_fns = set()
    for g in cfuncs:
        for n in g.nodes:
            if n.get("k") == "construct" and arg_nodes(n) and arg_nodes(n)[0] is not None:
                d0 = strip_casts(arg_nodes(n)[0])
                if d0 is not None and d0.get("k") == "member" and re.search(r"llb_data_t_?::data$", d0.get("qn", "")):
                    sfd_fns.add(g.key)
    n_entry = 0
    for g in cfuncs:
        if g.is_lambda or not any(f_t.replace(" ", "") == "constllb_data_t*" for f_t in (g.db_types[p_["t"]] for p_ in g.params)):
            continue
        if g.name.split("::")[-1].startswith("llb_") is False:
            continue
        n_entry += 1
        reach = set(k_ for k_ in cg.reachable_from(g.key) if k_ in ckeys)
        copies = [c for c in g.calls("memcpy")]
        r.check(bool(reach & sfd_fns) or bool(copies), "%s|bytes-taken-with-length" % g.name, "",
                "%s is handed a byte string but never builds a string from its (data, length) pair" % g.name, g)
    if n_entry < 6:
        raise AnalysisBroken("R-NUL-SAFE: only %d entry points with a `const llb_data_t *` parameter found (6 confirmed by reading)" % n_entry)
    if n_pairs[0] < 1:
        raise AnalysisBroken("R-NUL-SAFE: no (pointer,count) callback argument pair found (cycle_detected expected)")
    # keys/values handed to the engine must not go through c_str()
    for cname in ("llb_buildengine_build", "llb_buildengine_task_needs_input", "llb_buildengine_task_must_follow",
                  "llb_buildengine_task_discovered_dependency", "llb_buildengine_task_is_complete"):
        f = prog.fn(cname)
        bad = [n for n in f.calls() if (n.get("fn") or "").split("::")[-1] in ("c_str", "strlen", "strdup", "strcpy")]
        r.check(not bad, "%s|no-cstring" % cname, "", "C-string function on key/value bytes: %s" % (expr_str(bad[0]) if bad else ""), f,
                bad[0] if bad else None)
    # value copy in task_is_complete: memcpy length is value->length
    f = prog.fn("llb_buildengine_task_is_complete")
    mc = f.calls("memcpy")
    for c in mc:
        a = arg_nodes(c)
        ok = len(a) == 3 and any(x.get("k") == "member" and x.get("n") == "length" for x in a[2].walk()) \
            and any(x.get("k") == "member" and x.get("n") == "data" for x in a[1].walk())
        r.check(ok, "llb_buildengine_task_is_complete|memcpy", "", "value bytes copied with a length other than value->length", f, c)

    # ------------------------------------------------------------------
    r = rep.rule("R-KEY-FROM-ENGINE", "a key handed back to the client (cycle report, status and validity callbacks) is the engine's own copy of the key: the `key` member "
                                      "of the llb_rule_t the client filled in during lookup_rule is only valid for the duration of that call (core.h) and is never read "
                                      "by the binding afterwards", floor=1)
    reads = []
    for f in cfuncs:
        for n in f.nodes:
            if n.get("k") == "member" and re.search(r"llb_rule_t_?::key$", n.get("qn", "")):
                par = f.parent_of(n)
                is_write = par is not None and par.get("k") == "bin" and par.get("op") == "=" and par.child("l") is n
                if not is_write:
                    reads.append((f, n))
    for f, n in reads[:4]:
        r.violation("%s|reads-client-key" % (f.name.split("::")[-1] if not f.is_lambda else f.key), "%s reads the client's llb_rule_t::key after lookup_rule returned: the storage behind it "
                    "may be gone or reused — the engine's Rule::key is the key" % f.name.split("::")[-1], f, n)
    cd = [g for g in cfuncs if g.name.endswith("CAPIBuildEngineDelegate::cycleDetected")]
    if len(cd) != 1:
        raise AnalysisBroken("cycleDetected override not found")
    cd = cd[0]
    il = [n for n in cd.nodes if n.get("k") == "initlist" and n.ctype().replace("const ", "") in ("llb_data_t", "llb_data_t_", "struct llb_data_t_")]
    oke = bool(il) and all(any(x.get("k") == "member" and x.get("qn", "").endswith("core::Rule::key") for x in n.walk()) or "key" in expr_str(n) for n in il)
    if not reads:
        r.check(oke, "cycleDetected|keys-from-Rule::key", "", "the reported cycle is not built from the engine's Rule::key of each item", cd)

    # ------------------------------------------------------------------
    r = rep.rule("R-ENUM-AGREE", "enums converted across the boundary keep their meaning: a conversion by cast needs identical numeric tables; a conversion by "
                                 "`switch` maps every enumerator to the one of the same name / value", floor=1)
    seen = set()
    for f in cfuncs:
        for n in f.nodes:
            if n.get("k") != "cast" or not n.get("explicit"):
                continue
            to_t, from_t = n.ctype(), n.tname("fromct")
            te = [e for nm, e in prog.enums.items() if nm == to_t]
            fe = [e for nm, e in prog.enums.items() if nm == from_t]
            if not te or not fe or te[0] is fe[0]:
                continue
            key = (from_t, to_t)
            if key in seen:
                continue
            seen.add(key)
            A, B = fe[0]["enumerators"], te[0]["enumerators"]
            norm = lambda s: s.lower().replace("_", "")
            ok = len(A) == len(B)
            detail = ""
            if ok:
                for a, b in zip(A, B):
                    if a["v"] != b["v"] or not (norm(b["n"]).endswith(norm(a["n"])) or norm(a["n"]).endswith(norm(b["n"]))):
                        ok = False
                        detail = "%s=%d vs %s=%d" % (a["n"], a["v"], b["n"], b["v"])
                        break
            else:
                detail = "%d vs %d enumerators" % (len(A), len(B))
            r.check(ok, "%s->%s" % (from_t.split("::")[-1], to_t), "%d enumerators agree" % len(A),
                    "enum tables disagree: " + detail, f, n)
    # conversion written out as a switch over one enumeration assigning (or returning) enumerators of another
    norm = lambda s_: s_.lower().replace("_", "")
    for f in cfuncs:
        bf = None
        for sw in [b_ for b_ in f.blocks.values() if b_.term and b_.term.get("cls") == "SwitchStmt"]:
            subj = sw.effective_cond()
            st = subj.ctype() if subj is not None else ""
            src = [e for nm_, e in prog.enums.items() if nm_ == st or nm_.endswith("::" + st.split("::")[-1]) and st]
            if not src:
                continue
            src = src[0]
            if bf is None:
                bf = cfg.BranchFacts(f, kill="assign")
            for n in f.nodes:
                tgt = None
                if n.get("k") == "bin" and n["op"] == "=":
                    tgt = core(n.child("r"))
                elif n.get("k") == "return" and "e" in n:
                    tgt = core(n.child("e"))
                if tgt is None or tgt.get("k") != "ref":
                    continue
                dst = [e for nm_, e in prog.enums.items() if any(en["n"] == tgt.get("n") for en in e["enumerators"])]
                if not dst or dst[0] is src:
                    continue
                facts = bf.at_node(n) or frozenset()
                case = [a_.split("=", 1)[1].split("::")[-1] for a_, p_ in facts if p_ and a_.startswith("switch:")]
                if not case:
                    continue
                sv = [en["v"] for en in src["enumerators"] if en["n"] == case[0]]
                dv = [en["v"] for en in dst[0]["enumerators"] if en["n"] == tgt.get("n")]
                ok = bool(sv) and bool(dv) and sv[0] == dv[0] and (norm(tgt.get("n")).endswith(norm(case[0])) or norm(case[0]).endswith(norm(tgt.get("n"))))
                r.check(ok, "%s|case %s" % (f.name.split("::")[-1] if not f.is_lambda else f.key, case[0]), "-> %s" % tgt.get("n"),
                        "%s maps %s to %s (value %s -> %s): the C client is told something else than the C++ client" % (
                            f.name, case[0], tgt.get("n"), sv[0] if sv else "?", dv[0] if dv else "?"), f, n)

    # ------------------------------------------------------------------
    r = rep.rule("R-STRUCT-INIT",
                 "positional initialisers of llb_database_result_t put each core::Result field into the member of the same name",
                 floor=6)
    res_fields = {fl["n"].lower().replace("_", ""): fl["n"] for fl in prog.record("llbuild::core::Result")["fields"]}
    crec = prog.record("llb_database_result_t_")
    f = prog.fn("mapResult")
    inits = [n for n in f.nodes if n.get("k") == "initlist" and "llb_database_result_t" in n.ctype()]
    if len(inits) != 1:
        raise AnalysisBroken("mapResult: expected one llb_database_result_t initialiser, found %d" % len(inits))
    args = arg_nodes(inits[0])
    tc = None
    for i, fl in enumerate(crec["fields"]):
        nm = fl["n"].lower().replace("_", "")
        site = "mapResult|%s" % fl["n"]
        if i >= len(args) or args[i] is None:
            r.violation(site, "member %s is not initialised" % fl["n"], f, inits[0])
            continue
        if nm in res_fields and nm != "dependencies":
            want = res_fields[nm]
            used = set(x["n"] for x in args[i].walk() if x.get("k") == "member" and x.get("qn", "").startswith("llbuild::core::Result::"))
            r.check(used == {want}, site, "<- Result::%s" % want,
                    "member %s is initialised from Result::%s, expected Result::%s" % (fl["n"], sorted(used), want), f, args[i])
        elif nm == "dependencies":
            tc = taint_closure(f, set()) if tc is None else tc
            # must derive from result.dependencies
            deps_did = None
            for fr in f.nodes:
                if fr.get("k") == "forrange" and any(x.get("k") == "member" and x.get("n") == "dependencies" for x in fr.child("range").walk()):
                    deps_did = True
            r.check(deps_did is True, site, "<- loop over Result::dependencies", "dependencies array is not filled from Result::dependencies", f, args[i])
        elif nm == "dependenciescount":
            t = taint_closure(f, set())
            src = [v for d in f.nodes if d.get("k") == "decl" for v in d["vars"]
                   if "init" in v and any(x.get("k") == "member" and x.get("n") == "dependencies" for x in f.nodes[v["init"]].walk())]
            dids = set(v["did"] for v in src)
            r.check(mentions(args[i], dids), site, "<- dependencies.size()", "dependency count does not derive from dependencies.size()", f, args[i])
    # dependency order: deps[index] written with index advancing by one per element
    stores = [n for n in f.nodes if n.get("k") == "bin" and n["op"] == "=" and n.child("l").get("k") == "index"]
    incs = [n for n in f.nodes if n.get("k") == "un" and n["op"] == "++"]
    r.check(len(stores) == 1 and len(incs) >= 1 and
            expr_str(stores[0].child("l").child("i")) in [expr_str(i.child("e")) for i in incs],
            "mapResult|dependency-order", "deps[i] filled in iteration order", "dependency array not filled in order", f)

    # ------------------------------------------------------------------
    r = rep.rule("R-ATTACH-DB", "llb_buildengine_attach_db stores the error string on every path and forwards the DB to the engine", floor=2)
    f = prog.fn("llb_buildengine_attach_db")
    did = param_did(f, "error_out")

    def writes_err(pos, e):
        n = cfg.elem_node(f, e)
        return n is not None and n.get("k") == "bin" and n["op"] == "=" and mentions(n.child("l"), {did})
    ok, w = cfg.must_pass_through(f, cfg.entry_pos(f), writes_err)
    r.check(ok, "llb_buildengine_attach_db|error_out", "assigned on every path", "a path returns without assigning *error_out", f, path=w)
    r.check(bool(f.calls("BuildEngine::attachDB")), "llb_buildengine_attach_db|attachDB", "", "database is never attached to the engine", f)


CC = "products/libllbuild/Core-C-API.cpp"
VARIANTS = [
    dict(name="force-change-dropped", file=CC, old="  coreti->complete(std::move(result), force_change);", new="  coreti->complete(std::move(result));",
         expect=("R-FORWARD-ROLE", "force_change")),
    dict(name="empty-value-early-out-drops-force-change", file=CC,
         old="  std::vector<uint8_t> result(value->length);\n  memcpy(result.data(), value->data, value->length);\n  coreti->complete(std::move(result), force_change);",
         new="  if (value->length == 0 || value->data == nullptr) {\n    coreti->complete(ValueType());\n    return;\n  }\n  std::vector<uint8_t> result(value->length);\n  memcpy(result.data(), value->data, value->length);\n  coreti->complete(std::move(result), force_change);",
         expect=("R-FORWARD-ROLE", "force_change")),
    dict(name="benign-empty-value-early-out-keeps-force-change", file=CC,
         old="  std::vector<uint8_t> result(value->length);\n  memcpy(result.data(), value->data, value->length);\n  coreti->complete(std::move(result), force_change);",
         new="  if (value->length == 0) {\n    coreti->complete(ValueType(), force_change);\n    return;\n  }\n  std::vector<uint8_t> result(value->length);\n  memcpy(result.data(), value->data, value->length);\n  coreti->complete(std::move(result), force_change);",
         expect=None),
    dict(name="input-id-constant", file=CC, old="  coreti->request(KeyType((const char*)key->data, key->length), input_id);", new="  coreti->request(KeyType((const char*)key->data, key->length), 0);",
         expect=("R-FORWARD-ROLE", "input_id")),
    dict(name="needs-input-key-as-c-string", file=CC, old="  coreti->request(KeyType((const char*)key->data, key->length), input_id);", new="  coreti->request(KeyType((const char*)key->data), input_id);",
         expect=("R-NUL-SAFE", "")),
    dict(name="build-key-as-c-string", file=CC, old="  auto& result = engine->build(KeyType((const char*)key->data, key->length));", new="  auto& result = engine->build(KeyType((const char*)key->data));",
         expect=("R-NUL-SAFE", "")),
    dict(name="schema-version-constant", file=CC, old="                                  schema_version,\n", new="                                  1,\n", expect=("R-FORWARD-ROLE", "schema_version")),
    dict(name="attach-error-not-reported-on-open-failure", file=CC, old="  if (!db) {\n    *error_out = strdup(error.c_str());\n    return false;\n  }", new="  if (!db) {\n    return false;\n  }",
         expect=("R-ATTACH-DB", "error_out")),
    dict(name="provide-value-input-id-dropped", file=CC, old="                               inputID, &valueData);", new="                               0, &valueData);", expect=("R-CALLBACK-FORWARD", "inputID")),
    dict(name="is-result-valid-ignores-value", file=CC, old="    llb_data_t value_data{ value.size(), value.data() };\n      return rule.is_result_valid",
         new="    llb_data_t value_data{ 0, nullptr };\n      return rule.is_result_valid", expect=("R-CALLBACK-FORWARD", "isResultValid")),
    dict(name="status-constant", file=CC, old="                         (llb_rule_status_kind_t)status);", new="                         (llb_rule_status_kind_t)0);", expect=("R-CALLBACK-FORWARD", "status")),
    dict(name="cycle-items-truncated-to-first", file=CC, old="    cAPIDelegate.cycle_detected(cAPIDelegate.context, keys.data(), keys.size());",
         new="    cAPIDelegate.cycle_detected(cAPIDelegate.context, keys.data(), keys.empty() ? 0 : 1);", expect=("R-CALLBACK-FORWARD", "items")),
    dict(name="benign-result-local-renamed", file=CC,
         old="  std::vector<uint8_t> result(value->length);\n  memcpy(result.data(), value->data, value->length);\n  coreti->complete(std::move(result), force_change);",
         new="  std::vector<uint8_t> bytes(value->length);\n  memcpy(bytes.data(), value->data, value->length);\n  coreti->complete(std::move(bytes), force_change);", expect=None),
    dict(name="input-id-through-narrow-helper", file=CC, old="  coreti->request(KeyType((const char*)key->data, key->length), input_id);\n}",
         new="  auto ask = [&](unsigned id) { coreti->request(KeyType((const char*)key->data, key->length), id); };\n  ask(input_id);\n}", expect=("R-FORWARD-ROLE", "input_id")),
    dict(name="input-id-through-narrow-local", file=CC, old="  coreti->request(KeyType((const char*)key->data, key->length), input_id);",
         new="  unsigned id = input_id;\n  coreti->request(KeyType((const char*)key->data, key->length), id);", expect=("R-FORWARD-ROLE", "input_id")),
    dict(name="benign-input-id-through-wide-local", file=CC, old="  coreti->request(KeyType((const char*)key->data, key->length), input_id);",
         new="  uintptr_t id = input_id;\n  coreti->request(KeyType((const char*)key->data, key->length), id);", expect=None),
    dict(name="status-enum-switch-with-slip", file=CC, old="      rule.update_status(rule.context, engineContext,\n                         (llb_rule_status_kind_t)status);",
         new="      llb_rule_status_kind_t kind = llb_rule_is_scanning;\n      switch (status) {\n      case Rule::StatusKind::IsScanning: kind = llb_rule_is_scanning; break;\n      case Rule::StatusKind::IsUpToDate: kind = llb_rule_is_complete; break;\n      case Rule::StatusKind::IsComplete: kind = llb_rule_is_complete; break;\n      }\n      rule.update_status(rule.context, engineContext, kind);",
         expect=("R-ENUM-AGREE", "case IsUpToDate")),
    dict(name="benign-status-enum-switch-correct", file=CC, old="      rule.update_status(rule.context, engineContext,\n                         (llb_rule_status_kind_t)status);",
         new="      llb_rule_status_kind_t kind = llb_rule_is_scanning;\n      switch (status) {\n      case Rule::StatusKind::IsScanning: kind = llb_rule_is_scanning; break;\n      case Rule::StatusKind::IsUpToDate: kind = llb_rule_is_up_to_date; break;\n      case Rule::StatusKind::IsComplete: kind = llb_rule_is_complete; break;\n      }\n      rule.update_status(rule.context, engineContext, kind);",
         expect=None),
    dict(name="cycle-report-uses-client-key-storage", file=CC, old="      const KeyType &key = item->key;\n      keys.push_back({ key.size(), (const uint8_t*)key.data() });",
         new="      keys.push_back(static_cast<CAPIRule*>(item)->rule.key);", expect=("R-KEY-FROM-ENGINE", "reads-client-key")),
]
