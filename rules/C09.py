"""C09 — Null builds run nothing; a command re-runs exactly when its definition changed (signature structure)."""
from sa.facts import expr_plain, AnalysisBroken, expr_str, qmatch, strip_casts, relpath, core
from sa import cfg
from sa.flow import arg_nodes
from rules import engine as E

UNITS = ["lib/BuildSystem/ExternalCommand.cpp", "lib/BuildSystem/ShellCommand.cpp", "lib/BuildSystem/BuildSystem.cpp",
         "lib/BuildSystem/BuildNode.cpp", "lib/BuildSystem/BuildDescription.cpp", "products/libllbuild/BuildSystem-C-API.cpp",
         "lib/Core/BuildEngine.cpp"]
THOROUGH_ALL_UNITS = False
EXPLANATION = (
    "Structural injectivity and completeness of every getSignature(): every data member a configure* method writes is folded "
    "into the signature of that class (exclusions listed with reasons); every argument of CommandSignature::combine reaches its "
    "overload through a conversion that is injective on the argument's origin type; the sequence of items folded is uniquely "
    "decodable (a variable-length list is not followed by another list of the same element domain without a separator); no "
    "pointer value or address reaches the hash and the hashing seed is never overridden; the engine compares the signature "
    "before it asks for validity.")
NOT_DECIDED = ("that a null build executes nothing (behavioural: depends on every validity predicate and the file system); collision "
               "resistance of the 64-bit hash itself.")

# data members that configure* writes but that are deliberately outside the signature
COVERAGE_EXEMPT = {
    ("ExternalCommand", "description"): "display only",
    ("ExternalCommand", "repairViaOwnershipAnalysis"): "consumed while the description is loaded (ownership analysis rewires nodes); not part of what the command executes",
    ("ShellCommand", "workingDirectory"): "not in the property's list of signature-relevant parts",
    ("ShellCommand", "controlEnabled"): "execution-queue protocol switch, not part of the command definition",
    ("ShellCommand", "cachedSignature"): "the cache of the signature itself",
    ("SymlinkCommand", "description"): "display only",
    ("SymlinkCommand", "outputs"): "the single output's name is the seed of the signature",
    ("SymlinkCommand", "linkOutputPath"): "validity covers the link path (isResultValid re-reads the link)",
    ("SymlinkCommand", "repairViaOwnershipAnalysis"): "ownership analysis flag, not part of the command definition",
}


CLIENT_DEFINED = {
    "CAPIExternalCommand": "client-defined command: its definition lives in client code, which supplies the signature through the get_signature callback",
}


def always_rerun(prog, cls):
    fs = [f for f in prog.functions.values() if f.cls == cls and f.name.split("::")[-1] == "isResultValid"]
    if len(fs) != 1:
        return False
    rets = [n for n in fs[0].nodes if n.get("k") == "return"]
    return bool(rets) and all(core(x.child("e")).get("k") == "bool" and core(x.child("e"))["v"] is False for x in rets)


def command_classes(prog):
    subs = prog.subclasses("llbuild::buildsystem::Command")
    return sorted(subs)


def own_fields(prog, cls):
    """fields of cls and of its base classes (a configure* method may fill inherited storage)."""
    out = {}
    work = [cls]
    while work:
        c = work.pop()
        rec = prog.records.get(c)
        if not rec:
            continue
        for fl in rec["fields"]:
            out.setdefault(fl["n"], fl)
        work.extend(rec["bases"])
    return out


def methods_of(prog, cls):
    return [f for f in prog.functions.values() if f.cls == cls and not f.is_lambda]


def written_fields(prog, cls, fields):
    out = {}
    dids = {fl["qn"]: n for n, fl in fields.items()}   # qualified names: decl ids are per translation unit
    for f in methods_of(prog, cls):
        if not f.name.split("::")[-1].startswith("configure"):
            continue
        for n in f.nodes:
            tgt = None
            if n.get("k") == "bin" and n["op"].endswith("=") and n["op"] not in ("==", "!=", "<=", ">="):
                tgt = n.child("l")
            elif n.get("k") == "call" and "obj" in n and ((n.get("fn") or "").split("::")[-1] in (
                    "push_back", "emplace_back", "insert", "clear", "reserve", "assign", "append", "operator=", "operator+=", "resize")):
                tgt = n.child("obj")
            targets = [tgt] if tgt is not None else []
            if n.get("k") == "call":
                # member handed to a helper by non-const reference (configureBool(ctx, field, …))
                pts = n.get("pt", [])
                for i, a in enumerate(n.get("args", [])):
                    t_ = f.db_types[pts[i]] if i < len(pts) and pts[i] >= 0 else ""
                    if a >= 0 and t_.endswith("&") and not t_.startswith("const "):
                        targets.append(f.nodes[a])
            for tg in targets:
                t = core(tg)
                while t is not None and t.get("k") == "call" and "obj" in t:
                    t = core(t.child("obj"))
                if t is not None and t.get("k") == "member" and t.get("qn") in dids:
                    out.setdefault(dids[t["qn"]], f)
    return out


def folded_fields(prog, cls, fields):
    """(own getSignature or None, fields folded by the signature this class ends up with)"""
    dids = {fl["qn"]: n for n, fl in fields.items()}   # qualified names: decl ids are per translation unit
    own = None
    out = set()
    c = cls
    seen = set()
    while c and c not in seen:
        seen.add(c)
        sig = [f for f in methods_of(prog, c) if f.name.split("::")[-1] == "getSignature"]
        nxt = None
        if sig:
            if own is None and c == cls:
                own = sig[0]
            for n in sig[0].nodes:
                if n.get("k") == "member" and n.get("qn") in dids:
                    out.add(dids[n["qn"]])
                # accessor calls on this (getInputs()/getOutputs()) count as reading the field they return
                if n.get("k") == "call" and n.get("ck") == "member" and core(n.child("obj")) is not None and core(n.child("obj")).get("k") == "this":
                    g = prog.functions.get(n.get("fk"))
                    if g is not None and len(g.nodes) < 12:
                        for m in g.nodes:
                            if m.get("k") == "member" and m.get("qn") in dids:
                                out.add(dids[m["qn"]])
            base_calls = [x for x in sig[0].calls() if x.get("qualified") and (x.get("fn") or "").endswith("::getSignature")]
            if base_calls:
                nxt = base_calls[0]["fn"].rsplit("::", 1)[0]
                nxt = [k for k in prog.records if k == nxt or k.endswith("::" + nxt.split("::")[-1])]
                nxt = nxt[0] if nxt else None
        else:
            bases = prog.records.get(c, {}).get("bases", [])
            nxt = bases[0] if bases else None
        c = nxt
    return own, out


def fold_items(f):
    """ordered list of items folded by getSignature: ('fixed'|'list', domain, text)"""
    items = []

    def dom(t):
        t = t.replace("const ", "").replace("&", "").strip()
        if "vector<" in t:
            return "list:" + dom(t[t.index("vector<") + 7:].rsplit(">", 1)[0].split(",")[0])
        if t in ("llvm::StringRef", "StringRef", "std::string") or "basic_string" in t:
            return "str"
        if t == "bool":
            return "bool"
        return t

    def in_loop(n):
        for a in f.ancestors(n):
            if a.get("k") in ("forrange", "for", "while"):
                return a
        return None
    calls = [c for c in f.nodes if c.get("k") in ("call", "construct") and
             ((c.get("fn") or "").endswith("CommandSignature::combine") or
              (c.get("k") == "construct" and (c.get("fn") or "").endswith("CommandSignature::CommandSignature") and c.get("args") and
               not c.get("copymove") and len(c["args"]) == 1 and "StringRef" in f.db_types[c["pt"][0]]))]
    calls.sort(key=lambda c: order_key(f, c))
    for c in calls:
        a = arg_nodes(c)[0]
        pt = f.db_types[c["pt"][0]] if c.get("pt") else ""
        d = dom(pt)
        lp = in_loop(c)
        if lp is not None:
            txt = expr_str(core(a))
            if lp.get("k") == "forrange" and lp.get("var"):
                # name the element by the container it comes from, not by the loop variable (stable under renaming the variable)
                import re as _re
                txt = _re.sub(r"\b%s\b" % _re.escape(lp["var"]), "%s[]" % expr_plain(lp.child("range")).replace("this->", ""), txt)
            elif lp.get("k") == "for":
                # the same list walked by index or by iterator: same name
                for l2, en, cont in E.whole_container_loops(f, "", full=True):
                    if l2 is lp and en:
                        cname = cont.replace("this->", "")
                        txt = txt.replace(en, cname + "[]") if en in txt else txt
                        txt = txt.replace("[].", "[].").replace("[]->", "[].")
            items.append(("list", d, txt[:60], loop_id(f, lp), c))
        elif d.startswith("list:"):
            items.append(("list", d[5:], expr_str(core(a))[:40], None, c))
        else:
            items.append(("fixed", d, expr_str(core(a))[:40], None, c))
    # base-class signature call is an item too (a fixed hash)
    for c in f.nodes:
        if c.get("k") == "call" and (c.get("fn") or "").endswith("::getSignature") and c.get("qualified"):
            items.append(("fixed", "base", "base signature", None, c))
    items.sort(key=lambda it: order_key(f, it[4]))
    return items


def order_key(f, n):
    p = cfg.pos_of(f, n)
    return (-(p[0]), p[1]) if p else (0, n["id"])


def loop_id(f, lp):
    return lp["id"]


def r_valid_matches_record(prog, rep):
    r = rep.rule("R-VALID-MATCHES-RECORD", "a command class that checks its own outputs on disk asks, in isResultValid, the same question of the same path as the one whose "
                                           "answer execute() recorded (same query: file info vs link info; same path expression): otherwise an untouched output "
                                           "never matches and the command re-runs in every build, or a changed one always matches", floor=2)
    Q = ("getFileInfo", "getLinkInfo", "getFileChecksum")

    def queries(f):
        out = []
        env = {v["n"]: f.nodes[v["init"]] for d in f.nodes if d.get("k") == "decl" for v in d.get("vars", []) if "init" in v}
        for c in f.calls():
            nm = (c.get("fn") or "").split("::")[-1]
            if c.get("k") != "call" or nm not in Q:
                continue
            recv = expr_plain(c.child("obj")) if "obj" in c else ""
            args = [a for a in arg_nodes(c) if a is not None]
            is_fs = any(t in recv for t in ("getFileSystem()", "fs")) and "Node" not in (c.get("fn") or "")
            if "Node::" in (c.get("fn") or "") or "node" in recv.lower() or "outputs" in recv.lower() or "getOutputs" in recv:
                subject = "node:" + recv
            else:
                a0 = args[0] if args else None
                a0c = core(a0) if a0 is not None else None
                # look through a local initialised once (StringRef outputPath = getActualOutputPath())
                txt = expr_plain(a0) if a0 is not None else ""
                for x in (a0.walk() if a0 is not None else []):
                    if x.get("k") == "ref" and x.get("n") in env:
                        txt = txt.replace(x["n"], expr_plain(env[x["n"]]))
                subject = "path:" + txt.replace(".operator basic_string()", "").replace("this->", "")
            out.append((nm, subject))
        return out
    classes = {}
    for f in list(prog.overriders("Command::isResultValid")) + prog.fns("ExternalCommand::isResultValid"):
        if f.name.split("::")[-1] == "isResultValid" and not f.is_lambda:
            classes[f.cls] = f
    n = 0
    for cls, v in sorted(classes.items()):
        vq = queries(v)
        if not vq:
            continue
        short = cls.split("::")[-1]
        rec = []
        for g in prog.functions.values():
            if g.cls == cls and not g.is_lambda and g.name.split("::")[-1] in ("execute", "computeCommandResult", "executeExternalCommand"):
                rec += queries(g)
        n += 1
        if not rec:
            # the class records through its base (MkdirCommand -> ExternalCommand::computeCommandResult on its output nodes)
            bases = [b for b in prog.records.get(cls, {}).get("bases", [])]
            for b in bases:
                for g in prog.functions.values():
                    if g.cls == b and not g.is_lambda and g.name.split("::")[-1] in ("execute", "computeCommandResult"):
                        rec += queries(g)
        kinds_v, kinds_r = set(k for k, _ in vq), set(k for k, _ in rec)

        def norm(sj):
            return "node" if sj.startswith("node:") else sj
        ok = bool(rec) and kinds_v <= kinds_r and set(norm(sj) for _, sj in vq) <= set(norm(sj) for _, sj in rec)
        r.check(ok, "%s|validity-asks-what-execute-recorded" % short, "%s" % sorted(set(vq)),
                "isResultValid asks %s but execute recorded %s" % (sorted(set(vq)), sorted(set(rec))), v)
    if n < 2:
        raise AnalysisBroken("only %d command classes query the file system in isResultValid" % n)
    return r


def r_sig_fold_all(prog, rep):
    """shared by C08 and C09: what every getSignature must do regardless of which members it folds."""
    r = rep.rule("R-SIG-FOLD-ALL",
                 "a signature covers the whole of what it folds: a loop that folds a list folds every element (no element is skipped under a condition, "
                 "the loop is not left early), and an override in a class derived from ExternalCommand includes the inherited signature — command name, "
                 "declared inputs and outputs, flags — on every path that computes a signature (a cached value aside)", floor=8)
    sigs = [f for f in prog.functions.values() if f.name.split("::")[-1] == "getSignature" and not f.is_lambda and
            ("CommandSignature" in (f.ret_type() or "")) and ("buildsystem" in f.name or "CAPI" in f.name or "Command" in (f.cls or ""))]
    n_loops = 0
    for f in sorted(sigs, key=lambda g: g.name):
        cls = (f.cls or "").split("::")[-1]
        for lp in f.nodes:
            if lp.get("k") not in ("forrange", "for", "while"):
                continue
            folds = [c for c in lp.child("body").walk() if c.get("k") == "call" and (c.get("fn") or "").endswith("CommandSignature::combine")]
            if not folds:
                continue
            n_loops += 1
            what = expr_str(lp.child("range")) if lp.get("k") == "forrange" else expr_str(lp.child("c"))
            site = "%s::getSignature|fold %s" % (cls, what[:30])
            skips = [x for x in lp.child("body").walk() if x.get("k") in ("continue", "break", "return", "goto")]
            cond = []
            for c in folds:
                for a in f.ancestors(c):
                    if a is lp:
                        break
                    if a.get("k") in ("if", "cond", "switch"):
                        cond.append(a)
            r.check(not skips and not cond, site, "", "an element of %s can be left out of the signature (%s): two definitions that differ only in such an element "
                    "have the same signature" % (what[:40], "the loop skips or stops" if skips else "the fold is conditional"), f, (skips or cond or [lp])[0])
        # an element reaches the hash on its own (combine is length-delimited per call): a loop over a member list that only accumulates the
        # elements into something else (a joined string) and hashes that once is not injective — ["a b"] and ["a", "b"] join alike
        fields_ = set(own_fields(prog, f.cls).keys()) if f.cls else set()
        for lp, en, cont in E.whole_container_loops(f, "", full=True):
            cname = cont.replace("this->", "").split(".")[0].split("->")[0]
            if cname not in fields_:
                continue
            folds = [c for c in lp.child("body").walk() if c.get("k") == "call" and (c.get("fn") or "").endswith("CommandSignature::combine")]
            if folds:
                continue
            acc = [c for c in lp.child("body").walk() if c.get("k") == "call" and ((c.get("op") or "") in ("+=", "<<") or (c.get("fn") or "").split("::")[-1] in ("append", "push_back", "insert"))]
            if acc:
                r.violation("%s::getSignature|fold %s" % (cls, cname), "the elements of %s are merged (%s) before they are hashed instead of being folded one by one: different lists "
                            "can merge to the same text and get the same signature" % (cname, expr_str(acc[0])[:50]), f, acc[0])
        # the inherited part
        rec = prog.records.get(f.cls or "")
        bases = set()
        work = list(rec["bases"]) if rec else []
        while work:
            b = work.pop()
            if b in bases:
                continue
            bases.add(b)
            rb = prog.records.get(b)
            work += list(rb["bases"]) if rb else []
        if not any(b.endswith("buildsystem::ExternalCommand") for b in bases):
            continue
        base = [c for c in f.calls() if (c.get("fn") or "").endswith("ExternalCommand::getSignature") and c.get("qualified")]
        site = "%s::getSignature|inherited-part" % cls
        if not base:
            r.violation(site, "%s::getSignature never includes ExternalCommand::getSignature(): name, declared inputs/outputs and flags are not covered" % cls, f)
            continue
        bp = set(cfg.pos_of(f, c) for c in base)
        # a cached signature may be returned without recomputation: fix the cache test to `empty`
        env = {}
        for b_ in f.blocks.values():
            c_ = b_.effective_cond()
            if c_ is not None and "isNull()" in expr_str(c_):
                for a_, p_ in cfg.cond_atoms(c_, True) + cfg.cond_atoms(c_, False):
                    if a_.endswith(".isNull()"):
                        env[a_] = True
        w = cfg.reach_under(f, env, lambda p, e: e == "EXIT", lambda p, e: p in bp)
        r.check(w is None, site, "", "%s::getSignature can compute a signature without the inherited part (command name, declared inputs and outputs, flags)" % cls, f, base[0])
    if n_loops < 5:
        raise AnalysisBroken("R-SIG-FOLD-ALL: only %d folding loops found in getSignature functions" % n_loops)


def run(ctx):
    prog, rep = ctx.prog, ctx.report
    from rules import C08
    C08.r_output_compare(prog, rep, with_inputs=False)
    r_valid_matches_record(prog, rep)
    r_sig_fold_all(prog, rep)
    from rules import engine as E
    E.r_prior_value_guard(prog, rep, with_consumer=True)

    # ------------------------------------------------------------------ coverage
    r = rep.rule("R-SIG-COVERAGE", "every data member that a configure* method of a command class writes is folded by that class's getSignature "
                                   "(exclusions listed with their reason)", floor=15)
    classes = command_classes(prog)
    if len(classes) < 8:
        raise AnalysisBroken("only %d command classes found" % len(classes))
    for cls in classes:
        short = cls.split("::")[-1]
        fields = own_fields(prog, cls)
        if not fields:
            continue
        wr = written_fields(prog, cls, fields)
        if not wr:
            continue
        sigf, folded = folded_fields(prog, cls, fields)
        always = always_rerun(prog, cls)
        for fld, where in sorted(wr.items()):
            site = "%s|%s" % (short, fld)
            if (short, fld) in COVERAGE_EXEMPT:
                r.exempt(site, COVERAGE_EXEMPT[(short, fld)], where)
                continue
            if always:
                r.exempt(site, "%s::isResultValid is constantly false: the command runs in every build, its signature plays no role" % short, where)
                continue
            if short in CLIENT_DEFINED:
                r.exempt(site, CLIENT_DEFINED[short], where)
                continue
            wname = where.name.split("::")[-1]
            if wname in ("configureInputs", "configureOutputs") and any(c.get("qualified") and (c.get("fn") or "").endswith("::" + wname) for c in where.calls()):
                r.exempt(site, "derived in %s from the inputs/outputs the base signature already folds (base %s is called)" % (wname, wname), where)
                continue
            if fld in folded:
                r.ok(site, "", sigf or where)
            elif sigf is None:
                r.violation(site, "%s::%s is configurable (%s) but %s has no getSignature of its own and the inherited one does not fold it" % (short, fld, where.name.split("::")[-1], short), where)
            else:
                r.violation(site, "%s::%s is configurable (%s) but is not folded into %s::getSignature" % (short, fld, where.name.split("::")[-1], short), sigf)

    # ------------------------------------------------------------------ lossless
    r = rep.rule("R-SIG-LOSSLESS", "every argument of CommandSignature::combine reaches the selected overload through a conversion that is injective "
                                   "on the argument's origin type (an enum or integer folded through combine(bool) loses everything but zero/non-zero)", floor=15)
    sigfns = [f for f in prog.functions.values() if f.name.split("::")[-1] == "getSignature" and not f.is_lambda]
    for f in sorted(sigfns, key=lambda f: (f.file, f.line)):
        cls = f.cls.split("::")[-1]
        for c in f.calls("CommandSignature::combine"):
            pt = f.db_types[c["pt"][0]].replace("const ", "").replace("&", "").strip()
            a = arg_nodes(c)[0]
            origin = a
            while origin is not None and origin.get("k") == "cast":
                origin = origin.child("e")
            ot = origin.ctype().replace("const ", "") if origin is not None else "?"
            site = "%s::getSignature|combine(%s)" % (cls, expr_str(origin)[:30])
            inst = prog.functions.get(c.get("fk"))
            if inst is not None and "combine<" in inst.key:
                # list overload: the element fold inside the instantiation must be lossless too
                bad_el = None
                for ic in inst.calls("CommandSignature::combine"):
                    ipt = inst.db_types[ic["pt"][0]].replace("const ", "").replace("&", "").strip()
                    io = arg_nodes(ic)[0]
                    while io is not None and io.get("k") == "cast":
                        io = io.child("e")
                    iot = io.ctype().replace("const ", "") if io is not None else "?"
                    if ipt == "bool" and iot != "bool":
                        bad_el = iot
                r.check(bad_el is None, site, "list of %s" % pt[:30], "elements of type '%s' are folded through combine(bool): every element hashes as true/false" % bad_el, f, c)
                continue
            if pt == "bool":
                r.check(ot == "bool", site, "bool", "value of type '%s' is folded through combine(bool): only zero/non-zero reaches the hash" % ot, f, c)
            else:
                r.ok(site, "%s -> %s" % (ot.split("::")[-1][:20], pt.split("::")[-1][:20]), f, c)

    # ------------------------------------------------------------------ fold effect
    r = rep.rule("R-SIG-FOLD-EFFECT", "every fold has an effect on the signature being built: a combine() whose result is discarded must be a mutating "
                                      "member (a pure, by-value combine called as a statement folds nothing)", floor=15)
    for f in sorted(sigfns, key=lambda f: (f.file, f.line)):
        cls = f.cls.split("::")[-1]
        seen_k = {}
        for c in f.calls("CommandSignature::combine"):
            origin = arg_nodes(c)[0]
            while origin is not None and origin.get("k") == "cast":
                origin = origin.child("e")
            key = "%s::getSignature|effect(%s)" % (cls, expr_str(origin)[:30])
            seen_k[key] = seen_k.get(key, 0) + 1
            site = key if seen_k[key] == 1 else "%s#%d" % (key, seen_k[key])
            pure = bool(c.get("cm")) or not c.ctype().rstrip().endswith("&") and "&" not in c.tname("t")
            ret_t = c.tname("t")
            by_value = not c.tname("rt").rstrip().endswith("&")
            discarded = cfg.is_discarded(f, c)
            r.check(not (discarded and (c.get("cm") or by_value)), site, "",
                    "the result of combine(%s) is discarded although combine does not modify the signature in place" % expr_str(origin)[:30], f, c)

    # ------------------------------------------------------------------ decodable
    r = rep.rule("R-SIG-DECODABLE", "the sequence of items a getSignature folds is uniquely decodable: a variable-length list is not immediately "
                                    "followed by another variable-length list of the same element domain (moving an element across the boundary "
                                    "would feed the identical sequence to the hash)", floor=8)
    for f in sorted(sigfns, key=lambda f: (f.file, f.line)):
        cls = f.cls.split("::")[-1]
        items = fold_items(f)
        if not items:
            r.ok("%s::getSignature|shape" % cls, "no fold", f)
            continue
        # merge consecutive entries of the same loop (one loop folding k,v pairs is one list)
        seq = []
        for it in items:
            if seq and it[0] == "list" and seq[-1][0] == "list" and it[3] is not None and seq[-1][3] == it[3]:
                continue
            seq.append(it)
        bad = False
        for a, b in zip(seq, seq[1:]):
            if a[0] == "list" and b[0] == "list" and a[1] == b[1]:
                bad = True
                r.violation("%s::getSignature|%s|%s" % (cls, a[2], b[2]),
                            "list fold '%s' is directly followed by list fold '%s' of the same element type: elements can move between them without "
                            "changing the signature" % (a[2], b[2]), f, b[4])
        if not bad:
            r.ok("%s::getSignature|shape" % cls, " ".join("%s:%s" % (i[0][0], i[1]) for i in seq)[:100], f)

    # ------------------------------------------------------------------ deterministic
    r = rep.rule("R-HASH-DETERMINISTIC", "no pointer value or address reaches a signature hash; the process-wide hashing seed is never overridden", floor=10)
    hash_fns = sigfns + [f for f in prog.functions.values() if f.cls.endswith("CommandSignature")]
    for f in hash_fns:
        for c in f.calls():
            nm = (c.get("fn") or "").split("::")[-1]
            if nm not in ("combine", "hash_combine", "hash_value", "hash_combine_range"):
                continue
            for i, a in enumerate(arg_nodes(c)):
                if a is None:
                    continue
                t = core(a).ctype() if core(a) is not None else ""
                isptr = (t.endswith("*") and "char" not in t) or (core(a) is not None and core(a).get("k") == "un" and core(a).get("op") == "&")
                site = "%s|%s#%d" % ((f.cls.split("::")[-1] + "::" + f.name.split("::")[-1]), nm, i)
                r.check(not isptr, site, "", "a pointer/address (%s) is hashed: differs between processes" % expr_str(a)[:40], f, c)
    seed = [(f, c) for f in prog.functions.values() for c in f.calls("set_fixed_execution_hash_seed")]
    r.check(not seed, "hash-seed-not-overridden", "", "hashing seed overridden in %s" % [f.name for f, _ in seed])

    E.r_scan_guards(prog, rep)


VARIANTS = [
    dict(name="symlink-validity-stats-declared-output", file="lib/BuildSystem/BuildSystem.cpp",
         old="    auto info = system.getFileSystem().getLinkInfo(outputPath);\n    if (info.isMissing())\n      return false;\n\n    return info == value.getOutputInfo();",
         new="    auto info = outputs[0]->getLinkInfo(system.getFileSystem());\n    if (info.isMissing())\n      return false;\n\n    return info == value.getOutputInfo();",
         expect=("R-VALID-MATCHES-RECORD", "SymlinkCommand")),
    dict(name="symlink-validity-follows-link", file="lib/BuildSystem/BuildSystem.cpp",
         old="    auto info = system.getFileSystem().getLinkInfo(outputPath);\n    if (info.isMissing())\n      return false;\n\n    return info == value.getOutputInfo();",
         new="    auto info = system.getFileSystem().getFileInfo(outputPath);\n    if (info.isMissing())\n      return false;\n\n    return info == value.getOutputInfo();",
         expect=("R-VALID-MATCHES-RECORD", "SymlinkCommand")),
    dict(name="shell-args-not-folded", file="lib/BuildSystem/ShellCommand.cpp",
         old="    for (const auto& arg: args) {\n      code = code.combine(arg);\n    }\n", new="", expect=("R-SIG-COVERAGE", "ShellCommand|args")),
    dict(name="always-out-of-date-dropped", file="lib/BuildSystem/ExternalCommand.cpp",
         old="      .combine(allowModifiedOutputs)\n      .combine(alwaysOutOfDate);", new="      .combine(allowModifiedOutputs);", expect=("R-SIG-COVERAGE", "ExternalCommand|alwaysOutOfDate")),
    dict(name="outputs-not-folded", file="lib/BuildSystem/ExternalCommand.cpp",
         old="  for (const auto* output: outputs) {\n    code = code.combine(output->getName());\n  }\n", new="", expect=("R-SIG-COVERAGE", "ExternalCommand|outputs")),
    dict(name="inherit-env-as-size", file="lib/BuildSystem/ShellCommand.cpp", old="    code = code.combine(int(inheritEnv));", new="    code = code.combine(int(env.size()));",
         expect=("R-SIG-LOSSLESS", "ShellCommand::getSignature")),
    dict(name="node-pointer-hashed", file="lib/BuildSystem/ExternalCommand.cpp", old="    code = code.combine(input->getName());",
         new="    code = code.combine(StringRef((const char*)&input, sizeof(input)));", expect=("R-HASH-DETERMINISTIC", "ExternalCommand::getSignature")),
    dict(name="benign-combine-order", file="lib/BuildSystem/ExternalCommand.cpp",
         old="      .combine(allowMissingInputs)\n      .combine(allowModifiedOutputs)", new="      .combine(allowModifiedOutputs)\n      .combine(allowMissingInputs)", expect=None),
    dict(name="prior-value-offered-without-signature-match", file="lib/Core/BuildEngine.cpp", old="    if (ruleInfo.result.builtAt != 0 &&\n        ruleInfo.rule->signature == ruleInfo.result.signature) {",
         new="    if (ruleInfo.result.builtAt != 0) {", expect=("R-PRIOR-VALUE-GUARD", "demandRule|prior-value-guard")),
    dict(name="update-if-newer-shortcut-without-prior-value", file="lib/BuildSystem/ExternalCommand.cpp", old="  if (canUpdateIfNewer && hasPriorResult) {", new="  if (canUpdateIfNewer) {",
         expect=("R-PRIOR-VALUE-GUARD", "shortcut-needs-prior-value")),
    dict(name="prior-result-flag-set-for-any-value", file="lib/BuildSystem/ExternalCommand.cpp", old="  if (value.isSuccessfulCommand()) {\n    hasPriorResult = true;\n  }", new="  hasPriorResult = true;",
         expect=("R-PRIOR-VALUE-GUARD", "providePriorValue|only-successful")),
    dict(name="benign-shortcut-guard-nested", file="lib/BuildSystem/ExternalCommand.cpp", old="  if (canUpdateIfNewer && hasPriorResult) {\n    BuildValue result = computeCommandResult(system, ti);\n    if (canUpdateIfNewerWithResult(result)) {\n      resultFn(std::move(result));\n      return;\n    }\n  }",
         new="  if (hasPriorResult) {\n    if (canUpdateIfNewer) {\n      BuildValue result = computeCommandResult(system, ti);\n      if (canUpdateIfNewerWithResult(result)) {\n        resultFn(std::move(result));\n        return;\n      }\n    }\n  }", expect=None),
    dict(name="virtual-inputs-skipped-in-signature", file="lib/BuildSystem/ExternalCommand.cpp", old="  for (const auto* input: inputs) {\n    code = code.combine(input->getName());", new="  for (const auto* input: inputs) {\n    if (input->isVirtual())\n      continue;\n    code = code.combine(input->getName());",
         expect=("R-SIG-FOLD-ALL", "fold inputs")),
    dict(name="only-first-argument-folded", file="lib/BuildSystem/ShellCommand.cpp", old="    for (const auto& arg: args) {\n      code = code.combine(arg);\n    }", new="    for (const auto& arg: args) {\n      code = code.combine(arg);\n      break;\n    }",
         expect=("R-SIG-FOLD-ALL", "fold args")),
    dict(name="explicit-signature-replaces-inherited-part", file="lib/BuildSystem/ShellCommand.cpp", old="  auto code = ExternalCommand::getSignature();\n  if (!signatureData.empty()) {\n    code = code.combine(signatureData);\n  } else {",
         new="  CommandSignature code;\n  if (!signatureData.empty()) {\n    code = CommandSignature(signatureData);\n  } else {\n    code = ExternalCommand::getSignature();", expect=("R-SIG-FOLD-ALL", "inherited-part")),
    dict(name="benign-inherited-part-on-both-arms", file="lib/BuildSystem/ShellCommand.cpp", old="  auto code = ExternalCommand::getSignature();\n  if (!signatureData.empty()) {\n    code = code.combine(signatureData);\n  } else {",
         new="  CommandSignature code;\n  if (!signatureData.empty()) {\n    code = ExternalCommand::getSignature().combine(signatureData);\n  } else {\n    code = ExternalCommand::getSignature();", expect=None),
    dict(name="arguments-joined-before-hashing", file="lib/BuildSystem/ShellCommand.cpp", old="    for (const auto& arg: args) {\n      code = code.combine(arg);\n    }",
         new="    SmallString<256> commandLine;\n    for (const auto& arg: args) {\n      commandLine += arg;\n      commandLine += ' ';\n    }\n    code = code.combine(commandLine.str());", expect=("R-SIG-FOLD-ALL", "fold args")),
]
