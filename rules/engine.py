"""Shared rule functions over lib/Core/BuildEngine.cpp (used by C01, C02, C05, C06, C07)."""
from sa.facts import AnalysisBroken, expr_str, qmatch, strip_casts, relpath, core
from sa import cfg
from sa.cfg import BranchFacts, canon, cond_atoms
from sa.flow import arg_nodes, mentions
from sa.lockset import LockSets, entry_locksets, field_accesses

ENGINE = "BuildEngineImpl"
KILL = ("BuildEngineImpl::", "RuleInfo::")


def efn(prog, name):
    return prog.fn(ENGINE + "::" + name)


def engine_functions(prog):
    return [f for f in prog.functions.values()
            if relpath(f.file) == "lib/Core/BuildEngine.cpp" and (ENGINE in f.cls or ENGINE in (f.parent or "") or ENGINE in f.key)]


def is_call(fn, e, suffixes):
    n = cfg.elem_node(fn, e)
    if n is None or n.get("k") != "call":
        return False
    nm = n.get("fn") or ""
    return any(qmatch(nm, s) for s in suffixes)


def call_pred(fn, *suffixes):
    return lambda p, e: is_call(fn, e, suffixes)


def facts_at(bf, node):
    st = bf.at_node(node)
    return st if st is not None else frozenset()


def has(st, sub, pol=True, also=()):
    """some fact with polarity pol whose atom contains all substrings."""
    subs = (sub,) + tuple(also)
    return any(p == pol and all(s in a for s in subs) for a, p in st)


def state_writes(prog):
    """all assignments to RuleInfo::state: [(fn, node, value string)]"""
    out = []
    for f in engine_functions(prog):
        for n in f.nodes:
            if n.get("k") == "bin" and n["op"] == "=" and n.child("l").get("k") == "member" and \
                    n.child("l").get("qn", "").endswith("RuleInfo::state"):
                out.append((f, n, expr_str(core(n.child("r")))))
    return out


def field_cmp_tuple(n):
    """(left field, op, right field/const) of an epoch comparison, normalised to < / <= / == / !=."""
    def side(x):
        x = core(x)
        if x is None:
            return "?"
        if x.get("k") == "int":
            return str(x["v"])
        if x.get("k") == "member":
            return x["n"]
        if x.get("k") == "call":
            return (x.get("fn") or "?").split("::")[-1] + "()"
        if x.get("k") == "ref":
            return x["n"]
        return expr_str(x)
    l, r, op = side(n.child("l")), side(n.child("r")), n["op"]
    if op in (">", ">="):
        l, r, op = r, l, {">": "<", ">=": "<="}[op]
    if op in ("==", "!=") and r in ("builtAt", "computedAt") and l not in ("builtAt", "computedAt"):
        l, r = r, l
    return (l, op, r)


EPOCH_TABLE = {
    ("builtAt", "==", "0"): "never built",
    ("builtAt", "!=", "0"): "has a prior result",
    ("builtAt", "<", "computedAt"): "input recomputed since the dependent was built (strict)",
    ("builtAt", "==", "getCurrentEpoch()"): "complete in this build",
    ("computedAt", "==", "currentEpoch"): "tracing: changed in this build",
}


# =====================================================================  C01 / C02
def r_scan_guards(prog, rep):
    r = rep.rule("R-SCAN-GUARDS",
                 "a rule is declared DoesNotNeedToRun only after: result.builtAt != 0, rule signature == stored signature, "
                 "isResultValid(value) true (in that order, signature before validity); in the per-dependency scan only "
                 "through the loop exit `inputIndex == dependencies.size()` with inputIndex advanced by exactly one per step", floor=6)
    f = efn(prog, "scanRule")
    bf = BranchFacts(f, kill_calls_of=KILL)
    dn = [n for (g, n, v) in state_writes(prog) if g is f and v.endswith("DoesNotNeedToRun")]
    if len(dn) != 1:
        raise AnalysisBroken("scanRule: %d DoesNotNeedToRun writes" % len(dn))
    st = facts_at(bf, dn[0])
    r.check(has(st, "builtAt", True, ("!=", "0")), "scanRule|builtAt!=0", "", "up-to-date verdict reachable with builtAt == 0", f, dn[0])
    r.check(has(st, "signature", True, ("==",)), "scanRule|signature-equal", "", "up-to-date verdict reachable without the signature comparison", f, dn[0])
    r.check(has(st, "isResultValid", True), "scanRule|value-valid", "", "up-to-date verdict reachable without isResultValid", f, dn[0])
    # signature compared before validity is asked
    v = f.calls("Rule::isResultValid")
    r.check(len(v) == 1 and has(facts_at(bf, v[0]), "signature", True, ("==",)) and has(facts_at(bf, v[0]), "builtAt", True, ("!=",)),
            "scanRule|signature-before-validity", "", "isResultValid consulted before builtAt/signature checks", f, v[0] if v else None)
    # the enqueue for recursive scanning carries the same three guards
    scan = [n for (g, n, val) in state_writes(prog) if g is f and val.endswith("IsScanning")]
    r.check(len(scan) == 1 and has(facts_at(bf, scan[0]), "isResultValid", True) and has(facts_at(bf, scan[0]), "signature", True, ("==",)),
            "scanRule|scan-enqueue-guards", "", "dependency scan enqueued without the local guards", f, scan[0] if scan else None)
    g = efn(prog, "processRuleScanRequest")
    bg = BranchFacts(g, kill_calls_of=KILL)
    fin = [c for c in g.calls("finishScanRequest") if expr_str(arg_nodes(c)[1]).endswith("DoesNotNeedToRun")]
    if len(fin) != 1:
        raise AnalysisBroken("processRuleScanRequest: %d DoesNotNeedToRun finishes" % len(fin))
    st = facts_at(bg, fin[0])
    r.check(has(st, "inputIndex", True, ("==", "dependencies.size()")), "processRuleScanRequest|all-deps-visited", "",
            "DoesNotNeedToRun reachable before inputIndex == dependencies.size()", g, fin[0])
    writes = [n for n in g.nodes if (n.get("k") == "un" and n.get("op") in ("++", "--") and expr_str(n.child("e")).endswith("inputIndex")) or
              (n.get("k") == "bin" and n["op"].endswith("=") and n["op"] not in ("==", "!=", "<=", ">=") and expr_str(n.child("l")).endswith("inputIndex"))]
    r.check(len(writes) == 1 and writes[0].get("k") == "un" and writes[0]["op"] == "++", "processRuleScanRequest|index-step-one",
            "", "inputIndex is modified other than by a single ++ (a dependency could be skipped)", g, writes[0] if writes else None)
    # the dependency examined is the one at inputIndex
    idx = [n for n in g.nodes if n.get("k") == "call" and n.get("op") == "[]" and "dependencies" in expr_str(n.child("obj"))]
    r.check(len(idx) == 1 and expr_str(core(arg_nodes(idx[0])[0])).endswith("request.inputIndex"), "processRuleScanRequest|dep-at-index", "",
            "scan does not read dependencies[request.inputIndex]", g, idx[0] if idx else None)


def r_epoch_cmp(prog, rep):
    r = rep.rule("R-EPOCH-CMP",
                 "every comparison over builtAt / computedAt / currentEpoch in the engine is one of the frozen table "
                 "(normalised operand order); the staleness test is strict `dependent.builtAt < input.computedAt` with "
                 "the dependent on the left and the input just demanded on the right", floor=5)
    seen = {}
    for f in engine_functions(prog):
        for n in f.nodes:
            if n.get("k") != "bin" or n["op"] not in ("==", "!=", "<", ">", "<=", ">="):
                continue
            names = set(x.get("n") for x in n.walk() if x.get("k") in ("member", "ref"))
            calls = set((x.get("fn") or "").split("::")[-1] for x in n.walk() if x.get("k") == "call")
            if not (names & {"builtAt", "computedAt", "currentEpoch"}) and "getCurrentEpoch" not in calls:
                continue
            t = field_cmp_tuple(n)
            fname = f.name.split("::")[-1]
            site = "%s|%s %s %s" % (fname, t[0], t[1], t[2])
            k = seen.get(site, 0)
            seen[site] = k + 1
            if k:
                site += "#%d" % k
            if t in EPOCH_TABLE:
                r.ok(site, EPOCH_TABLE[t], f, n)
            else:
                r.violation(site, "epoch comparison %s %s %s is not in the table of comparisons the engine relies on" % t, f, n)
            if t == ("builtAt", "<", "computedAt"):
                # roles
                l, rr = (n.child("l"), n.child("r")) if n["op"] in ("<", "<=") else (n.child("r"), n.child("l"))
                lroot, rroot = root_decl_init(f, l), root_decl_init(f, rr)
                ok = "request.ruleInfo" in lroot and "request.inputRuleInfo" in rroot
                r.check(ok, "%s|staleness-roles" % fname, "dependent on the left, input on the right",
                        "staleness comparison operands are rooted at (%s, %s)" % (lroot, rroot), f, n)


def root_decl_init(f, x):
    x = core(x)
    while x is not None and x.get("k") == "member":
        x = core(x.child("b"))
    if x is None or x.get("k") != "ref":
        return "?"
    for d in f.nodes:
        if d.get("k") == "decl":
            for v in d["vars"]:
                if v["did"] == x.get("did") and "init" in v:
                    return expr_str(f.nodes[v["init"]])
    return x.get("n", "?")


def r_epoch_writes(prog, rep):
    r = rep.rule("R-EPOCH-WRITES",
                 "who-may-write: builtAt is assigned only in setComplete (= current epoch) and in the cancellation routine "
                 "(= 0); computedAt only in the task-completion entry point (= currentEpoch) and only when forceChange or "
                 "the value differs; currentEpoch is incremented exactly once per build() before the work loop and "
                 "otherwise only loaded in attachDB", floor=5)
    writes = []
    for f in engine_functions(prog):
        for n in f.nodes:
            tgt = None
            if n.get("k") == "bin" and n["op"].endswith("=") and n["op"] not in ("==", "!=", "<=", ">="):
                tgt = n.child("l")
            elif n.get("k") == "un" and n.get("op") in ("++", "--"):
                tgt = n.child("e")
            if tgt is None:
                continue
            t = core(tgt)
            if t is not None and t.get("k") == "member" and t.get("n") in ("builtAt", "computedAt", "currentEpoch"):
                writes.append((f, n, t["n"]))
    table = {
        ("builtAt", "setComplete"): lambda f, n: expr_str(core(n.child("r"))).endswith("getCurrentEpoch()"),
        ("builtAt", "cancelRemainingTasks"): lambda f, n: core(n.child("r")).get("k") == "int" and core(n.child("r"))["v"] == 0,
        ("computedAt", "taskIsComplete"): lambda f, n: expr_str(core(n.child("r"))) == "currentEpoch",
        ("currentEpoch", "build"): lambda f, n: n.get("k") == "un" and n["op"] == "++",
        ("currentEpoch", "attachDB"): lambda f, n: "getCurrentEpoch" in expr_str(n.child("r")),
    }
    counts = {}
    for f, n, fld in writes:
        fname = f.name.split("::")[-1]
        key = (fld, fname)
        counts[key] = counts.get(key, 0) + 1
        site = "%s|write %s" % (fname, fld)
        if key not in table:
            r.violation(site, "%s is written in %s, which is not one of its writers" % (fld, fname), f, n)
        elif not table[key](f, n):
            r.violation(site, "%s is written with an unexpected value: %s" % (fld, expr_str(n)[:80]), f, n)
        else:
            r.ok(site, expr_str(n)[:60], f, n)
    for key in table:
        if key != ("builtAt", "cancelRemainingTasks") and counts.get(key, 0) != 1:
            r.violation("%s|write %s|count" % (key[1], key[0]), "expected exactly one write of %s in %s, found %d" % (key[0], key[1], counts.get(key, 0)))
    # computedAt: written only when forceChange or value differs
    f = efn(prog, "taskIsComplete")
    w = [n for g, n, fld in writes if g is f and fld == "computedAt"]
    if w:
        iff = None
        branch = None
        x = w[0]
        for a in f.ancestors(w[0]):
            if a.get("k") == "if":
                iff = a
                branch = "then" if any(y is w[0] for y in a.child("then").walk()) else "else"
                break
        ok = False
        if iff is not None:
            atoms = set(cond_atoms(iff.child("c"), branch == "else" and True or False)) if branch == "then" else set(cond_atoms(iff.child("c"), True))
            # normalise: the *unchanged* predicate is (!forceChange && value == result.value)
            if branch == "else":
                unchanged = set(cond_atoms(iff.child("c"), True))
            else:
                unchanged = set(cond_atoms(iff.child("c"), False))
            ok = ("forceChange", False) in unchanged and any(p and " == " in a and "value" in a and "result.value" in a for a, p in unchanged) and len(unchanged) == 2
        r.check(ok, "taskIsComplete|computedAt-iff-changed", "computedAt advances iff forceChange or value != result.value",
                "computedAt write is not guarded by exactly (forceChange || value != result.value)", f, w[0])
        # the value is stored on the same branch
        vw = [n for n in f.nodes if n.get("k") in ("bin", "call") and n.get("op") == "=" and
              expr_str(n.child("l") if n.get("k") == "bin" else n.child("obj")).endswith("result.value")]
        same = bool(vw) and iff is not None and any(any(y is vw[0] for y in iff.child(b).walk()) and any(y is w[0] for y in iff.child(b).walk())
                                                    for b in ("then", "else") if iff.child(b) is not None)
        r.check(same, "taskIsComplete|value-and-epoch-together", "", "result.value and computedAt are not updated together", f, w[0])
    # ++currentEpoch exactly once on every path of build() reaching executeTasks, before it
    f = efn(prog, "build")
    inc = [n for g, n, fld in writes if g is f and fld == "currentEpoch"]
    ex = f.calls("executeTasks")
    if len(inc) == 1 and len(ex) == 1:
        ok, wpath = cfg.dominated_by(f, cfg.pos_of(f, ex[0]), lambda p, e: cfg.elem_node(f, e) is inc[0])
        loops = [a for a in f.ancestors(inc[0]) if a.get("k") in ("while", "for", "do", "forrange")]
        r.check(ok and not loops, "build|epoch-incremented-before-work", "", "work loop reachable without the epoch increment (or increment in a loop)", f, ex[0])
    else:
        r.violation("build|epoch-incremented-before-work", "expected one ++currentEpoch and one executeTasks call in build()", f)


def r_dep_record(prog, rep):
    r = rep.rule("R-DEP-RECORD",
                 "in the input-request loop every request of a task is recorded as a dependency of the requesting rule "
                 "(key of the requested rule, its orderOnly and singleUse flags) before it is queued as finished or parked "
                 "on the producing task", floor=4)
    f = efn(prog, "executeTasks")
    dep = [c for c in f.calls("DependencyKeyIDs::push_back")]
    if len(dep) != 1:
        raise AnalysisBroken("executeTasks: %d dependency push_back sites" % len(dep))
    d = dep[0]
    a = arg_nodes(d)
    ok = expr_str(d.child("obj")) == "request.taskInfo->forRuleInfo->result.dependencies" and \
        expr_str(core(a[0])) == "request.inputRuleInfo->keyID" and expr_str(core(a[1])) == "request.orderOnly" and expr_str(core(a[2])) == "request.singleUse"
    r.check(ok, "executeTasks|dependency-roles", "", "dependency recorded with the wrong rule/key/flags: %s" % expr_str(d)[:120], f, d)
    loop = None
    for anc in f.ancestors(d):
        if anc.get("k") == "while":
            loop = anc
            break
    dpos = cfg.pos_of(f, d)
    sinks = []
    for c in f.calls():
        nm = (c.get("fn") or "").split("::")[-1]
        if nm == "push_back" and "obj" in c and loop is not None and any(x is c for x in loop.walk()):
            o = expr_str(c.child("obj"))
            if o == "finishedInputRequests" or o.endswith("requestedBy"):
                sinks.append(c)
    if len(sinks) != 2:
        raise AnalysisBroken("executeTasks: input loop has %d queueing sites" % len(sinks))
    for s in sinks:
        okd, w = cfg.dominated_by(f, cfg.pos_of(f, s), lambda p, e: p == dpos)
        # dominance from function entry is too coarse inside a loop: require no path from the request pop to the sink avoiding it
        pops = [c for c in f.calls() if (c.get("fn") or "").split("::")[-1].startswith("pop") and "obj" in c and expr_str(c.child("obj")) == "inputRequests"]
        if not pops:
            raise AnalysisBroken("executeTasks: input request pop not found")
        w2 = cfg.path_exists(f, cfg.pos_of(f, pops[0]), lambda p, e, sp=cfg.pos_of(f, s): p == sp, avoid=lambda p, e: p == dpos)
        r.check(w2 is None, "executeTasks|record-before-%s" % expr_str(s.child("obj")).split("->")[-1], "",
                "a request can be queued without being recorded as a dependency", f, s)
    # requests without a task (top-level / discovered) are not recorded: guarded by taskInfo null check
    bf = BranchFacts(f, kill_calls_of=KILL)
    st = facts_at(bf, d)
    r.check(has(st, "request.taskInfo", True), "executeTasks|only-task-requests", "", "dependency recorded for a request without a task", f, d)


def r_discovered_append(prog, rep):
    r = rep.rule("R-DISCOVERED-APPEND",
                 "discovered dependencies are appended to the rule's dependency list on every finished task, before the "
                 "result is written to the database; the discovered-dependency entry point records the key it was given", floor=3)
    f = efn(prog, "executeTasks")
    app = f.calls("DependencyKeyIDs::append")
    sr = f.calls("BuildDB::setRuleResult")
    if len(sr) != 1:
        raise AnalysisBroken("executeTasks: setRuleResult=%d" % len(sr))
    if len(app) != 1:
        r.violation("executeTasks|append-present", "expected exactly one append of the discovered dependencies, found %d" % len(app), f)
        return
    ok = expr_str(app[0].child("obj")).endswith("ruleInfo->result.dependencies") and "discoveredDependencies" in expr_str(arg_nodes(app[0])[0])
    r.check(ok, "executeTasks|append-roles", "", "append does not add taskInfo->discoveredDependencies to the rule's dependencies", f, app[0])
    pops = [c for c in f.calls() if (c.get("fn") or "").split("::")[-1].startswith("pop") and "obj" in c and expr_str(c.child("obj")) == "finishedTaskInfos"]
    if not pops:
        raise AnalysisBroken("executeTasks: finished task pop not found")
    apos = cfg.pos_of(f, app[0])
    w = cfg.path_exists(f, cfg.pos_of(f, pops[0]), lambda p, e, sp=cfg.pos_of(f, sr[0]): p == sp, avoid=lambda p, e: p == apos)
    r.check(w is None, "executeTasks|append-before-db-write", "", "result can be persisted without its discovered dependencies", f, sr[0])
    # and setComplete precedes the write as well (stored builtAt is this build's)
    sc = [c for c in f.calls("RuleInfo::setComplete")]
    if sc:
        spos = cfg.pos_of(f, sc[0])
        w = cfg.path_exists(f, cfg.pos_of(f, pops[0]), lambda p, e, sp=cfg.pos_of(f, sr[0]): p == sp, avoid=lambda p, e: p == spos)
        r.check(w is None, "executeTasks|complete-before-db-write", "", "result can be persisted before it is stamped complete", f, sr[0])
    g = efn(prog, "taskDiscoveredDependency")
    pb = g.calls("DependencyKeyIDs::push_back")
    ok = len(pb) == 1 and "discoveredDependencies" in expr_str(pb[0].child("obj"))
    if ok:
        kid = [v for d in g.nodes if d.get("k") == "decl" for v in d["vars"] if "init" in v and "getKeyID(key)" in expr_str(g.nodes[v["init"]])]
        ok = bool(kid) and mentions(arg_nodes(pb[0])[0], {kid[0]["did"]})
    r.check(ok, "taskDiscoveredDependency|records-given-key", "", "discovered dependency does not record the key it was given", g)


def r_fifo(prog, rep):
    r = rep.rule("R-FIFO", "inputRequests and readyTaskInfos are used strictly FIFO (push_back / front / pop_front / empty / clear): "
                           "dependency recording order relies on it", floor=2)
    for fld in ("inputRequests", "readyTaskInfos"):
        ops = set()
        for f in engine_functions(prog):
            for n, kind in field_accesses(f, ENGINE + "::" + fld):
                p = f.parent_of(n)
                if p is not None and p.get("k") == "call" and "obj" in p and p.child("obj") is n:
                    ops.add((p.get("fn") or "").split("::")[-1])
                elif p is not None and p.get("k") == "forrange":
                    ops.add("iterate")
        r.check(ops <= {"push_back", "front", "pop_front", "empty", "clear"} and {"push_back", "front", "pop_front"} <= ops,
                "%s|ops" % fld, "%s" % sorted(ops), "%s is used with %s" % (fld, sorted(ops)))


def r_fresh_value(prog, rep):
    r = rep.rule("R-FRESH-VALUE",
                 "Task::provideValue is called only from the finished-input loop with the requested rule's current "
                 "result.value and key; a request enters finishedInputRequests only (i) when demandRule returned true, "
                 "(ii) from the requestedBy list of a task being finished, (iii) in cycle breaking after the delegate agreed", floor=5)
    sites = []
    for f in engine_functions(prog):
        for c in f.calls("Task::provideValue"):
            sites.append((f, c))
    if len(sites) != 1 or sites[0][0].name.split("::")[-1] != "executeTasks":
        r.violation("provideValue|single-site", "provideValue is called from %s" % [s[0].name for s in sites])
    else:
        f, c = sites[0]
        a = arg_nodes(c)
        ok = expr_str(core(a[3])) == "request.inputRuleInfo->result.value" and "request.inputRuleInfo->rule" in expr_str(a[2]) and \
            expr_str(core(a[1])) == "request.inputID" and "request.taskInfo->task" in expr_str(c.child("obj"))
        r.check(ok, "provideValue|arguments", "", "provideValue passes %s" % expr_str(c)[:140], f, c)
        bf = BranchFacts(f, kill_calls_of=KILL)
        r.check(has(facts_at(bf, c), "request.orderOnly", False), "provideValue|not-for-order-only", "", "provideValue reachable for an order-only request", f, c)
    # entries into finishedInputRequests
    f = efn(prog, "executeTasks")
    bf = BranchFacts(f, kill_calls_of=KILL)
    ins = []
    for g in engine_functions(prog):
        for c in g.calls():
            nm = (c.get("fn") or "").split("::")[-1]
            if nm in ("push_back", "insert", "emplace_back") and "obj" in c and expr_str(c.child("obj")) == "finishedInputRequests":
                ins.append((g, c))
    kinds = set()
    for g, c in ins:
        gname = g.name.split("::")[-1]
        if gname == "executeTasks" and (c.get("fn") or "").endswith("push_back"):
            ok = has(facts_at(bf, c), "isAvailable", True)
            # isAvailable is the result of demandRule on the requested rule
            decl = [v for d in f.nodes if d.get("k") == "decl" for v in d["vars"] if v["n"] == "isAvailable" and
                    any(x is c for x in (loop_of(f, d) or d).walk())]
            ok = ok and bool(decl) and expr_str(f.nodes[decl[0]["init"]]).startswith("demandRule(") and "request.inputRuleInfo" in expr_str(f.nodes[decl[0]["init"]])
            r.check(ok, "finishedInputRequests|available-input", "", "request finished without demandRule having reported the input available", g, c)
            kinds.add("available")
        elif gname == "executeTasks":
            ok = "taskInfo->requestedBy" in expr_str(c) and cfg.path_exists(
                f, cfg.entry_pos(f), lambda p, e, sp=cfg.pos_of(f, c): p == sp,
                avoid=call_pred(f, "RuleInfo::setComplete")) is None
            r.check(ok, "finishedInputRequests|waiters-of-finished-task", "", "waiters released before the producing rule is complete", g, c)
            kinds.add("waiters")
        elif gname == "breakCycle":
            bg = BranchFacts(g, kill_calls_of=KILL)
            ok = has(facts_at(bg, c), "shouldResolveCycle", True)
            r.check(ok, "finishedInputRequests|cycle-prior-value", "", "prior value supplied without the delegate's consent", g, c)
            kinds.add("cycle")
        else:
            r.violation("finishedInputRequests|%s" % gname, "unexpected producer of finished input requests", g, c)
    if kinds != {"available", "waiters", "cycle"}:
        r.violation("finishedInputRequests|producers", "producers found: %s" % sorted(kinds))


def loop_of(f, n):
    for a in f.ancestors(n):
        if a.get("k") in ("while", "for", "do"):
            return a
    return None


def r_singleuse_bits(prog, rep):
    r = rep.rule("R-SINGLEUSE", "scanRule drops single-use dependencies before it reads the dependency list; the flag byte is written and "
                                "read with the same bit positions (orderOnly bit 0, singleUse bit 1)", floor=5)
    f = efn(prog, "scanRule")
    cl = f.calls("cleanSingleUseDependencies")
    reads = [c for c in f.calls() if "obj" in c and expr_str(c.child("obj")).endswith("result.dependencies") and c not in cl]
    ok = len(cl) == 1 and bool(reads)
    for rd in reads:
        ok = ok and cfg.dominated_by(f, cfg.pos_of(f, rd), lambda p, e: cfg.elem_node(f, e) is cl[0])[0]
    r.check(ok, "scanRule|clean-before-read", "", "dependency list read before single-use entries are dropped", f)
    D = "DependencyKeyIDs"
    for meth in ("push_back", "set"):
        g = prog.fn(D + "::" + meth)
        # (singleUseFlag << 1) | orderOnlyFlag
        ors = [n for n in g.nodes if n.get("k") == "bin" and n["op"] in ("|", "+")]
        ok = False
        if len(ors) == 1:
            l, rr = core(ors[0].child("l")), core(ors[0].child("r"))
            def sh(x):
                x = core(x)
                if x.get("k") == "bin" and x["op"] == "<<":
                    return (expr_str(core(x.child("l"))), core(x.child("r")).get("v"))
                return (expr_str(x), 0)
            parts = dict([sh(l), sh(rr)])
            ok = parts == {"singleUseFlag": 1, "orderOnlyFlag": 0}
        r.check(ok, "%s::%s|flag-bits" % (D, meth), "", "flag byte not built as (singleUse << 1) | orderOnly", g)
    for meth, bit in (("orderOnly", 0), ("singleUse", 1)):
        g = [x for x in prog.fns(D + "::" + meth)]
        if len(g) != 1:
            raise AnalysisBroken("reader %s not found" % meth)
        g = g[0]
        ret = [n for n in g.nodes if n.get("k") == "return"][0]
        e = core(ret.child("e"))
        got = None
        if e.get("k") == "bin" and e["op"] == "&" and core(e.child("r")).get("v") == 1:
            inner = core(e.child("l"))
            if inner.get("k") == "bin" and inner["op"] == ">>":
                got = core(inner.child("r")).get("v")
            else:
                got = 0
        r.check(got == bit, "%s::%s|flag-bit" % (D, meth), "", "%s reads bit %s, writer puts it at bit %d" % (meth, got, bit), g)
    g = prog.fn(D + "::operator[]")
    il = [n for n in g.nodes if n.get("k") == "initlist"]
    shape = []
    if len(il) == 1:
        for a in arg_nodes(il[0]):
            a = core(a)
            if a.get("k") == "call":
                nm = (a.get("fn") or "").split("::")[-1]
                shape.append("keys[]" if nm == "operator[]" and "keys" in expr_str(a) else nm)
            else:
                shape.append(expr_str(a))
    fields = [fl["n"] for fl in prog.record("DependencyKeyIDs::KeyIDAndFlags")["fields"]]
    ok = shape == ["keys[]", "orderOnly", "singleUse"] and fields == ["keyID", "orderOnly", "singleUse"]
    r.check(ok, "%s::operator[]|field-order" % D, "", "operator[] builds {key, orderOnly, singleUse} from %s" % ([expr_str(core(a)) for a in arg_nodes(il[0])] if il else None), g)


def r_invalid_window(prog, rep):
    r = rep.rule("R-INVALID-WINDOW",
                 "creating a task clears the rule's recorded dependencies, so its result is invalid until the task "
                 "finishes: every function that takes a rule out of the in-progress state (clears its pending task) must on "
                 "the same path either mark it complete or invalidate result.builtAt", floor=2)
    n_sites = 0
    for f in engine_functions(prog):
        for c in f.calls("RuleInfo::setPendingTaskInfo"):
            a = arg_nodes(c)
            if not a or core(a[0]).get("k") != "null":
                continue
            n_sites += 1
            fname = f.name.split("::")[-1]

            def settles(p, e, f=f):
                n = cfg.elem_node(f, e)
                if n is None:
                    return False
                if n.get("k") == "call" and (n.get("fn") or "").endswith("RuleInfo::setComplete"):
                    return True
                if n.get("k") == "bin" and n["op"] == "=" and expr_str(n.child("l")).endswith("result.builtAt") and core(n.child("r")).get("v") == 0:
                    return True
                return False
            # within the same loop iteration / before leaving the function
            lp = loop_of(f, c)
            start = cfg.pos_of(f, c)
            if lp is not None:
                head = first_pos(f, lp)
                w = cfg.path_exists(f, start, lambda p, e, head=head: e == "EXIT" or p == head, avoid=settles)
            else:
                w = cfg.path_exists(f, start, cfg.is_exit, avoid=settles)
            r.check(w is None, "%s|pending-task-cleared" % fname, "", "rule leaves the in-progress state with its stale builtAt and a truncated dependency list", f, c)
    if n_sites < 2:
        raise AnalysisBroken("only %d sites clear a pending task" % n_sites)


def first_pos(f, stmt):
    pos = f.elem_pos()
    best = None
    for x in stmt.walk():
        p = pos.get(x["id"])
        if p is not None:
            key = (-p[0], p[1])
            if best is None or key < best[0]:
                best = (key, p)
    return best[1] if best else None


# ------------------------------------------------------------------  C02
STATE_TABLE = {
    ("scanRule", "NeedsToRun"), ("scanRule", "DoesNotNeedToRun"), ("scanRule", "IsScanning"),
    ("demandRule", "InProgressWaiting"), ("finishScanRequest", "newState"),
    ("setComputing", "InProgressComputing"), ("setComplete", "Complete"), ("setCancelled", "Incomplete"),
}


def r_create_once(prog, rep):
    r = rep.rule("R-CREATE-ONCE",
                 "Rule::createTask has one engine call site, reached only for a rule that is not complete at this epoch, not "
                 "in progress and not DoesNotNeedToRun, and followed on every path by the transition to InProgressWaiting; "
                 "every write of RuleInfo::state is one of the frozen transition table", floor=10)
    sites = [(f, c) for f in engine_functions(prog) for c in f.calls("Rule::createTask")]
    if len(sites) != 1:
        r.violation("createTask|single-site", "createTask called from %d sites" % len(sites))
        return
    f, c = sites[0]
    bf = BranchFacts(f, kill_calls_of=KILL)
    st = facts_at(bf, c)
    r.check(has(st, "isComplete", False), "createTask|not-complete", "", "task created for a rule already complete in this build", f, c)
    r.check(has(st, "isInProgress", False), "createTask|not-in-progress", "", "task created for a rule already in progress", f, c)
    r.check(has(st, "DoesNotNeedToRun", True, ("!=",)), "createTask|needs-to-run", "", "task created for a rule that does not need to run", f, c)

    def to_waiting(p, e):
        n = cfg.elem_node(f, e)
        return n is not None and n.get("k") == "bin" and n["op"] == "=" and expr_str(n.child("l")).endswith(".state") and \
            expr_str(core(n.child("r"))).endswith("InProgressWaiting")
    ok, w = cfg.must_pass_through(f, cfg.pos_of(f, c), to_waiting)
    r.check(ok, "createTask|then-in-progress", "", "a path leaves after createTask without marking the rule in progress", f, c)
    for g, n, v in state_writes(prog):
        gname = g.name.split("::")[-1]
        v = v.split("::")[-1]
        site = "state|%s=%s" % (gname, v)
        if (gname, v) in STATE_TABLE:
            r.ok(site, "", g, n)
        else:
            r.violation(site, "RuleInfo::state is set to %s in %s, which is not a transition of the table" % (v, gname), g, n)
    # finishScanRequest(newState) is only called with NeedsToRun / DoesNotNeedToRun
    for g in engine_functions(prog):
        for c in g.calls("finishScanRequest"):
            v = expr_str(core(arg_nodes(c)[1])).split("::")[-1]
            r.check(v in ("NeedsToRun", "DoesNotNeedToRun"), "state|finishScanRequest(%s)@%s" % (v, g.name.split("::")[-1]), "",
                    "scan finished with state %s" % v, g, c)
    # the ready loop is the only caller of setComputing / inputsAvailable
    ia = [(g, c) for g in engine_functions(prog) for c in g.calls("Task::inputsAvailable")]
    r.check(len(ia) == 1 and ia[0][0].name.endswith("executeTasks"), "inputsAvailable|single-site", "", "inputsAvailable called from %d sites" % len(ia))


REASONS = {
    "NeverBuilt": lambda st: has(st, "builtAt", True, ("==", "0")),
    "SignatureChanged": lambda st: has(st, "signature", True, ("!=",)),
    "InvalidValue": lambda st: has(st, "isResultValid", False),
    "InputRebuilt": lambda st: has(st, "builtAt", True, ("<", "computedAt")),
}


def r_reason_table(prog, rep):
    r = rep.rule("R-REASON-TABLE",
                 "each determinedRuleNeedsToRun(rule, reason, input) call reports the reason whose guard holds at the call "
                 "(NeverBuilt: builtAt == 0; SignatureChanged: signatures differ; InvalidValue: !isResultValid; InputRebuilt: "
                 "builtAt < input.computedAt with that input's rule as third argument; Forced: cycle breaking), and every "
                 "transition to NeedsToRun is followed by exactly one such report", floor=8)
    calls = [(f, c) for f in engine_functions(prog) for c in f.calls("determinedRuleNeedsToRun")]
    seen = set()
    for f, c in calls:
        a = arg_nodes(c)
        reason = expr_str(core(a[1])).split("::")[-1]
        fname = f.name.split("::")[-1]
        site = "%s|%s" % (fname, reason)
        seen.add(reason)
        bf = BranchFacts(f, kill_calls_of=KILL)
        # the guard is evaluated where the rule is marked NeedsToRun (the transition the report belongs to)
        tr = [n for n in f.nodes if is_needs_to_run_transition(n)]
        tr = [n for n in tr if cfg.path_exists(f, cfg.pos_of(f, n), lambda p, e, cp=cfg.pos_of(f, c): p == cp) is not None and
              cfg.dominated_by(f, cfg.pos_of(f, c), lambda p, e, n=n: cfg.elem_node(f, e) is n)[0]]
        at = tr[-1] if tr else c
        st = facts_at(bf, at)
        if reason in REASONS:
            r.check(REASONS[reason](st), site + "|guard", "", "reason %s reported where its condition is not established" % reason, f, c)
            if reason == "InputRebuilt":
                r.check(expr_str(core(a[2])) == "inputRuleInfo.rule.get()" and expr_str(core(a[0])) == "ruleInfo.rule.get()", site + "|input-arg", "",
                        "InputRebuilt reported with %s / %s" % (expr_str(a[0]), expr_str(a[2])), f, c)
            else:
                r.check(core(a[2]).get("k") == "null", site + "|no-input", "", "reason %s reported with an input rule" % reason, f, c)
        elif reason == "Forced":
            r.check(fname == "breakCycle" and has(st, "shouldResolveCycle", True), site + "|guard", "", "Forced reported outside consented cycle breaking", f, c)
        else:
            r.violation(site, "unknown run reason %s" % reason, f, c)
    enum = [e["n"] for e in prog.enum("Rule::RunReason")["enumerators"]]
    r.check(set(enum) == seen, "reasons|all-reported", "%s" % sorted(seen), "run reasons %s vs reported %s" % (sorted(enum), sorted(seen)))
    # every NeedsToRun transition is followed by a report, every report preceded by a transition
    for f in engine_functions(prog):
        for n in f.nodes:
            is_tr = (n.get("k") == "bin" and n["op"] == "=" and expr_str(n.child("l")).endswith(".state") and expr_str(core(n.child("r"))).endswith("NeedsToRun")) or \
                (n.get("k") == "call" and (n.get("fn") or "").endswith("finishScanRequest") and expr_str(core(arg_nodes(n)[1])).endswith("NeedsToRun"))
            if not is_tr:
                continue
            ok, w = cfg.must_pass_through(f, cfg.pos_of(f, n), call_pred(f, "determinedRuleNeedsToRun"))
            fname = f.name.split("::")[-1]
            r.check(ok, "%s|needs-to-run-reported@%s" % (fname, n.line and nth(f, n)), "", "rule marked NeedsToRun without a reported reason", f, n)


def is_needs_to_run_transition(n):
    return (n.get("k") == "bin" and n["op"] == "=" and expr_str(n.child("l")).endswith(".state") and expr_str(core(n.child("r"))).endswith("NeedsToRun")) or \
        (n.get("k") == "call" and (n.get("fn") or "").endswith("finishScanRequest") and expr_str(core(arg_nodes(n)[1])).endswith("NeedsToRun"))


def nth(f, n):
    same = [x for x in f.nodes if x.get("k") == n.get("k") and expr_str(x) == expr_str(n)]
    same.sort(key=lambda x: x.line)
    return same.index(n)


def r_orderonly_guard(prog, rep):
    r = rep.rule("R-ORDERONLY-GUARD", "the staleness comparison is evaluated only for requests that are not order-only", floor=1)
    f = efn(prog, "processRuleScanRequest")
    bf = BranchFacts(f, kill_calls_of=KILL)
    cmps = [n for n in f.nodes if n.get("k") == "bin" and n["op"] in ("<", ">", "<=", ">=") and "computedAt" in expr_str(n)]
    if len(cmps) != 1:
        raise AnalysisBroken("processRuleScanRequest: %d staleness comparisons" % len(cmps))
    r.check(has(facts_at(bf, cmps[0]), "request.orderOnly", False), "processRuleScanRequest|not-order-only", "",
            "order-only dependency can trigger a re-run", f, cmps[0])
    # the flag comes from the recorded dependency
    asg = [n for n in f.nodes if n.get("k") == "bin" and n["op"] == "=" and expr_str(n.child("l")) == "request.orderOnly"]
    r.check(any(expr_str(core(n.child("r"))) == "keyAndFlag.orderOnly" for n in asg), "processRuleScanRequest|flag-from-record", "",
            "request.orderOnly is not taken from the recorded dependency", f)
