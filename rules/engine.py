"""Shared rule functions over lib/Core/BuildEngine.cpp (used by C01, C02, C05, C06, C07)."""
from sa.facts import AnalysisBroken, expr_str, qmatch, strip_casts, relpath, core, expr_plain
from sa import cfg
from sa.cfg import BranchFacts, canon, cond_atoms
from sa.flow import arg_nodes, mentions
from sa.lockset import LockSets, entry_locksets, field_accesses
from sa.callgraph import CallGraph

ENGINE = "BuildEngineImpl"
KILL = ("BuildEngineImpl::", "RuleInfo::")


def efn(prog, name):
    return prog.fn(ENGINE + "::" + name)


def engine_functions(prog):
    return [f for f in prog.functions.values()
            if relpath(f.file) == "lib/Core/BuildEngine.cpp" and (ENGINE in f.cls or ENGINE in (f.parent or "") or ENGINE in f.key)]


def is_call(fn, e, suffixes):
    n = cfg.elem_node(fn, e)
    if n is None or n.get("k") != "call":
        return False
    nm = n.get("fn") or ""
    return any(qmatch(nm, s) for s in suffixes)


def call_pred(fn, *suffixes):
    return lambda p, e: is_call(fn, e, suffixes)


def facts_at(bf, node):
    st = bf.at_node(node)
    return st if st is not None else frozenset()


def has(st, sub, pol=True, also=()):
    """some fact with polarity pol whose atom contains all substrings."""
    subs = (sub,) + tuple(also)
    return any(p == pol and all(s in a for s in subs) for a, p in st)


def whole_container_loops(f, what, full=False):
    """loops that visit every element of the container whose rendering contains `what`, in order: a range-for over it, or an index loop
    `for (i = 0[, e = X.size()]; i !=|< e|X.size(); ++i)` whose body reads X[i] and never writes i.  -> [(loop node, element name)]: the
    range-for variable, or the local initialised from X[i] (None when the body uses X[i] directly)."""
    out = []
    for n in f.nodes:
        if n.get("k") == "forrange" and what in expr_str(n.child("range")):
            out.append((n, n.get("var"), expr_str(n.child("range"))) if full else (n, n.get("var")))
            continue
        if n.get("k") != "for" or "init" not in n or "c" not in n or "inc" not in n:
            continue
        ivars = [v for d in n.child("init").walk() if d.get("k") == "decl" for v in d.get("vars", [])]
        # iterator form: for (it = X.begin()[, ie = X.end()]; it != ie|X.end(); ++it) reading *it, `it` not written in the body
        its = [v for v in ivars if "init" in v and expr_str(core(f.nodes[v["init"]])).endswith(".begin()") and what in expr_str(core(f.nodes[v["init"]]))]
        if len(its) == 1:
            it = its[0]
            contb = expr_str(core(f.nodes[it["init"]]))[:-len(".begin()")]
            c = core(n.child("c"))
            ends = [expr_str(core(f.nodes[v["init"]])) for v in ivars if "init" in v and v is not it]
            cond_txt = expr_str(c) if c is not None else ""
            end_ok = (contb + ".end()") in cond_txt or any(e_ == contb + ".end()" for e_ in ends)
            inc = core(n.child("inc"))
            inc_ok = inc is not None and (inc.get("k") == "un" and "++" in inc.get("op", "") or inc.get("k") == "call" and "++" in (inc.get("op") or "")) and it["n"] in expr_str(inc)
            body = n.child("body")
            wr = [x for x in body.walk() if (x.get("k") == "un" and ("++" in x.get("op", "") or "--" in x.get("op", "")) or x.get("k") == "call" and (x.get("op") or "") in ("++", "--", "=", "+=")) and
                  expr_str(core(x.child("e") if x.get("k") == "un" else (x.child("obj") if "obj" in x else x))).strip("()") == it["n"]]
            if end_ok and inc_ok and not wr and ("!=" in cond_txt or "operator!=" in cond_txt):
                name = None
                for d in body.walk():
                    if d.get("k") == "decl":
                        for v in d.get("vars", []):
                            if "init" in v and expr_str(core(f.nodes[v["init"]])).replace(" ", "") in ("(*%s)" % it["n"], "*%s" % it["n"]):
                                name = v["n"]
                out.append((n, name if name else "(*%s)" % it["n"], contb) if full else (n, name if name else "(*%s)" % it["n"]))
                continue
        idx = [v for v in ivars if "init" in v and strip_casts(f.nodes[v["init"]]) is not None and strip_casts(f.nodes[v["init"]]).get("k") == "int" and strip_casts(f.nodes[v["init"]]).get("v") == 0]
        if len(idx) != 1:
            continue
        i = idx[0]
        c = core(n.child("c"))
        if c is None or c.get("k") != "bin" or c.get("op") not in ("!=", "<"):
            continue
        l, r_ = core(c.child("l")), core(c.child("r"))
        if l is None or l.get("did") != i["did"] or r_ is None:
            continue
        bound = expr_str(r_)
        if r_.get("k") == "ref":
            bv = [v for d in f.nodes if d.get("k") == "decl" for v in d.get("vars", []) if v.get("did") == r_.get("did") and "init" in v]
            bound = expr_str(core(f.nodes[bv[0]["init"]])) if bv and len(set(v["init"] for v in bv)) == 1 else bound
        if not (what in bound and bound.endswith(".size()")):
            continue
        cont = bound[:-len(".size()")]
        inc = core(n.child("inc"))
        if inc is None or inc.get("k") != "un" or "++" not in inc.get("op", "") or core(inc.child("e")).get("did") != i["did"]:
            continue
        body = n.child("body")
        wr = [x for x in body.walk() if x.get("k") == "bin" and x.get("op", "").endswith("=") and x["op"] not in ("==", "!=", "<=", ">=") and
              core(x.child("l")) is not None and core(x.child("l")).get("did") == i["did"]] + \
             [x for x in body.walk() if x.get("k") == "un" and ("++" in x.get("op", "") or "--" in x.get("op", "")) and core(x.child("e")).get("did") == i["did"]]
        if wr:
            continue
        elem = "%s[%s]" % (cont, i["n"])
        reads = [x for x in body.walk() if expr_str(core(x) or x) == elem]
        if not reads:
            continue
        name = None
        for d in body.walk():
            if d.get("k") == "decl":
                for v in d.get("vars", []):
                    if "init" in v and expr_str(core(f.nodes[v["init"]])) == elem:
                        name = v["n"]
        out.append((n, name if name else elem, cont) if full else (n, name if name else elem))
    return out


def db_is_null(atom, pol, aliases=()):
    """does the fact (atom, pol) say that no database is attached?  (whatever the spelling of the test; `aliases` are
    locals initialised from the handle, as in `if (BuildDB *d = db.get())` or `bool haveDB = db != nullptr`)"""
    import re
    a = atom.replace(".operator bool()", "").replace(".get()", "").replace("this->", "")
    for al in aliases:
        a = re.sub(r"\b%s\b" % re.escape(al), "db", a)
    if a == "db":
        return not pol
    if a in ("(db == nullptr)", "(nullptr == db)", "(0 == db)", "(db == 0)"):
        return pol
    return False


def db_aliases(f):
    out = set()
    for d in f.nodes:
        if d.get("k") == "decl":
            for v in d.get("vars", []):
                if "init" in v:
                    i = expr_str(core(f.nodes[v["init"]])).replace(".operator bool()", "").replace(".get()", "").replace("this->", "")
                    if i in ("db", "(db != nullptr)", "(nullptr != db)", "operator!=(db, nullptr)", "operator!=(nullptr, db)", "static_cast<bool>(db)", "bool(db)", "!!db"):
                        out.add(v["n"])
    return out


def state_writes(prog):
    """all assignments to RuleInfo::state: [(fn, node, value string)]"""
    out = []
    for f in engine_functions(prog):
        for n in f.nodes:
            if n.get("k") == "bin" and n["op"] == "=" and n.child("l").get("k") == "member" and \
                    n.child("l").get("qn", "").endswith("RuleInfo::state"):
                out.append((f, n, expr_str(core(n.child("r")))))
    return out


def field_cmp_tuple(n):
    """(left field, op, right field/const) of an epoch comparison, normalised to < / <= / == / !=."""
    def side(x):
        x = core(x)
        if x is None:
            return "?"
        if x.get("k") == "int":
            return str(x["v"])
        if x.get("k") == "member":
            return x["n"]
        if x.get("k") == "call":
            return (x.get("fn") or "?").split("::")[-1] + "()"
        if x.get("k") == "ref":
            return x["n"]
        return expr_str(x)
    l, r, op = side(n.child("l")), side(n.child("r")), n["op"]
    if op in (">", ">="):
        l, r, op = r, l, {">": "<", ">=": "<="}[op]
    if op in ("==", "!=") and r in ("builtAt", "computedAt") and l not in ("builtAt", "computedAt"):
        l, r = r, l
    return (l, op, r)


EPOCH_TABLE = {
    ("builtAt", "==", "0"): "never built",
    ("builtAt", "!=", "0"): "has a prior result",
    ("builtAt", "<", "computedAt"): "input recomputed since the dependent was built (strict)",
    ("builtAt", "==", "getCurrentEpoch()"): "complete in this build",
    ("computedAt", "==", "currentEpoch"): "tracing: changed in this build",
}


# =====================================================================  C01 / C02
def r_scan_guards(prog, rep):
    r = rep.rule("R-SCAN-GUARDS",
                 "a rule is declared DoesNotNeedToRun only after: result.builtAt != 0, rule signature == stored signature, "
                 "isResultValid(value) true (in that order, signature before validity); in the per-dependency scan only "
                 "through the loop exit `inputIndex == dependencies.size()` with inputIndex advanced by exactly one per step", floor=6)
    f = efn(prog, "scanRule")
    bf = BranchFacts(f, kill_calls_of=KILL)
    dn = [n for (g, n, v) in state_writes(prog) if g is f and v.endswith("DoesNotNeedToRun")]
    if len(dn) != 1:
        raise AnalysisBroken("scanRule: %d DoesNotNeedToRun writes" % len(dn))
    st = facts_at(bf, dn[0])
    r.check(has(st, "builtAt", True, ("!=", "0")), "scanRule|builtAt!=0", "", "up-to-date verdict reachable with builtAt == 0", f, dn[0])
    r.check(has(st, "signature", True, ("==",)), "scanRule|signature-equal", "", "up-to-date verdict reachable without the signature comparison", f, dn[0])
    r.check(has(st, "isResultValid", True), "scanRule|value-valid", "", "up-to-date verdict reachable without isResultValid", f, dn[0])
    # signature compared before validity is asked
    v = f.calls("Rule::isResultValid")
    r.check(len(v) == 1 and has(facts_at(bf, v[0]), "signature", True, ("==",)) and has(facts_at(bf, v[0]), "builtAt", True, ("!=",)),
            "scanRule|signature-before-validity", "", "isResultValid consulted before builtAt/signature checks", f, v[0] if v else None)
    # the enqueue for recursive scanning carries the same three guards
    scan = [n for (g, n, val) in state_writes(prog) if g is f and val.endswith("IsScanning")]
    r.check(len(scan) == 1 and has(facts_at(bf, scan[0]), "isResultValid", True) and has(facts_at(bf, scan[0]), "signature", True, ("==",)),
            "scanRule|scan-enqueue-guards", "", "dependency scan enqueued without the local guards", f, scan[0] if scan else None)
    g = efn(prog, "processRuleScanRequest")
    bg = BranchFacts(g, kill_calls_of=KILL)
    fin = [c for c in g.calls("finishScanRequest") if expr_str(arg_nodes(c)[1]).endswith("DoesNotNeedToRun")]
    if len(fin) != 1:
        raise AnalysisBroken("processRuleScanRequest: %d DoesNotNeedToRun finishes" % len(fin))
    st = facts_at(bg, fin[0])
    r.check(has(st, "inputIndex", True, ("==", "dependencies.size()")), "processRuleScanRequest|all-deps-visited", "",
            "DoesNotNeedToRun reachable before inputIndex == dependencies.size()", g, fin[0])
    writes = [n for n in g.nodes if (n.get("k") == "un" and n.get("op") in ("++", "--") and expr_str(n.child("e")).endswith("inputIndex")) or
              (n.get("k") == "bin" and n["op"].endswith("=") and n["op"] not in ("==", "!=", "<=", ">=") and expr_str(n.child("l")).endswith("inputIndex"))]
    r.check(len(writes) == 1 and writes[0].get("k") == "un" and writes[0]["op"] == "++", "processRuleScanRequest|index-step-one",
            "", "inputIndex is modified other than by a single ++ (a dependency could be skipped)", g, writes[0] if writes else None)
    # the dependency examined is the one at inputIndex
    idx = [n for n in g.nodes if n.get("k") == "call" and n.get("op") == "[]" and "dependencies" in expr_str(n.child("obj"))]
    r.check(len(idx) == 1 and expr_str(core(arg_nodes(idx[0])[0])).endswith("request.inputIndex"), "processRuleScanRequest|dep-at-index", "",
            "scan does not read dependencies[request.inputIndex]", g, idx[0] if idx else None)


def r_epoch_cmp(prog, rep):
    r = rep.rule("R-EPOCH-CMP",
                 "every comparison over builtAt / computedAt / currentEpoch in the engine is one of the frozen table "
                 "(normalised operand order); the staleness test is strict `dependent.builtAt < input.computedAt` with "
                 "the dependent on the left and the input just demanded on the right", floor=5)
    seen = {}
    for f in engine_functions(prog):
        for n in f.nodes:
            if n.get("k") != "bin" or n["op"] not in ("==", "!=", "<", ">", "<=", ">="):
                continue
            names = set(x.get("n") for x in n.walk() if x.get("k") in ("member", "ref"))
            calls = set((x.get("fn") or "").split("::")[-1] for x in n.walk() if x.get("k") == "call")
            if not (names & {"builtAt", "computedAt", "currentEpoch"}) and "getCurrentEpoch" not in calls:
                continue
            t = field_cmp_tuple(n)
            fname = f.name.split("::")[-1]
            site = "%s|%s %s %s" % (fname, t[0], t[1], t[2])
            k = seen.get(site, 0)
            seen[site] = k + 1
            if k:
                site += "#%d" % k
            if t in EPOCH_TABLE:
                r.ok(site, EPOCH_TABLE[t], f, n)
            else:
                r.violation(site, "epoch comparison %s %s %s is not in the table of comparisons the engine relies on" % t, f, n)
            if t == ("builtAt", "<", "computedAt"):
                # roles
                l, rr = (n.child("l"), n.child("r")) if n["op"] in ("<", "<=") else (n.child("r"), n.child("l"))
                lroot, rroot = root_decl_init(f, l), root_decl_init(f, rr)
                ok = "request.ruleInfo" in lroot and "request.inputRuleInfo" in rroot
                r.check(ok, "%s|staleness-roles" % fname, "dependent on the left, input on the right",
                        "staleness comparison operands are rooted at (%s, %s)" % (lroot, rroot), f, n)


def root_decl_init(f, x):
    x = core(x)
    while x is not None and x.get("k") == "member":
        x = core(x.child("b"))
    if x is None or x.get("k") != "ref":
        return "?"
    for d in f.nodes:
        if d.get("k") == "decl":
            for v in d["vars"]:
                if v["did"] == x.get("did") and "init" in v:
                    return expr_str(f.nodes[v["init"]])
    return x.get("n", "?")


def r_epoch_writes(prog, rep):
    r = rep.rule("R-EPOCH-WRITES",
                 "who-may-write: builtAt is assigned only in setComplete (= current epoch) and in the cancellation routine "
                 "(= 0); computedAt only in the task-completion entry point (= currentEpoch) and only when forceChange or "
                 "the value differs; currentEpoch is incremented exactly once per build() before the work loop and "
                 "otherwise only loaded in attachDB", floor=5)
    writes = []
    for f in engine_functions(prog):
        for n in f.nodes:
            tgt = None
            if n.get("k") == "bin" and n["op"].endswith("=") and n["op"] not in ("==", "!=", "<=", ">="):
                tgt = n.child("l")
            elif n.get("k") == "un" and n.get("op") in ("++", "--"):
                tgt = n.child("e")
            if tgt is None:
                continue
            t = core(tgt)
            if t is not None and t.get("k") == "member" and t.get("n") in ("builtAt", "computedAt", "currentEpoch"):
                writes.append((f, n, t["n"]))
    table = {
        ("builtAt", "setComplete"): lambda f, n: expr_str(core(n.child("r"))).endswith("getCurrentEpoch()"),
        ("builtAt", "cancelRemainingTasks"): lambda f, n: core(n.child("r")).get("k") == "int" and core(n.child("r"))["v"] == 0,
        ("computedAt", "taskIsComplete"): lambda f, n: expr_str(core(n.child("r"))) == "currentEpoch",
        ("currentEpoch", "build"): lambda f, n: n.get("k") == "un" and n["op"] == "++",
        ("currentEpoch", "attachDB"): lambda f, n: "getCurrentEpoch" in expr_str(n.child("r")),
    }
    counts = {}
    for f, n, fld in writes:
        fname = f.name.split("::")[-1]
        key = (fld, fname)
        counts[key] = counts.get(key, 0) + 1
        site = "%s|write %s" % (fname, fld)
        if key not in table:
            r.violation(site, "%s is written in %s, which is not one of its writers" % (fld, fname), f, n)
        elif not table[key](f, n):
            r.violation(site, "%s is written with an unexpected value: %s" % (fld, expr_str(n)[:80]), f, n)
        else:
            r.ok(site, expr_str(n)[:60], f, n)
    for key in table:
        if key != ("builtAt", "cancelRemainingTasks") and counts.get(key, 0) != 1:
            r.violation("%s|write %s|count" % (key[1], key[0]), "expected exactly one write of %s in %s, found %d" % (key[0], key[1], counts.get(key, 0)))
    # computedAt: written only when forceChange or value differs
    f = efn(prog, "taskIsComplete")
    w = [n for g, n, fld in writes if g is f and fld == "computedAt"]
    if w:
        iff = None
        branch = None
        x = w[0]
        for a in f.ancestors(w[0]):
            if a.get("k") == "if":
                iff = a
                branch = "then" if any(y is w[0] for y in a.child("then").walk()) else "else"
                break
        ok = False
        if iff is not None:
            atoms = set(cond_atoms(iff.child("c"), branch == "else" and True or False)) if branch == "then" else set(cond_atoms(iff.child("c"), True))
            # normalise: the *unchanged* predicate is (!forceChange && value == result.value)
            if branch == "else":
                unchanged = set(cond_atoms(iff.child("c"), True))
            else:
                unchanged = set(cond_atoms(iff.child("c"), False))
            ok = ("forceChange", False) in unchanged and any(p and " == " in a and "value" in a and "result.value" in a for a, p in unchanged) and len(unchanged) == 2
        r.check(ok, "taskIsComplete|computedAt-iff-changed", "computedAt advances iff forceChange or value != result.value",
                "computedAt write is not guarded by exactly (forceChange || value != result.value)", f, w[0])
        # the value is stored on the same branch
        vw = [n for n in f.nodes if n.get("k") in ("bin", "call") and n.get("op") == "=" and
              expr_str(n.child("l") if n.get("k") == "bin" else n.child("obj")).endswith("result.value")]
        same = bool(vw) and iff is not None and any(any(y is vw[0] for y in iff.child(b).walk()) and any(y is w[0] for y in iff.child(b).walk())
                                                    for b in ("then", "else") if iff.child(b) is not None)
        r.check(same, "taskIsComplete|value-and-epoch-together", "", "result.value and computedAt are not updated together", f, w[0])
    # ++currentEpoch exactly once on every path of build() reaching executeTasks, before it
    f = efn(prog, "build")
    inc = [n for g, n, fld in writes if g is f and fld == "currentEpoch"]
    ex = f.calls("executeTasks")
    if len(inc) == 1 and len(ex) == 1:
        ok, wpath = cfg.dominated_by(f, cfg.pos_of(f, ex[0]), lambda p, e: cfg.elem_node(f, e) is inc[0])
        loops = [a for a in f.ancestors(inc[0]) if a.get("k") in ("while", "for", "do", "forrange")]
        r.check(ok and not loops, "build|epoch-incremented-before-work", "", "work loop reachable without the epoch increment (or increment in a loop)", f, ex[0])
    else:
        r.violation("build|epoch-incremented-before-work", "expected one ++currentEpoch and one executeTasks call in build()", f)


def r_dep_record(prog, rep):
    r = rep.rule("R-DEP-RECORD",
                 "in the input-request loop every request of a task is recorded as a dependency of the requesting rule "
                 "(key of the requested rule, its orderOnly and singleUse flags) before it is queued as finished or parked "
                 "on the producing task", floor=4)
    f = efn(prog, "executeTasks")
    dep = [c for c in f.calls("DependencyKeyIDs::push_back")]
    # the element-wise append of discovered dependencies (R-DISCOVERED-APPEND's business) is not a request being recorded
    dloops = [n for n, _e in whole_container_loops(f, "discoveredDependencies")]
    dep = [c for c in dep if not any(a is l_ for a in f.ancestors(c) for l_ in dloops)]
    if not dep:
        r.violation("executeTasks|dependency-recorded", "a task's input request is never recorded as a dependency of the requesting rule", f)
        return
    if len(dep) != 1:
        raise AnalysisBroken("executeTasks: %d dependency push_back sites" % len(dep))
    d = dep[0]
    a = arg_nodes(d)
    ok = expr_str(d.child("obj")) == "request.taskInfo->forRuleInfo->result.dependencies" and \
        expr_str(core(a[0])) == "request.inputRuleInfo->keyID" and expr_str(core(a[1])) == "request.orderOnly" and expr_str(core(a[2])) == "request.singleUse"
    r.check(ok, "executeTasks|dependency-roles", "", "dependency recorded with the wrong rule/key/flags: %s" % expr_str(d)[:120], f, d)
    loop = None
    for anc in f.ancestors(d):
        if anc.get("k") == "while":
            loop = anc
            break
    dpos = cfg.pos_of(f, d)
    sinks = []
    for c in f.calls():
        nm = (c.get("fn") or "").split("::")[-1]
        if nm == "push_back" and "obj" in c and loop is not None and any(x is c for x in loop.walk()):
            o = expr_str(c.child("obj"))
            if o == "finishedInputRequests" or o.endswith("requestedBy"):
                sinks.append(c)
    if len(sinks) != 2:
        raise AnalysisBroken("executeTasks: input loop has %d queueing sites" % len(sinks))
    for s in sinks:
        okd, w = cfg.dominated_by(f, cfg.pos_of(f, s), lambda p, e: p == dpos)
        # dominance from function entry is too coarse inside a loop: require no path from the request pop to the sink avoiding it
        pops = [c for c in f.calls() if (c.get("fn") or "").split("::")[-1].startswith("pop") and "obj" in c and expr_str(c.child("obj")) == "inputRequests"]
        if not pops:
            raise AnalysisBroken("executeTasks: input request pop not found")
        w2 = cfg.path_exists(f, cfg.pos_of(f, pops[0]), lambda p, e, sp=cfg.pos_of(f, s): p == sp, avoid=lambda p, e: p == dpos)
        r.check(w2 is None, "executeTasks|record-before-%s" % expr_str(s.child("obj")).split("->")[-1], "",
                "a request can be queued without being recorded as a dependency", f, s)
    # requests without a task (top-level / discovered) are not recorded: guarded by taskInfo null check
    bf = BranchFacts(f, kill_calls_of=KILL)
    st = facts_at(bf, d)
    r.check(has(st, "request.taskInfo", True), "executeTasks|only-task-requests", "", "dependency recorded for a request without a task", f, d)


def finished_take(prog, ex):
    """where executeTasks takes a completion off finishedTaskInfos: directly, or through a small helper of the engine that pops under the queue
    mutex and returns the entry (null when the queue was empty).  -> dict(site=node in ex, pop=the pop call, fn=function holding the pop,
    locked=bool, helper_ok=bool) or None"""
    Q = "finishedTaskInfos"
    direct = [c for c in ex.calls() if c.get("k") == "call" and (c.get("fn") or "").split("::")[-1].startswith("pop") and "obj" in c and expr_plain(c.child("obj")) == Q]
    if len(direct) == 1:
        ls = LockSets(ex)
        return dict(site=direct[0], pop=direct[0], fn=ex, locked="finishedTaskInfosMutex" in (ls.held_at_node(direct[0]) or set()), helper_ok=True)
    if direct:
        return None
    for c in ex.calls():
        g = prog.functions.get(c.get("fk")) if c.get("fk") else None
        if g is None or g is ex or g.is_lambda or not qmatch(g.cls, ENGINE):
            continue
        pops = [x for x in g.calls() if x.get("k") == "call" and (x.get("fn") or "").split("::")[-1].startswith("pop") and "obj" in x and expr_plain(x.child("obj")) == Q]
        if len(pops) != 1:
            continue
        ls = LockSets(g)
        bf = BranchFacts(g, kill="assign")
        pp = cfg.pos_of(g, pops[0])
        ok = True
        for rt in [n for n in g.nodes if n.get("k") == "return"]:
            after_pop = cfg.path_exists(g, pp, lambda p, e, t=cfg.pos_of(g, rt): p == t) is not None
            isnull = core(rt.child("e")) is not None and core(rt.child("e")).get("k") == "null"
            if after_pop:
                # returns the entry that was the back of the queue
                v = core(rt.child("e"))
                src = None
                if v is not None and v.get("k") == "ref":
                    for d in g.nodes:
                        if d.get("k") == "decl":
                            for vv in d.get("vars", []):
                                if vv.get("did") == v.get("did") and "init" in vv:
                                    src = expr_plain(g.nodes[vv["init"]])
                ok = ok and not isnull and src == Q + ".back()"
            else:
                ok = ok and isnull and has(facts_at(bf, rt), Q + ".empty()", True)
        return dict(site=c, pop=pops[0], fn=g, locked="finishedTaskInfosMutex" in (ls.held_at_node(pops[0]) or set()), helper_ok=ok)
    return None


def r_discovered_append(prog, rep):
    r = rep.rule("R-DISCOVERED-APPEND",
                 "discovered dependencies are appended to the rule's dependency list on every finished task, before the "
                 "result is written to the database; the discovered-dependency entry point records the key it was given", floor=3)
    f = efn(prog, "executeTasks")
    app = f.calls("DependencyKeyIDs::append")
    sr = f.calls("BuildDB::setRuleResult")
    if not sr:
        r.violation("executeTasks|result-persisted", "a finished task's result is never written to the attached database", f)
        return
    if len(sr) != 1:
        raise AnalysisBroken("executeTasks: setRuleResult=%d" % len(sr))
    app = [c for c in app if expr_str(c.child("obj")).endswith("result.dependencies") or "discoveredDependencies" in expr_str(arg_nodes(c)[0])]
    app_node = None
    if len(app) == 1:
        ok = expr_str(app[0].child("obj")).endswith("ruleInfo->result.dependencies") and "discoveredDependencies" in expr_str(arg_nodes(app[0])[0])
        r.check(ok, "executeTasks|append-roles", "", "append does not add taskInfo->discoveredDependencies to the rule's dependencies", f, app[0])
        app_node = app[0]
    elif not app:
        # the element-wise form: a loop over the discovered list that pushes every element, flags included, with nothing skipped
        loops_e = [(n, en) for n, en in whole_container_loops(f, "discoveredDependencies") if
                   any(c.get("k") == "call" and (c.get("fn") or "").endswith("DependencyKeyIDs::push_back") and expr_str(c.child("obj")).endswith("result.dependencies") for c in n.walk())]
        loops = [n for n, _e in loops_e]
        if len(loops) != 1:
            r.violation("executeTasks|append-present", "the discovered dependencies of a finished task are not added to the rule's recorded dependencies", f)
            return
        lp = loops[0]
        pb = [c for c in lp.walk() if c.get("k") == "call" and (c.get("fn") or "").endswith("DependencyKeyIDs::push_back")]
        vn = loops_e[0][1] or "dependency"
        args = [expr_str(core(a)) for a in arg_nodes(pb[0])]
        ok = len(pb) == 1 and args == ["%s.keyID" % vn, "%s.orderOnly" % vn, "%s.singleUse" % vn]
        r.check(ok, "executeTasks|append-roles", "", "element-wise append records %s" % args, f, pb[0])
        # unconditional: from the push_back up to the loop only plain blocks
        cur, plain = pb[0], True
        while True:
            par = f.parent_of(cur)
            if par is None or par is lp:
                break
            if par.get("k") not in ("compound", "cleanups", "cast"):
                plain = False
            cur = par
        skips = [x for x in lp.child("body").walk() if x.get("k") in ("continue", "break", "return", "goto")]
        r.check(plain and not skips, "executeTasks|append-complete", "", "a discovered dependency can be left out of the recorded list (the element-wise append is conditional): "
                "a key that is also recorded as an order-only or single-use input would then never trigger a re-run", f, pb[0])
        app_node = lp.child("range") if lp.get("k") == "forrange" else lp.child("c")
    else:
        raise AnalysisBroken("executeTasks: %d appends of discovered dependencies" % len(app))
    ft = finished_take(prog, f)
    if ft is None:
        raise AnalysisBroken("executeTasks: finished task pop not found")
    pops = [ft["site"]]
    apos = cfg.any_pos(f, app_node)
    w = cfg.path_exists(f, cfg.pos_of(f, pops[0]), lambda p, e, sp=cfg.pos_of(f, sr[0]): p == sp, avoid=lambda p, e: p == apos)
    r.check(w is None, "executeTasks|append-before-db-write", "", "result can be persisted without its discovered dependencies", f, sr[0])
    # and setComplete precedes the write as well (stored builtAt is this build's)
    sc = [c for c in f.calls("RuleInfo::setComplete")]
    if sc:
        spos = cfg.pos_of(f, sc[0])
        w = cfg.path_exists(f, cfg.pos_of(f, pops[0]), lambda p, e, sp=cfg.pos_of(f, sr[0]): p == sp, avoid=lambda p, e: p == spos)
        r.check(w is None, "executeTasks|complete-before-db-write", "", "result can be persisted before it is stamped complete", f, sr[0])
    # with a database attached the write is unconditional: no path from the completion stamp to the end of the task's
    # accounting (or out of the function) goes round it.  A "nothing changed" filter is wrong by construction: builtAt,
    # the times and the dependency list of a re-run are new even when value and signature are not.
    if sc:
        dec = [cfg.pos_of(f, n) for n in f.nodes if n.get("k") == "un" and n["op"] == "--" and expr_str(n.child("e")).endswith("numOutstandingUnfinishedTasks")]
        srp = cfg.pos_of(f, sr[0])
        w = cfg.path_exists_feasible(f, cfg.pos_of(f, sc[0]), lambda p, e: p in dec or e == "EXIT", avoid=lambda p, e: p == srp,
                                     infeasible=lambda a, p, al=db_aliases(f): db_is_null(a, p, al))
        r.check(w is None, "executeTasks|db-write-unconditional", "", "with a database attached a finished task's new record "
                "(builtAt, times, dependencies) can be left unwritten: the write is guarded by more than `db`", f, sr[0])
    g = efn(prog, "taskDiscoveredDependency")
    pb = g.calls("DependencyKeyIDs::push_back")
    ok = len(pb) == 1 and "discoveredDependencies" in expr_str(pb[0].child("obj"))
    if ok:
        # the recorded id derives from the `key` parameter through getKeyID (directly or through a local)
        from sa.flow import taint_closure, param_did
        t = taint_closure(g, {param_did(g, "key")})
        a0 = arg_nodes(pb[0])[0]
        via = [x for x in g.calls() if (x.get("fn") or "").endswith("getKeyID") and mentions(x, t)]
        ok = mentions(a0, t) and bool(via) and (any(x is via[0] for x in a0.walk()) or any(
            v.get("did") is not None and mentions(a0, {v["did"]}) and any(x is via[0] for x in g.nodes[v["init"]].walk())
            for d in g.nodes if d.get("k") == "decl" for v in d["vars"] if "init" in v))
    r.check(ok, "taskDiscoveredDependency|records-given-key", "", "discovered dependency does not record the key it was given", g)


QUEUE_DESTRUCTIVE = {
    # queue: {operation: functions that may perform it}   (confirmed by reading; adding to a queue and reading it are not restricted)
    "inputRequests": {"pop_front": {"executeTasks"}, "clear": {"cancelRemainingTasks"}},
    "readyTaskInfos": {"pop_front": {"executeTasks"}, "clear": {"cancelRemainingTasks"}},
    "ruleInfosToScan": {"pop_back": {"executeTasks"}, "erase": {"breakCycle"}, "clear": {"cancelRemainingTasks"}},
    "finishedInputRequests": {"pop_back": {"executeTasks"}, "clear": {"cancelRemainingTasks", "executeTasks"}},
    "finishedTaskInfos": {"pop_back": {"executeTasks"}, "clear": {"cancelRemainingTasks"}},
}
QUEUE_NONDESTRUCTIVE = {"push_back", "emplace_back", "insert", "empty", "size", "front", "back", "begin", "end", "cbegin", "cend", "iterate"}


def r_queue_ops(prog, rep):
    r = rep.rule("R-QUEUE-OPS", "the engine's work queues only grow by appending and shrink by the pop / cancel-time clear / cycle-break erase of the listed functions: "
                                "no queue is assigned, swapped, moved from or resized — an entry already queued by an earlier step of the same pass is never lost", floor=20)
    for fld, table in QUEUE_DESTRUCTIVE.items():
        for f in engine_functions(prog):
            fname = f.name.split("::")[-1] if not f.is_lambda else (f.parent or "").split("::")[-1].split("(")[0]
            for n, kind in field_accesses(f, ENGINE + "::" + fld):
                p = f.parent_of(n)
                op = None
                if p is not None and p.get("k") == "call" and "obj" in p and p.child("obj") is n:
                    op = (p.get("fn") or "").split("::")[-1]
                elif p is not None and p.get("k") == "member" and p.get("method"):
                    op = p.get("n")
                elif p is not None and p.get("k") == "forrange":
                    op = "iterate"
                elif p is not None and p.get("k") in ("bin", "call") and (p.get("op") or "").endswith("=") and p.get("op") not in ("==", "!=", "<=", ">="):
                    lhs = p.child("l") if p.get("k") == "bin" else (p.child("obj") if "obj" in p else None)
                    op = "assigned" if lhs is n else "read"
                elif p is not None and p.get("k") == "call" and (p.get("fn") or "") in ("std::move", "std::swap", "std::exchange"):
                    op = (p.get("fn") or "").split("::")[-1] + "d-from"
                elif p is not None and p.get("k") == "decl":
                    op = "iterate"          # `auto& q = queue` / range-for desugaring
                else:
                    op = "read"
                if op in ("operator="):
                    op = "assigned"
                site = "%s|%s|%s" % (fname, fld, op)
                if op in QUEUE_NONDESTRUCTIVE or op == "read":
                    r.ok(site, "", f, n)
                elif op in table:
                    allowed = fname in table[op]
                    if not allowed:
                        # a helper extracted from an allowed function (called from nowhere else) acts for it
                        callers = set(g.name.split("::")[-1] for g in engine_functions(prog) for c_ in g.calls() if c_.get("fk") == f.key)
                        allowed = bool(callers) and callers <= table[op]
                    r.check(allowed, site, "", "%s() performs %s on %s; only %s may" % (fname, op, fld, sorted(table[op])), f, n)
                else:
                    r.violation(site, "%s is %s in %s(): whatever an earlier step of this pass queued there is lost" % (fld, op, fname), f, n)


def r_fifo(prog, rep):
    r = rep.rule("R-FIFO", "inputRequests and readyTaskInfos are used strictly FIFO (push_back / front / pop_front / empty / clear): "
                           "dependency recording order relies on it", floor=2)
    for fld in ("inputRequests", "readyTaskInfos"):
        ops = set()
        for f in engine_functions(prog):
            for n, kind in field_accesses(f, ENGINE + "::" + fld):
                p = f.parent_of(n)
                if p is not None and p.get("k") == "call" and "obj" in p and p.child("obj") is n:
                    ops.add((p.get("fn") or "").split("::")[-1])
                elif p is not None and p.get("k") == "forrange":
                    ops.add("iterate")
        r.check(ops <= {"push_back", "front", "pop_front", "empty", "clear"} and {"push_back", "front", "pop_front"} <= ops,
                "%s|ops" % fld, "%s" % sorted(ops), "%s is used with %s" % (fld, sorted(ops)))


def r_fresh_value(prog, rep):
    r = rep.rule("R-FRESH-VALUE",
                 "Task::provideValue is called only from the finished-input loop with the requested rule's current "
                 "result.value and key; a request enters finishedInputRequests only (i) when demandRule returned true, "
                 "(ii) from the requestedBy list of a task being finished, (iii) in cycle breaking after the delegate agreed", floor=5)
    sites = []
    for f in engine_functions(prog):
        for c in f.calls("Task::provideValue"):
            sites.append((f, c))
    if len(sites) != 1 or sites[0][0].name.split("::")[-1] != "executeTasks":
        r.violation("provideValue|single-site", "provideValue is called from %s" % [s[0].name for s in sites])
    else:
        f, c = sites[0]
        a = arg_nodes(c)
        ok = expr_str(core(a[3])) == "request.inputRuleInfo->result.value" and "request.inputRuleInfo->rule" in expr_str(a[2]) and \
            expr_str(core(a[1])) == "request.inputID" and "request.taskInfo->task" in expr_str(c.child("obj"))
        r.check(ok, "provideValue|arguments", "", "provideValue passes %s" % expr_str(c)[:140], f, c)
        bf = BranchFacts(f, kill_calls_of=KILL)
        r.check(has(facts_at(bf, c), "request.orderOnly", False), "provideValue|not-for-order-only", "", "provideValue reachable for an order-only request", f, c)
    # entries into finishedInputRequests
    f = efn(prog, "executeTasks")
    bf = BranchFacts(f, kill_calls_of=KILL)
    ins = []
    for g in engine_functions(prog):
        for c in g.calls():
            nm = (c.get("fn") or "").split("::")[-1]
            if nm in ("push_back", "insert", "emplace_back") and "obj" in c and expr_str(c.child("obj")) == "finishedInputRequests":
                ins.append((g, c))
    kinds = set()
    for g, c in ins:
        gname = g.name.split("::")[-1]
        if gname == "executeTasks" and (c.get("fn") or "").endswith("push_back"):
            ok = has(facts_at(bf, c), "isAvailable", True)
            # isAvailable is the result of demandRule on the requested rule
            decl = [v for d in f.nodes if d.get("k") == "decl" for v in d["vars"] if v["n"] == "isAvailable" and
                    any(x is c for x in (loop_of(f, d) or d).walk())]
            ok = ok and bool(decl) and expr_str(f.nodes[decl[0]["init"]]).startswith("demandRule(") and "request.inputRuleInfo" in expr_str(f.nodes[decl[0]["init"]])
            r.check(ok, "finishedInputRequests|available-input", "", "request finished without demandRule having reported the input available", g, c)
            kinds.add("available")
        elif gname == "executeTasks":
            ok = "taskInfo->requestedBy" in expr_str(c) and cfg.path_exists(
                f, cfg.entry_pos(f), lambda p, e, sp=cfg.pos_of(f, c): p == sp,
                avoid=call_pred(f, "RuleInfo::setComplete")) is None
            r.check(ok, "finishedInputRequests|waiters-of-finished-task", "", "waiters released before the producing rule is complete", g, c)
            kinds.add("waiters")
        elif gname == "breakCycle":
            bg = BranchFacts(g, kill_calls_of=KILL)
            ok = has(facts_at(bg, c), "shouldResolveCycle", True)
            r.check(ok, "finishedInputRequests|cycle-prior-value", "", "prior value supplied without the delegate's consent", g, c)
            kinds.add("cycle")
        else:
            r.violation("finishedInputRequests|%s" % gname, "unexpected producer of finished input requests", g, c)
    if kinds != {"available", "waiters", "cycle"}:
        r.violation("finishedInputRequests|producers", "producers found: %s" % sorted(kinds))


def loop_of(f, n):
    for a in f.ancestors(n):
        if a.get("k") in ("while", "for", "do"):
            return a
    return None


def r_singleuse_bits(prog, rep):
    r = rep.rule("R-SINGLEUSE", "scanRule drops single-use dependencies before it reads the dependency list; the flag byte is written and "
                                "read with the same bit positions (orderOnly bit 0, singleUse bit 1)", floor=5)
    f = efn(prog, "scanRule")
    cl = f.calls("cleanSingleUseDependencies")
    reads = [c for c in f.calls() if "obj" in c and expr_str(c.child("obj")).endswith("result.dependencies") and c not in cl]
    ok = len(cl) == 1 and bool(reads)
    for rd in reads:
        ok = ok and cfg.dominated_by(f, cfg.pos_of(f, rd), lambda p, e: cfg.elem_node(f, e) is cl[0])[0]
    r.check(ok, "scanRule|clean-before-read", "", "dependency list read before single-use entries are dropped", f)
    D = "DependencyKeyIDs"
    for meth in ("push_back", "set"):
        g = prog.fn(D + "::" + meth)
        # (singleUseFlag << 1) | orderOnlyFlag
        ors = [n for n in g.nodes if n.get("k") == "bin" and n["op"] in ("|", "+")]
        env_ = {}
        if not ors:
            # the packing may sit in a small static helper: `flags[n] = packFlags(orderOnlyFlag, singleUseFlag)`
            for c_ in g.calls():
                h_ = prog.functions.get(c_.get("fk")) if c_.get("fk") else None
                if h_ is not None and h_ is not g and h_.cls == g.cls and [n for n in h_.nodes if n.get("k") == "bin" and n["op"] in ("|", "+")]:
                    ors = [n for n in h_.nodes if n.get("k") == "bin" and n["op"] in ("|", "+")]
                    env_ = {p_["n"]: expr_str(core(a_)) for p_, a_ in zip(h_.params, arg_nodes(c_)) if a_ is not None}
                    break
        ok = False
        if len(ors) == 1:
            l, rr = core(ors[0].child("l")), core(ors[0].child("r"))
            def sh(x):
                x = core(x)
                if x.get("k") == "bin" and x["op"] == "<<":
                    nm_ = expr_str(core(x.child("l")))
                    return (env_.get(nm_, nm_), core(x.child("r")).get("v"))
                nm_ = expr_str(x)
                return (env_.get(nm_, nm_), 0)
            parts = dict([sh(l), sh(rr)])
            ok = parts == {"singleUseFlag": 1, "orderOnlyFlag": 0}
        r.check(ok, "%s::%s|flag-bits" % (D, meth), "", "flag byte not built as (singleUse << 1) | orderOnly", g)
    for meth, bit in (("orderOnly", 0), ("singleUse", 1)):
        g = [x for x in prog.fns(D + "::" + meth)]
        if len(g) != 1:
            raise AnalysisBroken("reader %s not found" % meth)
        g = g[0]
        ret = [n for n in g.nodes if n.get("k") == "return"][0]
        e = core(ret.child("e"))
        got = None
        if e.get("k") == "bin" and e["op"] == "&" and core(e.child("r")).get("v") == 1:
            inner = core(e.child("l"))
            if inner.get("k") == "bin" and inner["op"] == ">>":
                got = core(inner.child("r")).get("v")
            else:
                got = 0
        r.check(got == bit, "%s::%s|flag-bit" % (D, meth), "", "%s reads bit %s, writer puts it at bit %d" % (meth, got, bit), g)
    g = prog.fn(D + "::operator[]")
    il = [n for n in g.nodes if n.get("k") == "initlist"]
    shape = []
    if len(il) == 1:
        for a in arg_nodes(il[0]):
            a = core(a)
            if a.get("k") == "call":
                nm = (a.get("fn") or "").split("::")[-1]
                shape.append("keys[]" if nm == "operator[]" and "keys" in expr_str(a) else nm)
            else:
                shape.append(expr_str(a))
    fields = [fl["n"] for fl in prog.record("DependencyKeyIDs::KeyIDAndFlags")["fields"]]
    ok = shape == ["keys[]", "orderOnly", "singleUse"] and fields == ["keyID", "orderOnly", "singleUse"]
    r.check(ok, "%s::operator[]|field-order" % D, "", "operator[] builds {key, orderOnly, singleUse} from %s" % ([expr_str(core(a)) for a in arg_nodes(il[0])] if il else None), g)


def r_invalid_window(prog, rep):
    r = rep.rule("R-INVALID-WINDOW",
                 "creating a task clears the rule's recorded dependencies, so its result is invalid until the task "
                 "finishes: every function that takes a rule out of the in-progress state (clears its pending task) must on "
                 "the same path either mark it complete or invalidate result.builtAt", floor=2)
    n_sites = 0
    for f in engine_functions(prog):
        for c in f.calls("RuleInfo::setPendingTaskInfo"):
            a = arg_nodes(c)
            if not a or core(a[0]).get("k") != "null":
                continue
            n_sites += 1
            fname = f.name.split("::")[-1]

            def settles(p, e, f=f):
                n = cfg.elem_node(f, e)
                if n is None:
                    return False
                if n.get("k") == "call" and (n.get("fn") or "").endswith("RuleInfo::setComplete"):
                    return True
                if n.get("k") == "bin" and n["op"] == "=" and expr_str(n.child("l")).endswith("result.builtAt") and core(n.child("r")).get("v") == 0:
                    return True
                return False
            # within the same loop iteration / before leaving the function
            lp = loop_of(f, c)
            start = cfg.pos_of(f, c)
            if lp is not None:
                head = first_pos(f, lp)
                w = cfg.path_exists(f, start, lambda p, e, head=head: e == "EXIT" or p == head, avoid=settles)
            else:
                w = cfg.path_exists(f, start, cfg.is_exit, avoid=settles)
            r.check(w is None, "%s|pending-task-cleared" % fname, "", "rule leaves the in-progress state with its stale builtAt and a truncated dependency list", f, c)
    if n_sites < 2:
        raise AnalysisBroken("only %d sites clear a pending task" % n_sites)


def first_pos(f, stmt):
    pos = f.elem_pos()
    best = None
    for x in stmt.walk():
        p = pos.get(x["id"])
        if p is not None:
            key = (-p[0], p[1])
            if best is None or key < best[0]:
                best = (key, p)
    return best[1] if best else None


# ------------------------------------------------------------------  C02
STATE_TABLE = {
    ("scanRule", "NeedsToRun"), ("scanRule", "DoesNotNeedToRun"), ("scanRule", "IsScanning"),
    ("demandRule", "InProgressWaiting"), ("finishScanRequest", "newState"),
    ("setComputing", "InProgressComputing"), ("setComplete", "Complete"), ("setCancelled", "Incomplete"),
}


def r_create_once(prog, rep):
    r = rep.rule("R-CREATE-ONCE",
                 "Rule::createTask has one engine call site, reached only for a rule that is not complete at this epoch, not "
                 "in progress and not DoesNotNeedToRun, and followed on every path by the transition to InProgressWaiting; "
                 "every write of RuleInfo::state is one of the frozen transition table", floor=10)
    sites = [(f, c) for f in engine_functions(prog) for c in f.calls("Rule::createTask")]
    if len(sites) != 1:
        r.violation("createTask|single-site", "createTask called from %d sites" % len(sites))
        return
    f, c = sites[0]
    bf = BranchFacts(f, kill_calls_of=KILL)
    st = facts_at(bf, c)
    r.check(has(st, "isComplete", False), "createTask|not-complete", "", "task created for a rule already complete in this build", f, c)
    r.check(has(st, "isInProgress", False), "createTask|not-in-progress", "", "task created for a rule already in progress", f, c)
    r.check(has(st, "DoesNotNeedToRun", True, ("!=",)), "createTask|needs-to-run", "", "task created for a rule that does not need to run", f, c)

    def to_waiting(p, e):
        n = cfg.elem_node(f, e)
        return n is not None and n.get("k") == "bin" and n["op"] == "=" and expr_str(n.child("l")).endswith(".state") and \
            expr_str(core(n.child("r"))).endswith("InProgressWaiting")
    ok, w = cfg.must_pass_through(f, cfg.pos_of(f, c), to_waiting)
    r.check(ok, "createTask|then-in-progress", "", "a path leaves after createTask without marking the rule in progress", f, c)
    for g, n, v in state_writes(prog):
        gname = g.name.split("::")[-1]
        v = v.split("::")[-1]
        site = "state|%s=%s" % (gname, v)
        if (gname, v) in STATE_TABLE:
            r.ok(site, "", g, n)
        else:
            r.violation(site, "RuleInfo::state is set to %s in %s, which is not a transition of the table" % (v, gname), g, n)
    # finishScanRequest(newState) is only called with NeedsToRun / DoesNotNeedToRun
    for g in engine_functions(prog):
        for c in g.calls("finishScanRequest"):
            v = expr_str(core(arg_nodes(c)[1])).split("::")[-1]
            r.check(v in ("NeedsToRun", "DoesNotNeedToRun"), "state|finishScanRequest(%s)@%s" % (v, g.name.split("::")[-1]), "",
                    "scan finished with state %s" % v, g, c)
    # the ready loop is the only caller of setComputing / inputsAvailable
    ia = [(g, c) for g in engine_functions(prog) for c in g.calls("Task::inputsAvailable")]
    r.check(len(ia) == 1 and ia[0][0].name.endswith("executeTasks"), "inputsAvailable|single-site", "", "inputsAvailable called from %d sites" % len(ia))


REASONS = {
    "NeverBuilt": lambda st: has(st, "builtAt", True, ("==", "0")),
    "SignatureChanged": lambda st: has(st, "signature", True, ("!=",)),
    "InvalidValue": lambda st: has(st, "isResultValid", False),
    "InputRebuilt": lambda st: has(st, "builtAt", True, ("<", "computedAt")),
}


def r_reason_table(prog, rep):
    r = rep.rule("R-REASON-TABLE",
                 "each determinedRuleNeedsToRun(rule, reason, input) call reports the reason whose guard holds at the call "
                 "(NeverBuilt: builtAt == 0; SignatureChanged: signatures differ; InvalidValue: !isResultValid; InputRebuilt: "
                 "builtAt < input.computedAt with that input's rule as third argument; Forced: cycle breaking), and every "
                 "transition to NeedsToRun is followed by exactly one such report", floor=8)
    calls = [(f, c) for f in engine_functions(prog) for c in f.calls("determinedRuleNeedsToRun")]
    seen = set()
    for f, c in calls:
        a = arg_nodes(c)
        reason = expr_str(core(a[1])).split("::")[-1]
        fname = f.name.split("::")[-1]
        site = "%s|%s" % (fname, reason)
        seen.add(reason)
        bf = BranchFacts(f, kill_calls_of=KILL)
        # the guard is evaluated where the rule is marked NeedsToRun (the transition the report belongs to)
        tr = [n for n in f.nodes if is_needs_to_run_transition(n)]
        tr = [n for n in tr if cfg.path_exists(f, cfg.pos_of(f, n), lambda p, e, cp=cfg.pos_of(f, c): p == cp) is not None and
              cfg.dominated_by(f, cfg.pos_of(f, c), lambda p, e, n=n: cfg.elem_node(f, e) is n)[0]]
        at = tr[-1] if tr else c
        st = facts_at(bf, at)
        if reason in REASONS:
            r.check(REASONS[reason](st), site + "|guard", "", "reason %s reported where its condition is not established" % reason, f, c)
            if reason == "InputRebuilt":
                r.check(expr_str(core(a[2])) == "inputRuleInfo.rule.get()" and expr_str(core(a[0])) == "ruleInfo.rule.get()", site + "|input-arg", "",
                        "InputRebuilt reported with %s / %s" % (expr_str(a[0]), expr_str(a[2])), f, c)
            else:
                r.check(core(a[2]).get("k") == "null", site + "|no-input", "", "reason %s reported with an input rule" % reason, f, c)
        elif reason == "Forced":
            r.check(fname == "breakCycle" and has(st, "shouldResolveCycle", True), site + "|guard", "", "Forced reported outside consented cycle breaking", f, c)
        else:
            r.violation(site, "unknown run reason %s" % reason, f, c)
    enum = [e["n"] for e in prog.enum("Rule::RunReason")["enumerators"]]
    r.check(set(enum) == seen, "reasons|all-reported", "%s" % sorted(seen), "run reasons %s vs reported %s" % (sorted(enum), sorted(seen)))
    # every NeedsToRun transition is followed by a report, every report preceded by a transition
    for f in engine_functions(prog):
        for n in f.nodes:
            is_tr = (n.get("k") == "bin" and n["op"] == "=" and expr_str(n.child("l")).endswith(".state") and expr_str(core(n.child("r"))).endswith("NeedsToRun")) or \
                (n.get("k") == "call" and (n.get("fn") or "").endswith("finishScanRequest") and expr_str(core(arg_nodes(n)[1])).endswith("NeedsToRun"))
            if not is_tr:
                continue
            ok, w = cfg.must_pass_through(f, cfg.pos_of(f, n), call_pred(f, "determinedRuleNeedsToRun"))
            fname = f.name.split("::")[-1]
            r.check(ok, "%s|needs-to-run-reported@%s" % (fname, n.line and nth(f, n)), "", "rule marked NeedsToRun without a reported reason", f, n)


def is_needs_to_run_transition(n):
    return (n.get("k") == "bin" and n["op"] == "=" and expr_str(n.child("l")).endswith(".state") and expr_str(core(n.child("r"))).endswith("NeedsToRun")) or \
        (n.get("k") == "call" and (n.get("fn") or "").endswith("finishScanRequest") and expr_str(core(arg_nodes(n)[1])).endswith("NeedsToRun"))


def nth(f, n):
    same = [x for x in f.nodes if x.get("k") == n.get("k") and expr_str(x) == expr_str(n)]
    same.sort(key=lambda x: x.line)
    return same.index(n)


def r_orderonly_guard(prog, rep):
    r = rep.rule("R-ORDERONLY-GUARD", "the staleness comparison is evaluated only for requests that are not order-only", floor=1)
    f = efn(prog, "processRuleScanRequest")
    bf = BranchFacts(f, kill_calls_of=KILL)
    cmps = [n for n in f.nodes if n.get("k") == "bin" and n["op"] in ("<", ">", "<=", ">=") and "computedAt" in expr_str(n)]
    if not cmps:
        r.violation("processRuleScanRequest|not-order-only", "the scan no longer compares builtAt with the input's computedAt: a changed input never re-runs its dependents", f)
        return
    if len(cmps) != 1:
        raise AnalysisBroken("processRuleScanRequest: %d staleness comparisons" % len(cmps))
    r.check(has(facts_at(bf, cmps[0]), "request.orderOnly", False), "processRuleScanRequest|not-order-only", "",
            "order-only dependency can trigger a re-run", f, cmps[0])
    # the flag comes from the recorded dependency
    asg = [n for n in f.nodes if n.get("k") == "bin" and n["op"] == "=" and expr_str(n.child("l")) == "request.orderOnly"]
    r.check(any(expr_str(core(n.child("r"))) == "keyAndFlag.orderOnly" for n in asg), "processRuleScanRequest|flag-from-record", "",
            "request.orderOnly is not taken from the recorded dependency", f)


# =====================================================================  C05
def r_cancel_drain(prog, rep):
    r = rep.rule("R-CANCEL-DRAIN",
                 "the cancellation routine touches rule/task state only after the drain loop has seen "
                 "numOutstandingUnfinishedTasks == 0; its wait tests finishedTaskInfos.empty() and waits in one critical "
                 "section of finishedTaskInfosMutex", floor=8)
    f = efn(prog, "cancelRemainingTasks")
    bf = BranchFacts(f, kill="assign")
    touched = []
    for n in f.nodes:
        if n.get("k") == "call":
            nm = (n.get("fn") or "").split("::")[-1]
            if nm in ("setCancelled", "setPendingTaskInfo") or (nm == "clear" and "obj" in n and core(n.child("obj")).get("k") == "member"
                                                                and expr_str(core(n.child("obj"))) != "finishedTaskInfos"):
                touched.append(n)
        if n.get("k") == "bin" and n["op"] == "=" and "result." in expr_str(n.child("l")):
            touched.append(n)
    for n in touched:
        st = facts_at(bf, n)
        r.check(has(st, "numOutstandingUnfinishedTasks", True, ("==", "0")), "cancelRemainingTasks|after-drain|%s" % expr_str(n)[:50].replace("cast<(anonymous namespace)::BuildEngineImpl::TaskInfo *>", ""), "",
                "state modified while tasks may still be reporting", f, n)
    cv_wait_protocol(prog, r, f, "cancelRemainingTasks")


def cv_wait_protocol(prog, r, f, fname):
    ls = LockSets(f)
    bf = BranchFacts(f, kill="assign")
    waits = [c for c in f.calls() if (c.get("fn") or "").split("::")[-1] == "wait" and "finishedTaskInfosCondition" in expr_str(c.child("obj"))]
    if not waits:
        raise AnalysisBroken("%s: wait on finishedTaskInfosCondition not found" % fname)
    for i, w in enumerate(waits):
        held = ls.held_at_node(w) or set()
        st = facts_at(bf, w)
        ok = "finishedTaskInfosMutex" in held and has(st, "finishedTaskInfos.empty()", True)
        # the emptiness test itself ran under the same lock (no unlock in between: the guard object is the lock argument)
        tests = [c for c in f.calls("empty") if expr_str(c.child("obj")) == "finishedTaskInfos" and
                 cfg.dominated_by(f, cfg.pos_of(f, w), lambda p, e, c=c: cfg.elem_node(f, e) is c)[0]]
        ok = ok and bool(tests) and all("finishedTaskInfosMutex" in (ls.held_at_node(t) or set()) for t in tests)
        r.check(ok, "%s|wait-protocol#%d" % (fname, i), "", "wait is not preceded by the emptiness test under finishedTaskInfosMutex (lost wake-up)", f, w)


ENGINE_QUEUES_EXEMPT = {
    "keyTable": "interning table, lives as long as the engine",
    "ruleInfos": "rule table, lives as long as the engine",
    "cancellationDelegates": "registered by clients, removed by clients",
    "freeRuleScanRecords": "scan-record allocator, released by the build-scoped defer in build()",
    "ruleScanRecordBlocks": "scan-record allocator, released by the build-scoped defer in build()",
}


def r_cancel_clears(prog, rep):
    r = rep.rule("R-CANCEL-CLEARS", "every engine work queue that any engine function pushes to is cleared by the cancellation routine", floor=6)
    pushed = {}
    for f in engine_functions(prog):
        for n in f.nodes:
            if n.get("k") == "call" and "obj" in n and (n.get("fn") or "").split("::")[-1] in ("push_back", "insert", "emplace", "emplace_back"):
                o = core(n.child("obj"))
                if o is not None and o.get("k") == "member" and o.get("qn", "").startswith("(anonymous namespace)::BuildEngineImpl::") and \
                        o.get("qn").count("::") == 2 and core(o.child("b")).get("k") == "this":
                    pushed.setdefault(o["n"], f)
    f = efn(prog, "cancelRemainingTasks")
    cleared = set(expr_str(core(c.child("obj"))) for c in f.calls("clear") if "obj" in c)
    for fld, g in sorted(pushed.items()):
        if fld in ENGINE_QUEUES_EXEMPT:
            r.exempt("queue|%s" % fld, ENGINE_QUEUES_EXEMPT[fld])
        else:
            r.check(fld in cleared, "queue|%s" % fld, "", "queue %s (pushed in %s) is not cleared on cancellation" % (fld, g.name.split("::")[-1]), f)
    # every in-flight rule is reset: tasks' rules and scanning rules
    ok = len(f.calls("RuleInfo::setCancelled")) >= 2 and any(fr.get("k") == "forrange" and expr_str(fr.child("range")) == "taskInfos" for fr in f.nodes) and \
        any(fr.get("k") == "forrange" and expr_str(fr.child("range")) == "ruleInfos" for fr in f.nodes)
    r.check(ok, "rules|in-flight-reset", "", "cancellation does not reset both the rules with tasks and the rules being scanned", f)


def r_cancel_on_exit(prog, rep):
    r = rep.rule("R-CANCEL-ON-EXIT",
                 "every `return false` of the work loop is preceded in its iteration by the cancellation routine; the cancel "
                 "flag is tested at the top of every iteration, before any task can be started or told its inputs are ready", floor=4)
    f = efn(prog, "executeTasks")
    outer = [n for n in f.nodes if n.get("k") == "while" and core(n.child("c")).get("k") == "bool"]
    outer = [n for n in outer if not any(a.get("k") in ("while", "for", "do") for a in f.ancestors(n))]
    if len(outer) != 1:
        raise AnalysisBroken("executeTasks: outer loop not found")
    head = first_pos(f, outer[0].child("body"))
    rets = [n for n in f.nodes if n.get("k") == "return" and core(n.child("e")).get("k") == "bool" and core(n.child("e"))["v"] is False]
    for i, x in enumerate(rets):
        w = cfg.path_exists(f, (head[0], head[1] - 1), lambda p, e, xp=cfg.pos_of(f, x): p == xp, avoid=call_pred(f, ENGINE + "::cancelRemainingTasks"))
        r.check(w is None, "executeTasks|return-false#%d" % i, "", "work loop abandoned without cancelling the remaining tasks", f, x)
    # the flag test dominates task activity in the iteration
    # exit tests: `if (buildCancelled)` whose taken arm cancels and returns
    tests = [b for b in f.blocks.values() if b.cond() is not None and b.term is not None and b.term.get("cls") == "IfStmt" and
             expr_plain(b.effective_cond()) in ("buildCancelled", "buildCancelled.load()", "buildCancelled.operator bool()")]
    r.check(len(tests) >= 1, "executeTasks|cancel-flag-tested", "%d exit test(s)" % len(tests), "the work loop never tests buildCancelled", f)
    if tests:
        tps = set(cfg.term_pos(f, b.id) for b in tests)
        for nm in ("Task::inputsAvailable", ENGINE + "::demandRule", ENGINE + "::processRuleScanRequest"):
            for c in f.calls(nm):
                w = cfg.path_exists(f, (head[0], head[1] - 1), lambda p, e, cp=cfg.pos_of(f, c): p == cp, avoid=lambda p, e: p in tps)
                r.check(w is None, "executeTasks|flag-before-%s" % nm.split("::")[-1], "", "work started in an iteration before the cancel flag is looked at", f, c)
    # cancellation is honoured only at the iteration boundary: inside an iteration every queue is drained, so that no rule is left
    # scanned-but-not-demanded (NeedsToRun / DoesNotNeedToRun) when cancelRemainingTasks -- which resets only scanning rules and
    # rules with a task -- runs.  Any other read of the flag on the engine thread's work path cuts an iteration short.
    work = [f] + [g for nm in ("processRuleScanRequest", "scanRule", "demandRule", "finishScanRequest", "processFinishedInputRequest") for g in
                  [x for x in engine_functions(prog) if x.name.endswith("::" + nm) and not x.is_lambda]]
    reads = []
    for g in work:
        for n in g.nodes:
            if n.get("k") == "member" and n.get("n") == "buildCancelled":
                p_ = g.parent_of(n)
                while p_ is not None and p_.get("k") in ("cast", "call") and (p_.get("k") == "cast" or (p_.get("fn") or "").split("::")[-1] in ("operator bool", "load")):
                    n, p_ = p_, g.parent_of(p_)
                is_write = p_ is not None and ((p_.get("k") == "bin" and p_.get("op") == "=" and p_.get("l") == n["id"]) or
                                               (p_.get("k") == "call" and p_.get("op") == "=" and p_.get("obj") == n["id"]))
                if not is_write:
                    reads.append((g, n))
    cond_ids = set(x["id"] for b in tests for x in b.cond().walk())
    head_blocks = set(b.id for b in tests if cfg.path_exists(
        f, (head[0], head[1] - 1), lambda p, e, tp=cfg.term_pos(f, b.id): p == tp,
        avoid=lambda p, e: cfg.elem_node(f, e) is not None and cfg.elem_node(f, e).get("k") == "call" and cfg.elem_node(f, e)["id"] not in cond_ids) is not None)
    stray = [(g, n) for g, n in reads if not (g is f and any(any(x is n or x["id"] == n["id"] for x in b.cond().walk()) for b in tests if b.id in head_blocks))]
    r.check(bool(reads) and not stray, "executeTasks|cancel-only-at-iteration-boundary", "%d read(s)" % len(reads),
            "buildCancelled is consulted inside an iteration (%s): queues are left half-drained and scanned rules undemanded when the build is abandoned" %
            ", ".join("%s:%s" % (g.name.split("::")[-1], n.get("ln")) for g, n in stray), f, stray[0][1] if stray else None)
    g = efn(prog, "build")
    bf = BranchFacts(g, kill="assign")
    rv = [n for n in g.nodes if n.get("k") == "return" and "result.value" in expr_str(n.child("e"))]
    r.check(len(rv) == 1 and has(facts_at(bf, rv[0]), "success", True), "build|value-only-on-success", "", "build() can return a rule value after a failed/cancelled run", g)


# =====================================================================  C06
LOCK_TABLE = {
    "finishedTaskInfos": "finishedTaskInfosMutex",
    "inputRequests": "inputRequestsMutex",
    "taskInfos": "taskInfosMutex",
    "keyTable": "keyTableMutex",
    "executionQueue": "executionQueueMutex",
    "cancellationDelegates": "executionQueueMutex",
}
LOCK_EXEMPT = {
    ("executeTasks", "inputRequests", "write"): ("seed", "seeding the first request before the work loop: no task exists yet"),
    ("cancelRemainingTasks", "inputRequests", "write"): ("drain", "after the drain loop no task is outstanding"),
    ("cancelRemainingTasks", "finishedTaskInfos", "write"): ("drain-final", "final clear after the drain loop: no task is outstanding"),
    ("executeTasks", "taskInfos", "read"): ("engine-thread", "the engine thread is the only writer of taskInfos"),
    ("getExecutionQueue", "executionQueue", "read"): ("queue-lifetime", "pointer is set before the first task starts and reset only after the queue destructor joined every lane"),
    ("getKeyForID", "keyTable", "read"): ("stable-entries", "does not touch the table: maps an entry pointer back to its key"),
}


def r_lockset(prog, rep):
    r = rep.rule("R-LOCKSET", "engine state shared with task threads is accessed under its mutex (writes always, reads unless exempt with a reason)", floor=20)
    fns = [f for f in engine_functions(prog) if qmatch(f.cls, ENGINE) or ENGINE in (f.parent or "")]
    entry = entry_locksets(prog, fns)
    for f in fns:
        ls = LockSets(f, entry.get(f.key, frozenset()))
        fname = f.name.split("::")[-1] if not f.is_lambda else (f.parent or "").split("::")[-1].split("(")[0] + "::lambda"
        for fld, mutex in LOCK_TABLE.items():
            for n, kind in field_accesses(f, ENGINE + "::" + fld):
                if f.raw.get("ctor") or f.raw.get("dtor"):
                    continue
                site = "%s|%s|%s" % (fname, fld, kind)
                held = ls.held_at_node(n)
                if held is None:
                    continue
                if mutex in held:
                    r.ok(site, "", f, n)
                    continue
                ex = LOCK_EXEMPT.get((fname, fld, kind))
                if ex and exempt_applies(prog, f, n, ex[0]):
                    r.exempt(site, ex[1], f, n)
                else:
                    r.violation(site, "%s of %s without %s (held: %s)" % (kind, fld, mutex, sorted(held)), f, n)
    # lock order: nested acquisitions use a consistent order
    pairs = set()
    for f in fns:
        ls = LockSets(f, entry.get(f.key, frozenset()))
        for b in f.blocks.values():
            for j, e in enumerate(b.raw_elems):
                from sa.lockset import _lock_decl
                ld = _lock_decl(f, e)
                if ld:
                    for h in (ls.held_at((b.id, j)) or set()):
                        pairs.add((h, ld[2]))
    bad = [(a, b) for (a, b) in pairs if (b, a) in pairs and a < b]
    r.check(not bad, "lock-order", "%d nested pairs, consistent" % len(pairs), "mutexes acquired in both orders: %s" % bad)


THREAD_CONFINED = ("ruleInfos", "ruleInfosToScan", "readyTaskInfos", "finishedInputRequests", "numOutstandingUnfinishedTasks", "db",
                   "freeRuleScanRecords", "ruleScanRecordBlocks", "currentBlockPos", "currentBlockEnd")
CROSS_THREAD_ENTRIES = ("taskIsComplete", "taskDiscoveredDependency")


def r_thread_confined(prog, rep):
    r = rep.rule("R-THREAD-CONFINED",
                 "the two entry points the API documents as callable from any thread (completion, discovered dependency) reach — through "
                 "every engine function they call — none of the state that has no mutex because only the engine thread touches it (the rule "
                 "table, scan and ready queues, outstanding-task count, the database handle), and never the delegate's rule lookup", floor=2)
    from sa.callgraph import CallGraph
    cg = CallGraph(prog)
    for nm in CROSS_THREAD_ENTRIES:
        f = efn(prog, nm)
        reach = [prog.functions[k] for k in cg.reachable_from(f.key) if k in prog.functions]
        eng = [g for g in reach if qmatch(g.cls or "", ENGINE) or ENGINE in (g.parent or "")]
        bad = []
        for g in eng:
            for fld in THREAD_CONFINED:
                for n, kind in field_accesses(g, ENGINE + "::" + fld):
                    bad.append((g, n, "%s of engine-thread-only %s" % (kind, fld)))
            for c in g.calls():
                fnm = c.get("fn") or ""
                if c.get("k") == "call" and (qmatch(fnm, "BuildEngineDelegate::lookupRule") or fnm.split("::")[-2:-1] == ["BuildDB"]):
                    bad.append((g, c, "call of %s" % fnm.split("(")[0]))
        if bad:
            for g, n, what in bad[:4]:
                r.violation("%s|engine-thread-state" % nm, "%s in %s, reachable from the any-thread entry point %s" % (what, g.name.split("::")[-1], nm), g, n)
        else:
            r.ok("%s|engine-thread-state" % nm, "%d engine functions reachable: %s" % (len(eng), sorted(g.name.split("::")[-1] for g in eng)), f)


def exempt_applies(prog, f, n, kind):
    if kind == "seed":
        # before the work loop
        lp = loop_of(f, n)
        return lp is None
    if kind in ("drain", "drain-final"):
        bf = BranchFacts(f, kill="assign")
        return has(facts_at(bf, n), "numOutstandingUnfinishedTasks", True, ("==", "0"))
    return True


def r_cv_protocol(prog, rep):
    r = rep.rule("R-CV-PROTOCOL", "both waits on the finished-task condition test the queue under the mutex in the same critical section; the "
                                  "completion entry point pushes under the mutex and notifies on every path", floor=3)
    cv_wait_protocol(prog, r, efn(prog, "executeTasks"), "executeTasks")
    cv_wait_protocol(prog, r, efn(prog, "cancelRemainingTasks"), "cancelRemainingTasks")
    f = efn(prog, "taskIsComplete")
    ls = LockSets(f)
    push = [c for c in f.calls("push_back") if expr_str(c.child("obj")) == "finishedTaskInfos"]
    ok = len(push) == 1 and "finishedTaskInfosMutex" in (ls.held_at_node(push[0]) or set())
    if ok:
        thr, w = cfg.must_pass_through(f, cfg.pos_of(f, push[0]), lambda p, e: is_call(f, e, ["notify_one", "notify_all"]))
        ok = thr
    r.check(ok, "taskIsComplete|push-then-notify", "", "finished task is not pushed under the mutex and followed by a notify on every path", f)


def r_hb_result(prog, rep):
    r = rep.rule("R-HB-RESULT", "the cross-thread writes of result.value / signature / computedAt in the completion entry point all precede the "
                                "locked push that publishes the task; the engine reads them only after popping under that lock", floor=2)
    f = efn(prog, "taskIsComplete")
    push = [c for c in f.calls("push_back") if expr_str(c.child("obj")) == "finishedTaskInfos"]
    writes = [n for n in f.nodes if (n.get("k") == "bin" and n["op"] == "=" or n.get("k") == "call" and n.get("op") == "=") and
              "result." in expr_str(n.child("l") if n.get("k") == "bin" else n.child("obj"))]
    ok = len(push) == 1 and len(writes) >= 3
    if ok:
        pp = cfg.pos_of(f, push[0])
        for wn in writes:
            wp = cfg.pos_of(f, wn)
            if cfg.path_exists(f, pp, lambda p, e, wp=wp: p == wp) is not None:
                ok = False
    r.check(ok, "taskIsComplete|writes-before-publish", "%d result writes" % len(writes), "a result field is written after the task was published", f)
    g = efn(prog, "executeTasks")
    sc = g.calls("RuleInfo::setComplete")
    ft = finished_take(prog, g)
    ok = ft is not None and ft["locked"] and ft["helper_ok"] and bool(sc)
    r.check(ok, "executeTasks|pop-under-lock", "", "finished task popped without the mutex", g)


def r_protocol_order(prog, rep):
    r = rep.rule("R-PROTOCOL-ORDER",
                 "task protocol: start precedes providePriorValue (given only with a prior result of the same signature), both "
                 "precede any enqueue to the ready list; a task is readied only with waitCount == 0; inputsAvailable is called "
                 "only after setComputing; the wait count is incremented in the critical section that queues the request; the "
                 "completion and discovered-dependency entry points reject calls unless the rule is computing", floor=9)
    f = efn(prog, "demandRule")
    bf = BranchFacts(f, kill_calls_of=KILL)
    st_ = f.calls("Task::start")
    pv = f.calls("Task::providePriorValue")
    rd = [c for c in f.calls("push_back") if expr_str(c.child("obj")) == "readyTaskInfos"]
    if not st_ or not pv or not rd:
        r.violation("demandRule|start-before-prior-value", "demandRule no longer %s" % ("starts the task" if not st_ else "offers the prior value" if not pv else "readies a task without inputs"), f)
        return
    if len(st_) != 1 or len(pv) != 1 or len(rd) != 1:
        raise AnalysisBroken("demandRule: start=%d prior=%d ready=%d" % (len(st_), len(pv), len(rd)))
    r.check(cfg.dominated_by(f, cfg.pos_of(f, pv[0]), lambda p, e: cfg.elem_node(f, e) is st_[0])[0], "demandRule|start-before-prior-value", "", "providePriorValue reachable before start", f, pv[0])
    r.check(cfg.dominated_by(f, cfg.pos_of(f, rd[0]), lambda p, e: cfg.elem_node(f, e) is st_[0])[0] and
            cfg.path_exists(f, cfg.pos_of(f, rd[0]), lambda p, e: cfg.elem_node(f, e) is pv[0]) is None,
            "demandRule|ready-after-start-and-prior", "", "task can be readied before start / prior value", f, rd[0])
    stp = facts_at(bf, pv[0])
    r.check(has(stp, "builtAt", True, ("!=", "0")) and has(stp, "signature", True, ("==",)), "demandRule|prior-value-guard", "",
            "prior value offered without a prior result of the same signature", f, pv[0])
    r.check(expr_str(core(arg_nodes(pv[0])[1])) == "ruleInfo.result.value", "demandRule|prior-value-arg", "", "prior value is not the rule's stored value", f, pv[0])
    # every ready push is under waitCount == 0
    for g in engine_functions(prog):
        for c in g.calls("push_back"):
            if expr_str(c.child("obj")) != "readyTaskInfos":
                continue
            bg = BranchFacts(g, kill="assign")
            stg = facts_at(bg, c)
            ok = has(stg, "waitCount", False) or has(stg, "waitCount", True, ("==", "0"))
            r.check(ok, "%s|ready-iff-no-waits" % g.name.split("::")[-1], "", "task readied while it still waits for inputs", g, c)
    g = efn(prog, "executeTasks")
    ia = g.calls("Task::inputsAvailable")
    scp = g.calls("RuleInfo::setComputing")
    pops = [c for c in g.calls("pop_front") if expr_str(c.child("obj")) == "readyTaskInfos"]
    ok = len(ia) == 1 and len(scp) == 1 and len(pops) == 1
    if ok:
        sp = cfg.pos_of(g, scp[0])
        ok = cfg.path_exists(g, cfg.pos_of(g, pops[0]), lambda p, e, ip=cfg.pos_of(g, ia[0]): p == ip, avoid=lambda p, e: p == sp) is None
    r.check(ok, "executeTasks|computing-before-inputsAvailable", "", "inputsAvailable reachable before the rule is marked computing", g)
    h = efn(prog, "addTaskInputRequest")
    ls = LockSets(h)
    inc = [n for n in h.nodes if n.get("k") == "un" and n["op"] == "++" and "waitCount" in expr_str(n.child("e"))]
    pb = [c for c in h.calls("push_back") if expr_str(c.child("obj")) == "inputRequests"]
    ok = len(inc) == 1 and len(pb) == 1 and "inputRequestsMutex" in (ls.held_at_node(inc[0]) or set()) and "inputRequestsMutex" in (ls.held_at_node(pb[0]) or set())
    r.check(ok, "addTaskInputRequest|count-and-queue-together", "", "wait count and request queue are not updated in one critical section", h)
    bh = BranchFacts(h, kill="assign")
    r.check(bool(pb) and has(facts_at(bh, pb[0]), "isInProgressWaiting", True), "addTaskInputRequest|only-while-waiting", "",
            "input requested by a task that is not waiting", h)
    a = arg_nodes(pb[0])[0] if pb else None
    if a is not None:
        got = aggregate_init(prog, a, "TaskInputRequest") or {}
        r.check([got.get(x) for x in ("taskInfo", "inputID", "inputRuleInfo", "orderOnly", "singleUse")] == ["taskInfo", "inputID", "ruleInfo", "orderOnly", "singleUse"],
                "addTaskInputRequest|request-fields", "", "request built as %s" % sorted(got.items()), h)
    for nm in ("taskIsComplete", "taskDiscoveredDependency"):
        k = efn(prog, nm)
        bk = BranchFacts(k, kill="assign")
        acts = [c for c in k.calls("push_back")] + [n for n in k.nodes if n.get("k") == "bin" and n["op"] == "=" and "result." in expr_str(n.child("l"))]
        ok = bool(acts) and all(has(facts_at(bk, x), "isInProgressComputing", True) for x in acts)
        r.check(ok, "%s|only-while-computing" % nm, "", "entry point acts for a rule that is not computing", k)
    # must-follow requests are order-only with the reserved id; plain requests are not
    t = {"taskNeedsInput": ("inputID", "false", "false"), "taskNeedsSingleUseInput": ("inputID", "false", "true"), "taskMustFollow": ("kMustFollowInputID", "true", "false")}
    for nm, want in t.items():
        k = efn(prog, nm)
        c = k.calls("addTaskInputRequest")
        got = tuple(expr_str(core(x)) for x in arg_nodes(c[0])[2:5]) if c else ()
        r.check(got == want, "%s|flags" % nm, "", "%s forwards (%s), expected %s" % (nm, got, want), k)


def r_prior_value_guard(prog, rep, with_consumer=False):
    """shared by C06 (protocol) and C09 (a definition change re-executes): the engine offers a task its prior value only together with
    a stored result of the *same signature*; command classes read 'I was given a prior value' as 'my definition did not change'."""
    r = rep.rule("R-PRIOR-VALUE-GUARD",
                 "providePriorValue is reached only with a stored result (builtAt != 0) whose signature equals the rule's current one; the "
                 "update-if-newer shortcut of ExternalCommand::execute — which skips the command — is taken only when a prior value was given", floor=2 if with_consumer else 1)
    f = efn(prog, "demandRule")
    pv = f.calls("Task::providePriorValue")
    if not pv:
        r.violation("demandRule|prior-value-guard", "demandRule never offers the prior value", f)
        return
    bf = BranchFacts(f, kill_calls_of=KILL)
    for i, c in enumerate(pv):
        stp = facts_at(bf, c)
        r.check(has(stp, "builtAt", True, ("!=", "0")) and has(stp, "signature", True, ("==",)), "demandRule|prior-value-guard" + ("#%d" % i if i else ""), "",
                "prior value offered without a stored result of the same signature: a command whose definition changed is told it has a valid earlier result", f, c)
    if with_consumer:
        g = prog.fn("ExternalCommand::execute")
        cr = g.calls("ExternalCommand::computeCommandResult")
        bg = BranchFacts(g, kill="assign")
        # the shortcut: computeCommandResult reached *before* the command was spawned (the other call site is the completion handler, a lambda)
        short = [c for c in cr]
        if not short:
            r.ok("ExternalCommand::execute|shortcut-needs-prior-value", "no update-if-newer shortcut in execute()", g)
        for c in short:
            st = facts_at(bg, c)
            r.check(has(st, "hasPriorResult", True) and has(st, "canUpdateIfNewer", True), "ExternalCommand::execute|shortcut-needs-prior-value", "",
                    "outputs are accepted without running the command although no prior value of the same signature was given", g, c)
        h = prog.fn("ExternalCommand::providePriorValue")
        wr = [n for n in h.nodes if n.get("k") == "bin" and n["op"] == "=" and expr_str(n.child("l")).endswith("hasPriorResult")]
        bh = BranchFacts(h, kill="assign")
        ok = bool(wr) and all(has(facts_at(bh, n), "isSuccessfulCommand", True) for n in wr if expr_str(core(n.child("r"))) == "true")
        r.check(ok, "ExternalCommand::providePriorValue|only-successful", "", "hasPriorResult is set for a prior value that is not a successful command result", h)


def r_deps_reset(prog, rep):
    """shared by C01, C02, C06, C11, C18: a task records its dependencies afresh."""
    r = rep.rule("R-DEPS-RESET", "before a rule's task is started the rule's recorded dependency list is emptied on every path (not only when the rule has been "
                                 "built before: a cancelled run leaves builtAt == 0 *and* a partly re-recorded list) — the completed result then lists exactly what "
                                 "this execution requested", floor=1)
    f = efn(prog, "demandRule")
    st_ = f.calls("Task::start")
    if len(st_) != 1:
        raise AnalysisBroken("demandRule: %d calls of Task::start" % len(st_))
    clr = [c for c in f.calls("DependencyKeyIDs::clear") if expr_str(c.child("obj")).endswith("result.dependencies")]
    ok = bool(clr) and cfg.dominated_by(f, cfg.pos_of(f, st_[0]), lambda p, e: any(cfg.elem_node(f, e) is c_ for c_ in clr))[0]
    r.check(ok, "demandRule|deps-cleared-before-start", "", "the recorded dependencies are not reset on every path before the task starts requesting: inputs of an "
            "earlier (possibly aborted) execution stay recorded", f, clr[0] if clr else st_[0])


def r_value_compare(prog, rep):
    r = rep.rule("R-VALUE-COMPARE", "the engine decides 'unchanged' by comparing the encoded value vectors", floor=1)
    f = prog.fn("BuildEngineImpl::taskIsComplete")
    cmp_ = [n for n in f.nodes if n.get("k") == "call" and n.get("op") == "==" and "result.value" in expr_str(n)]
    ok = len(cmp_) == 1 and "vector" in (cmp_[0].get("fn") or "") or (len(cmp_) == 1 and "std::operator==" in (cmp_[0].get("fn") or ""))
    r.check(ok, "taskIsComplete|vector-equality", "", "unchanged-value test is %s" % [expr_str(c) for c in cmp_], f)


def aggregate_init(prog, node, record_suffix, resolve=False):
    """{field name -> rendered initialiser} of the first aggregate initialiser under `node` for the given record.
    The extractor serialises the *semantic* form of an InitListExpr: one initialiser per field, in field order,
    with omitted fields present as their default member initialisers — so positions are field positions."""
    rec = prog.record(record_suffix)
    if rec is None or node is None:
        return None
    names = [x["n"] for x in rec["fields"]]
    for x in node.walk():
        if x.get("k") == "initlist":
            a = arg_nodes(x)
            if len(a) == len(names):
                def shown(v):
                    # a value hoisted into a local that is initialised once and never reassigned is shown as what it was initialised with
                    cv = core(v)
                    f_ = getattr(v, "fn", None)
                    if resolve and cv is not None and cv.get("k") == "ref" and cv.get("did") is not None and f_ is not None:
                        inits = [f_.nodes[w["init"]] for d in f_.nodes if d.get("k") == "decl" for w in d.get("vars", []) if w.get("did") == cv["did"] and "init" in w]
                        writes = [n for n in f_.nodes if n.get("k") == "bin" and n.get("op", "").endswith("=") and n["op"] not in ("==", "!=", "<=", ">=") and
                                  core(n.child("l")) is not None and core(n.child("l")).get("did") == cv["did"]]
                        if inits and len(set(i_["id"] for i_ in inits)) == 1 and not writes and not any(p_["did"] == cv["did"] for p_ in f_.params):
                            return expr_str(core(inits[0]))
                    return expr_str(cv)
                return dict((nm, shown(v)) for nm, v in zip(names, a))
    return None


def r_request_flags(prog, rep):
    """shared by C01, C05, C06, C07: how a request's flags travel from the Task API to the recorded dependency."""
    r = rep.rule("R-REQUEST-FLAGS",
                 "the orderOnly / singleUse flags given to the Task API reach the recorded dependency unchanged: the API entry points pass the "
                 "documented constants, addTaskInputRequest stores each parameter in the request field of the same name, and the dependency is "
                 "recorded from those fields — a single-use input that is recorded as a plain one is scanned by every later build", floor=5)
    h = efn(prog, "addTaskInputRequest")
    pb = [c for c in h.calls("push_back") if expr_str(c.child("obj")) == "inputRequests"]
    if len(pb) != 1:
        raise AnalysisBroken("addTaskInputRequest: %d pushes onto inputRequests" % len(pb))
    got = aggregate_init(prog, arg_nodes(pb[0])[0], "TaskInputRequest")
    if got is None:
        # built field by field in a local
        a0 = core(arg_nodes(pb[0])[0])
        got = {}
        if a0.get("k") == "ref":
            for n in h.nodes:
                if n.get("k") == "bin" and n["op"] == "=" and n.child("l").get("k") == "member" and expr_str(n.child("l").child("obj") if "obj" in n.child("l") else n.child("l")).startswith(expr_str(a0)):
                    got[n.child("l").get("qn", "").split("::")[-1]] = expr_str(core(n.child("r")))
    want = {"taskInfo": "taskInfo", "inputID": "inputID", "inputRuleInfo": "ruleInfo", "orderOnly": "orderOnly", "singleUse": "singleUse"}
    for fld, w in sorted(want.items()):
        r.check(got.get(fld) == w, "addTaskInputRequest|request.%s" % fld, "", "request field %s is initialised from %s, not from parameter %s" % (fld, got.get(fld), w), h, pb[0])
    t = {"taskNeedsInput": ("false", "false"), "taskNeedsSingleUseInput": ("false", "true"), "taskMustFollow": ("true", "false")}
    for nm, w in sorted(t.items()):
        k = efn(prog, nm)
        c = k.calls("addTaskInputRequest")
        if len(c) != 1:
            raise AnalysisBroken("%s: %d calls of addTaskInputRequest" % (nm, len(c)))
        g2 = tuple(expr_str(core(x)) for x in arg_nodes(c[0])[3:5])
        r.check(g2 == w, "%s|orderOnly-singleUse" % nm, "", "%s passes (orderOnly, singleUse) = %s, documented %s" % (nm, g2, w), k, c[0])


def r_mustfollow(prog, rep):
    r = rep.rule("R-MUSTFOLLOW", "in the finished-input loop provideValue is skipped exactly for order-only requests and the wait count is "
                                 "decremented exactly once per request on both arms", floor=2)
    f = efn(prog, "executeTasks")
    pops = [c for c in f.calls("pop_back") if expr_str(c.child("obj")) == "finishedInputRequests"]
    dec = f.calls(ENGINE + "::decrementTaskWaitCount")
    if len(pops) != 1 or len(dec) != 1:
        raise AnalysisBroken("finished-input loop: pops=%d decrements=%d" % (len(pops), len(dec)))
    lp = loop_of(f, pops[0])
    head = cfg.any_pos(f, lp.child("c"))
    dp = cfg.pos_of(f, dec[0])
    w = cfg.path_exists(f, cfg.pos_of(f, pops[0]), lambda p, e: p == head or e == "EXIT", avoid=lambda p, e: p == dp)
    r.check(w is None and loop_of(f, dec[0]) is lp, "executeTasks|decrement-once", "", "a finished request does not decrement its task's wait count exactly once", f, dec[0])
    pv = f.calls("Task::provideValue")
    bf = BranchFacts(f, kill_calls_of=KILL)
    ok = len(pv) == 1 and has(facts_at(bf, pv[0]), "request.orderOnly", False)
    # and a non-order-only request cannot bypass provideValue
    if ok:
        pvp = cfg.pos_of(f, pv[0])
        blocks_false = [b for b in f.blocks.values() if b.cond() is not None and expr_str(core(b.effective_cond())) == "request.orderOnly"]
        ok = len(blocks_false) == 1
        if ok:
            b = blocks_false[0]
            # false edge (succ 1) must lead to provideValue before the decrement
            s = b.succs[1]
            w = cfg.path_exists(f, (s, -1), lambda p, e: p == dp, avoid=lambda p, e: p == pvp)
            ok = w is None
    r.check(ok, "executeTasks|provide-unless-order-only", "", "provideValue is not called exactly for the non-order-only requests", f)
    g = efn(prog, "decrementTaskWaitCount")
    decs = [n for n in g.nodes if n.get("k") == "un" and n["op"] == "--" and "waitCount" in expr_str(n.child("e"))]
    r.check(len(decs) == 1 and not loop_of(g, decs[0]), "decrementTaskWaitCount|single-decrement", "", "wait count decremented other than once", g)


# =====================================================================  C07
def r_didwork(prog, rep):
    r = rep.rule("R-DIDWORK", "each work loop sets didWork before it processes an item, and the wait branch sets it whenever it was entered "
                              "(a dropped assignment makes the engine report a cycle on an acyclic graph)", floor=6)
    f = efn(prog, "executeTasks")
    decl = [n for n in f.nodes if n.get("k") == "decl" and any(v["n"] == "didWork" for v in n["vars"])]
    if len(decl) != 1:
        raise AnalysisBroken("executeTasks: didWork declaration not found")
    dpos = cfg.pos_of(f, decl[0])

    def sets(p, e):
        n = cfg.elem_node(f, e)
        return n is not None and n.get("k") == "bin" and n["op"] == "=" and expr_str(n.child("l")) == "didWork" and core(n.child("r")).get("v") is True
    work = [(ENGINE + "::processRuleScanRequest", "scan"), (ENGINE + "::scanRule", "input-request"), (ENGINE + "::decrementTaskWaitCount", "finished-input"),
            ("Task::inputsAvailable", "ready-task"), ("RuleInfo::setComplete", "finished-task")]
    for nm, label in work:
        cs = f.calls(nm)
        if not cs:
            raise AnalysisBroken("executeTasks: %s not found" % nm)
        # the flag is read at the end of the iteration (wait / cycle decision): what matters is that no path from the reset at the top of the
        # iteration through this processing step reaches such a read without passing `didWork = true` — before or after the step
        reads = set()
        for b_ in f.blocks.values():
            c_ = b_.effective_cond()
            if c_ is not None and any(x.get("k") == "ref" and x.get("n") == "didWork" for x in c_.walk()):
                reads.add((b_.id, len(b_.raw_elems)))
        for c in cs:
            cp_ = cfg.pos_of(f, c)
            w = cfg.path_exists(f, dpos, lambda p, e, cp=cp_: p == cp, avoid=sets)
            if w is not None:
                w = cfg.path_exists(f, cp_, lambda p, e: (p in reads) or (e == "TERM" and p in reads) or e == "EXIT", avoid=sets)
            r.check(w is None, "executeTasks|didWork|%s" % label, "", "an item is processed without recording that work was done", f, c)
    waits = [c for c in f.calls() if (c.get("fn") or "").split("::")[-1] == "wait" and "finishedTaskInfosCondition" in expr_str(c.child("obj"))]
    # the whole wait branch sets didWork, whether or not it actually waited: once the engine has taken the queue lock in order to wait (the
    # unique_lock that the wait uses), it cannot reach the cycle resolver in the same iteration without having recorded work
    ok = len(waits) == 1
    if ok:
        lk = arg_nodes(waits[0])[0]
        lk_did = strip_casts(lk).get("did") if lk is not None else None
        ldecl = [d for d in f.nodes if d.get("k") == "decl" and any(v.get("did") == lk_did for v in d.get("vars", []))]
        rcs = f.calls(ENGINE + "::resolveCycle")
        ok = len(ldecl) == 1 and lk_did is not None and bool(rcs)
        if ok:
            lp = cfg.pos_of(f, ldecl[0])
            for rc_ in rcs:
                w = cfg.path_exists(f, lp, lambda p, e, t=cfg.pos_of(f, rc_): p == t, avoid=sets)
                ok = ok and w is None
    r.check(ok, "executeTasks|didWork|wait-branch", "", "the wait branch can fall through to cycle detection without didWork", f)
    bf = BranchFacts(f, kill="assign")
    for w_ in waits:
        st = facts_at(bf, w_)
        r.check(has(st, "didWork", False) and has(st, "numOutstandingUnfinishedTasks", True, ("!=", "0")), "executeTasks|wait-only-when-idle-and-outstanding", "",
                "engine waits although it did work or nothing is outstanding", f, w_)


def r_cycle_trigger(prog, rep):
    r = rep.rule("R-CYCLE-TRIGGER", "resolveCycle is entered only when an iteration did no work and tasks remain; an unresolved cycle is reported "
                                    "through cycleDetected and leads to cancellation and failure", floor=4)
    f = efn(prog, "executeTasks")
    bf = BranchFacts(f, kill="assign")
    rc = f.calls(ENGINE + "::resolveCycle")
    if not rc:
        r.violation("executeTasks|cycle-only-when-stuck", "a stalled build is never handed to resolveCycle: a dependency cycle is not detected", f)
        return
    if len(rc) != 1:
        raise AnalysisBroken("executeTasks: resolveCycle sites = %d" % len(rc))
    st = facts_at(bf, rc[0])
    r.check(has(st, "didWork", False) and has(st, "taskInfos.empty()", False), "executeTasks|cycle-only-when-stuck", "",
            "cycle resolution entered although work was done or no task remains", f, rc[0])
    callers = [g for g in engine_functions(prog) for c in g.calls(ENGINE + "::resolveCycle")]
    r.check(len(callers) == 1, "resolveCycle|single-caller", "", "resolveCycle has %d callers" % len(callers))
    # unresolved -> cancel + return false
    # every return reached knowing that resolveCycle() said "not resolved" returns false and is preceded by the cancellation
    rcp = cfg.pos_of(f, rc[0])
    fail_rets = [n for n in f.nodes if n.get("k") == "return" and has(facts_at(bf, n), "resolveCycle(", False)]
    ok = len(fail_rets) >= 1
    for n in fail_rets:
        ok = ok and core(n.child("e")).get("v") is False and \
            cfg.path_exists(f, rcp, lambda p, e, t=cfg.pos_of(f, n): p == t, avoid=call_pred(f, ENGINE + "::cancelRemainingTasks")) is None
    # and the "resolved" outcome goes round the loop again instead of leaving
    cont = [n for n in f.nodes if n.get("k") in ("continue",) and has(facts_at(bf, n), "resolveCycle(", True)]
    ok = ok and len(cont) >= 1
    r.check(ok, "executeTasks|unresolved-cycle-cancels", "", "an unresolved cycle does not cancel the remaining tasks", f)
    g = efn(prog, "resolveCycle")
    bg = BranchFacts(g, kill="assign")
    cd = g.calls("cycleDetected")
    fc = g.calls(ENGINE + "::findCycle")
    ok = len(cd) == 1 and len(fc) == 1 and has(facts_at(bg, cd[0]), "breakCycle", False)
    if ok:
        lst = [v for d in g.nodes if d.get("k") == "decl" for v in d["vars"] if "init" in v and any(x is fc[0] for x in g.nodes[v["init"]].walk())]
        ok = bool(lst) and mentions(arg_nodes(cd[0])[0], {lst[0]["did"]})
        rets = [n for n in g.nodes if n.get("k") == "return"]
        after = [n for n in rets if cfg.path_exists(g, cfg.pos_of(g, cd[0]), lambda p, e, rp=cfg.pos_of(g, n): p == rp) is not None]
        okr = len(after) >= 1
        for n_ in after:
            e_ = core(n_.child("e"))
            okr = okr and (e_.get("v") is False or (e_.get("k") == "ref" and (expr_plain(e_), False) in facts_at(bg, n_)) or
                           # a single `return didBreak;` reached on both outcomes: fine as long as the reporting arm is the "not broken" one
                           (e_.get("k") == "ref" and has(facts_at(bg, cd[0]), expr_plain(e_), False)))
        ok = ok and okr
    r.check(ok, "resolveCycle|report-found-cycle-then-fail", "", "cycleDetected is not given the list findCycle produced, or the call does not fail afterwards", g)
    ls = LockSets(g)
    held = ls.held_at_node(fc[0]) if fc else set()
    r.check(bool(fc) and {"taskInfosMutex", "finishedTaskInfosMutex"} <= (held or set()), "resolveCycle|consistent-snapshot", "", "cycle search runs without both task locks", g)
    h = efn(prog, "findCycle")
    first = [c for c in h.calls("getRuleInfoForKey") if "buildKey" in expr_str(c)]
    r.check(bool(first), "findCycle|starts-at-requested-key", "", "cycle search does not start at the requested key", h)


def r_waitfor_coverage(prog, rep):
    r = rep.rule("R-WAITFOR-COVERAGE", "every container in which a waiting request can be parked is read by the cycle finder when it builds the "
                                       "wait-for graph", floor=4)
    parked = []
    for rec in ("BuildEngineImpl::TaskInfo", "BuildEngineImpl::RuleScanRecord"):
        for fl in prog.record(rec)["fields"]:
            if "TaskInputRequest" in fl["type"] or "RuleScanRequest" in fl["type"]:
                parked.append((rec.split("::")[-1], fl["n"]))
    h = efn(prog, "findCycle")
    for rec, fld in parked:
        used = any(x.get("k") == "member" and x.get("n") == fld and x.get("qn", "").endswith("%s::%s" % (rec, fld)) for x in h.nodes)
        # it must be iterated, not merely mentioned
        iterated = any(fr.get("k") == "forrange" and any(x.get("k") == "member" and x.get("qn", "").endswith("%s::%s" % (rec, fld)) for x in fr.child("range").walk()) for fr in h.nodes) or \
            any(lp_.get("k") == "for" for lp_, _e in whole_container_loops(h, "." + fld) + whole_container_loops(h, "->" + fld))
        r.check(used and iterated, "findCycle|reads %s::%s" % (rec, fld), "", "wait-for edges parked in %s::%s are invisible to cycle detection" % (rec, fld), h)
    # every push site of a request parks it in one of these (or in an engine queue)
    known = set(f for _, f in parked) | {"ruleInfosToScan", "inputRequests", "finishedInputRequests"}
    for f in engine_functions(prog):
        for c in f.calls():
            if (c.get("fn") or "").split("::")[-1] not in ("push_back", "insert", "emplace_back") or "obj" not in c:
                continue
            t = c.child("obj").ctype()
            if "TaskInputRequest" in t or "RuleScanRequest" in t:
                o = core(c.child("obj"))
                nm = o.get("n") if o is not None else None
                r.check(nm in known, "%s|parks-in %s" % (f.name.split("::")[-1], nm), "", "request parked in a container the cycle finder does not know: %s" % nm, f, c)
    # edges are *accumulated*: several parked requests can name the same awaited rule, so inside a loop over a parked-request container an edge is
    # added by appending to the key's list (`graph[key].push_back(v)`, or to a local list inserted once per task) — never by a map-level
    # insert / emplace (keeps only the first requester) or an assignment to graph[key] (keeps only the last)
    # (every loop of the function but the one over the task table, whose map-level insert adds one fresh key per task)
    req_loops = [fr for fr in h.nodes if fr.get("k") in ("forrange", "for", "while") and not (fr.get("k") == "forrange" and expr_str(fr.child("range")) == "taskInfos")]
    n_edges = 0
    for fr in req_loops:
        for x in fr.child("body").walk():
            if x.get("k") == "call" and "obj" in x and "unordered_map" in (x.child("obj").ctype() or "") and "Rule" in (x.child("obj").ctype() or "") and \
                    next((a for a in h.ancestors(x) if a.get("k") in ("forrange", "for", "while")), None) is fr:
                nm = (x.get("fn") or "").split("::")[-1]
                if nm in ("insert", "emplace", "try_emplace", "insert_or_assign"):
                    r.violation("findCycle|edges-accumulated", "inside the loop over %s a wait-for edge is added with %s(): a second edge for the same rule is dropped from the graph" % (
                        expr_str(fr.child("range"))[:50] if fr.get("k") == "forrange" else "requests", nm), h, x)
                elif nm == "operator[]":
                    par = h.parent_of(x)
                    while par is not None and par.get("k") in ("cast", "paren", "member"):
                        par = h.parent_of(par)
                    if par is not None and (par.get("k") == "bin" and par.get("op") == "=" or par.get("k") == "call" and par.get("op") == "="):
                        r.violation("findCycle|edges-accumulated", "inside a request loop graph[key] is assigned, not appended to: earlier edges of that rule are lost", h, x)
                    else:
                        n_edges += 1
    if n_edges:
        r.ok("findCycle|edges-accumulated", "%d append sites in %d request loops" % (n_edges, len(req_loops)), h)
    # every parked request contributes: a loop over a parked-request container is not left early and skips an element only for having no task
    for fr in h.nodes:
        if fr.get("k") != "forrange" or not any(x.get("k") == "member" and any(x.get("qn", "").endswith("%s::%s" % (rec, fld)) for rec, fld in parked) for x in fr.child("range").walk()):
            continue
        leaves = [x for x in fr.child("body").walk() if x.get("k") in ("break", "return", "goto") and
                  next((a for a in h.ancestors(x) if a.get("k") in ("forrange", "for", "while", "do", "switch")), None) is fr]
        r.check(not leaves, "findCycle|all of %s" % expr_str(fr.child("range")).split("->")[-1].split(".")[-1], "", "the loop over %s can be left before its end: the requests parked behind "
                "that point put no edge into the wait-for graph" % expr_str(fr.child("range")), h, leaves[0] if leaves else None)
    # all scanning rules' records are visited
    ok = any(fr.get("k") == "forrange" and expr_str(fr.child("range")) == "ruleInfos" for fr in h.nodes) and bool(h.calls("RuleInfo::isScanning"))
    r.check(ok, "findCycle|all-scanning-rules", "", "cycle finder does not visit the scan record of every scanning rule", h)


def scope_guards(prog, f):
    """[(decl node, lambda function)] for the llbuild_defer scope guards declared in f."""
    out = []
    for d in f.nodes:
        if d.get("k") == "decl":
            for v in d["vars"]:
                if "ScopeDefer" in f.db_types[v["ct"]] and "init" in v:
                    for x in f.nodes[v["init"]].walk():
                        if x.get("k") == "lambda":
                            lf = prog.lambda_fn(x)
                            if lf is not None:
                                out.append((d, lf))
    return out


def r_epoch_persist(prog, rep):
    """shared by C01, C03, C04, C05: results committed by a failed/cancelled build are stamped with the new epoch;
    if that epoch is not persisted too, a restarted engine re-uses it and the strict staleness test misses changes."""
    f = efn(prog, "build")
    bf = BranchFacts(f, kill="assign")
    ex = f.calls(ENGINE + "::executeTasks")
    sci = f.calls("BuildDB::setCurrentIteration")
    if len(ex) != 1 or len(sci) > 1:
        raise AnalysisBroken("build(): executeTasks=%d setCurrentIteration=%d" % (len(ex), len(sci)))
    r = rep.rule("R-EPOCH-PERSIST",
                 "on every path from the epoch increment to the end of build() the current epoch is written to the database when "
                 "one is attached — also when the work loop failed or was cancelled", floor=3)
    inc = [n for n in f.nodes if n.get("k") == "un" and n["op"] == "++" and expr_str(n.child("e")) == "currentEpoch"]
    if len(inc) != 1:
        raise AnalysisBroken("build(): %d epoch increments" % len(inc))
    if not sci:
        # not in build()'s own body: a scope guard (llbuild_defer) that runs on every exit is an equally good place for *this* rule
        guards = scope_guards(prog, f)
        hit = [(d, lf, lf.calls("BuildDB::setCurrentIteration")) for d, lf in guards if lf.calls("BuildDB::setCurrentIteration")]
        if len(hit) != 1 or len(hit[0][2]) != 1:
            r.violation("build|persists-current-epoch", "build() never writes the current epoch to the attached database", f)
            r.violation("build|epoch-write-unconditional", "no epoch write", f)
            r.violation("build|epoch-written-on-every-path", "no epoch write", f)
            return
        d, lf, cs = hit[0]
        a = arg_nodes(cs[0])
        r.check(expr_str(core(a[0])) == "currentEpoch", "build|persists-current-epoch", "", "setCurrentIteration is given %s" % expr_str(a[0]), lf, cs[0])
        bl = BranchFacts(lf, kill="assign")
        st = facts_at(bl, cs[0])
        w = cfg.path_exists_feasible(lf, cfg.entry_pos(lf), cfg.is_exit, avoid=lambda p, e, sp=cfg.pos_of(lf, cs[0]): p == sp) if hasattr(cfg, "path_exists_feasible") else None
        only_db = all("db" in a_ for a_, _p in st)
        r.check(only_db, "build|epoch-write-unconditional", "%s" % sorted(st), "the deferred epoch write depends on %s" % sorted(st), lf, cs[0])
        dv = d["vars"][0]["did"]
        w = cfg.path_exists(f, cfg.pos_of(f, inc[0]), cfg.is_exit, avoid=lambda p, e: isinstance(e, dict) and e.get("x") == "dtor" and e.get("did") == dv)
        r.check(w is None, "build|epoch-written-on-every-path", "deferred", "a path from the epoch increment leaves build() without running the guard that writes the epoch", f, d)
        return
    a = arg_nodes(sci[0])
    r.check(expr_str(core(a[0])) == "currentEpoch", "build|persists-current-epoch", "", "setCurrentIteration is given %s" % expr_str(a[0]), f, sci[0])
    st = facts_at(bf, sci[0])
    r.check(st == frozenset(x for x in st if x[0] != "success") and has(st, "db", True), "build|epoch-write-unconditional", "%s" % sorted(st),
            "the epoch write depends on %s" % sorted(st), f, sci[0])
    # every path from ++epoch to EXIT passes the `if (db)` that guards the write
    gblk = None
    for b in f.blocks.values():
        c = b.cond()
        if c is not None and expr_str(core(b.effective_cond())).startswith("db") and b.term["cls"] == "IfStmt":
            s_true = b.succs[0]
            if s_true is not None and cfg.path_exists(f, (s_true, -1), lambda p, e, sp=cfg.pos_of(f, sci[0]): p == sp) is not None and \
                    cfg.dominated_by(f, cfg.pos_of(f, sci[0]), lambda p, e, tp=cfg.term_pos(f, b.id): p == tp)[0]:
                # innermost such guard
                if gblk is None or cfg.path_exists(f, cfg.term_pos(f, gblk.id), lambda p, e, tp=cfg.term_pos(f, b.id): p == tp) is not None:
                    gblk = b
    ok = gblk is not None
    if ok:
        tp = cfg.term_pos(f, gblk.id)
        w = cfg.path_exists(f, cfg.pos_of(f, inc[0]), cfg.is_exit, avoid=lambda p, e: p == tp)
        ok = w is None
    r.check(ok, "build|epoch-written-on-every-path", "", "a path from the epoch increment leaves build() without passing the epoch write", f, sci[0])
    # nothing between the work loop and the epoch write can return
    w = cfg.path_exists(f, cfg.pos_of(f, ex[0]), cfg.is_exit, avoid=lambda p, e, tp=cfg.term_pos(f, gblk.id) if gblk else None: p == tp)
    r.check(w is None, "build|no-exit-between-work-and-epoch-write", "", "build() can return between the work loop and the epoch write", f)



def r_state_order(prog, rep):
    r = rep.rule("R-STATE-ORDER", "RuleInfo::isScanned relies on the numeric order of the state enumerators (scanned == past IsScanning): the order is frozen, and "
                                  "the helpers test the states they are named after", floor=6)
    e = prog.enum("RuleInfo::StateKind")
    names = [x["n"] for x in sorted(e["enumerators"], key=lambda x: x["v"])]
    want = ["Incomplete", "IsScanning", "NeedsToRun", "DoesNotNeedToRun", "InProgressWaiting", "InProgressComputing", "Complete"]
    r.check(names == want, "StateKind|order", "", "state enumerators are ordered %s" % names)
    helpers = {"isScanning": {"IsScanning"}, "isInProgressWaiting": {"InProgressWaiting"}, "isInProgressComputing": {"InProgressComputing"}}
    for h, states in helpers.items():
        f = prog.fn("RuleInfo::" + h)
        ret = [n for n in f.nodes if n.get("k") == "return"]
        got = set(x.get("n") for x in ret[0].walk() if x.get("k") == "ref" and x.get("dk") == "enumconst") if ret else set()
        ok = got == states and any(n.get("k") == "bin" and n["op"] == "==" for n in f.nodes)
        r.check(ok, "RuleInfo::%s|tests-own-state" % h, "", "%s tests %s" % (h, sorted(got)), f)
    f = prog.fn("RuleInfo::isInProgress")
    calls = set((c.get("fn") or "").split("::")[-1] for c in f.calls())
    tested = set({"isInProgressWaiting": "InProgressWaiting", "isInProgressComputing": "InProgressComputing"}.get(c_, c_) for c_ in calls)
    for n in f.nodes:
        if n.get("k") == "bin" and n["op"] == "==" and any(x.get("k") == "member" and x.get("n") == "state" for x in n.walk()):
            tested |= set(x.get("n") for x in n.walk() if x.get("k") == "ref" and x.get("dk") == "enumconst")
    rets_ = [n for n in f.nodes if n.get("k") == "return"]
    r.check(tested == {"InProgressWaiting", "InProgressComputing"} and len(rets_) == 1 and any(n.get("k") == "bin" and n["op"] == "||" for n in f.nodes) and
            not any(n.get("k") == "bin" and n["op"] in ("&&", "!=") for n in f.nodes) and not any(n.get("k") == "un" and n.get("op") == "!" for n in f.nodes),
            "RuleInfo::isInProgress|either", "", "isInProgress is not (waiting || computing)", f)
    f = prog.fn("RuleInfo::isScanned")
    cmpn = [n for n in f.nodes if n.get("k") == "bin" and n["op"] in (">", "<", ">=", "<=")]
    ok = len(cmpn) == 1 and canon(cmpn[0]) in ("(cast<int>(IsScanning) < cast<int>(state))", "(IsScanning < state)") or \
        (len(cmpn) == 1 and "IsScanning" in expr_str(cmpn[0]) and "state" in expr_str(cmpn[0]) and
         ((cmpn[0]["op"] == ">" and "state" in expr_str(cmpn[0].child("l"))) or (cmpn[0]["op"] == "<" and "state" in expr_str(cmpn[0].child("r")))))
    r.check(ok, "RuleInfo::isScanned|past-scanning", "", "isScanned is not `state > IsScanning`", f)
    bf = BranchFacts(f, kill="assign")
    rc = f.calls("RuleInfo::isComplete")
    r.check(len(rc) == 1 and has(facts_at(bf, rc[0]), "Complete", True, ("==",)), "RuleInfo::isScanned|complete-means-this-epoch", "",
            "a Complete rule is considered scanned without checking its epoch", f)


def r_discovered_demanded(prog, rep):
    r = rep.rule("R-DISCOVERED-DEMANDED", "every discovered dependency of a finished task is demanded in the same build (a task-less input request per dependency, "
                                          "queued under the request mutex), so its rule is brought up to date before dependents compare epochs", floor=2)
    f = efn(prog, "executeTasks")
    loops = [(n, en) for n, en in whole_container_loops(f, "discoveredDependencies") if
             any(c.get("k") == "call" and (c.get("fn") or "").endswith("push_back") and "obj" in c and expr_str(c.child("obj")) == "inputRequests" for c in n.walk())]
    ok = len(loops) == 1
    if ok:
        lp, elem = loops[0]
        pb = [c for c in f.calls("push_back") if expr_str(c.child("obj")) == "inputRequests" and any(x is c for x in lp.walk())]
        ok = len(pb) == 1
        if ok:
            got = aggregate_init(prog, arg_nodes(pb[0])[0], "TaskInputRequest", resolve=True) or {}
            ls = LockSets(f)
            # the flags of a task-less request are never read (nothing is recorded and no value is delivered for it): only the null task and the rule matter
            ok = got.get("taskInfo") == "nullptr" and "getRuleInfoForKey(" in got.get("inputRuleInfo", "") and ("%s.keyID" % elem) in got.get("inputRuleInfo", "") and \
                "inputRequestsMutex" in (ls.held_at_node(pb[0]) or set()) and \
                not any(x.get("k") in ("break", "continue", "return") for x in lp.child("body").walk())
    r.check(ok, "executeTasks|discovered-dependencies-demanded", "", "discovered dependencies are not all demanded in the build that discovered them", f)
    # single-use / order-only flags of a discovered dependency: recorded as given
    g = efn(prog, "taskDiscoveredDependency")
    pb = g.calls("DependencyKeyIDs::push_back")
    ok = len(pb) == 1 and [expr_str(core(x)) for x in arg_nodes(pb[0])][1:] == ["false", "false"]
    r.check(ok, "taskDiscoveredDependency|plain-dependency", "", "a discovered dependency is recorded as order-only / single-use", g)


def _is_written(f, n):
    """is the lvalue expression n stored to (assignment target, ++/--, address taken, passed on as a non-const reference)?"""
    cur = n
    while True:
        p = f.parent_of(cur)
        if p is None:
            return False
        k = p.get("k")
        if k == "cast" or (k == "other" and len(list(p.children())) == 1 if hasattr(p, "children") else False):
            cur = p
            continue
        if k == "bin" and p.get("op", "").endswith("=") and p["op"] not in ("==", "!=", "<=", ">="):
            return p.get("l") == cur["id"]
        if k == "call" and p.get("op", "").endswith("=") and p.get("op") not in ("==", "!=", "<=", ">=") and p.get("obj") == cur["id"]:
            return True
        if k == "un" and p.get("op") in ("++", "--", "&", "++post", "--post", "post++", "post--"):
            return True
        if k in ("call", "construct") and cur["id"] in p.get("args", []):
            i = p["args"].index(cur["id"])
            pt = p.get("pt") or []
            t = f.db_types[pt[i]] if i < len(pt) else ""
            return "&" in t and "const" not in t
        if k == "decl":
            return any(v.get("init") == cur["id"] and "&" in f.db_types[v["t"]] and "const" not in f.db_types[v["t"]] for v in p.get("vars", []))
        return False


def r_parallel_vectors(prog, rep):
    r = rep.rule("R-PARALLEL-VECTORS", "DependencyKeyIDs keeps its dependency keys and their flag bytes in two parallel vectors: every member function applies "
                                       "the same sequence of mutations (same operation, same position) to both, so entry i of one always describes entry i "
                                       "of the other", floor=7)
    import re as _re
    MUT = {"clear", "erase", "resize", "push_back", "emplace_back", "insert", "pop_back", "assign", "swap", "emplace", "shrink_to_fit"}
    ELEM = {"operator[]", "at", "front", "back", "data"}
    meths = [f for f in prog.functions.values() if f.cls.endswith("DependencyKeyIDs") and not f.is_lambda]
    if len(meths) < 10:
        raise AnalysisBroken("DependencyKeyIDs: only %d member functions found" % len(meths))

    def norm(s):
        return _re.sub(r"\b(keys|flags)\b", "V", s)
    n_mut = 0
    for f in sorted(meths, key=lambda f: f.line):
        seq = {"keys": [], "flags": []}
        for n in f.nodes:
            if n.get("k") != "call" or "obj" not in n:
                continue
            o = expr_plain(n.child("obj")).replace("this->", "")
            if o not in ("keys", "flags"):
                continue
            nm = (n.get("fn") or "").split("::")[-1]
            if nm in MUT:
                args = [norm(expr_plain(a)) for a in arg_nodes(n) if a is not None]
                seq[o].append((nm,) if nm in ("push_back", "emplace_back") else (nm,) + tuple(args))
            elif nm in ELEM and not n.get("cm") and _is_written(f, n):
                seq[o].append(("elem",) + tuple(norm(expr_plain(a)) for a in arg_nodes(n) if a is not None))
        if not seq["keys"] and not seq["flags"]:
            continue
        n_mut += 1
        r.check(seq["keys"] == seq["flags"], "DependencyKeyIDs::%s|lockstep" % f.name.split("::")[-1], "%d mutation(s)" % len(seq["keys"]),
                "keys mutated by %s but flags by %s" % (seq["keys"], seq["flags"]), f)
    if n_mut < 6:
        raise AnalysisBroken("DependencyKeyIDs: only %d mutating member functions found (clear, clean, resize, set, push_back, append expected)" % n_mut)
    # const element readers pair keys[n] with flags[n]: operator[] is checked by R-SINGLEUSE (field order); here: both read the same index
    g = prog.fn("DependencyKeyIDs::operator[]")
    idx = set()
    for n in g.nodes:
        if n.get("k") == "call":
            nm = (n.get("fn") or "").split("::")[-1]
            if nm in ("operator[]", "orderOnly", "singleUse"):
                idx.add(tuple(expr_plain(a) for a in arg_nodes(n) if a is not None))
    r.check(len(idx) == 1, "DependencyKeyIDs::operator[]|same-index", "", "operator[] reads key and flags at different positions: %s" % sorted(idx), g)
    # the size of the set is the size both vectors share: resize/clear handled above; size() and empty() may use either


def r_outstanding_count(prog, rep):
    r = rep.rule("R-OUTSTANDING-COUNT", "numOutstandingUnfinishedTasks counts the tasks handed inputsAvailable whose completion the engine thread has not yet taken off "
                                        "finishedTaskInfos: one increment per dispatch, one decrement per completion popped, a bulk discard subtracts the number "
                                        "discarded; nothing else writes the counter (a completion dropped uncounted leaves the drain waiting forever)", floor=5)
    CNT, Q = "numOutstandingUnfinishedTasks", "finishedTaskInfos"
    writes, removes = [], []
    for f in engine_functions(prog):
        for n in f.nodes:
            k = n.get("k")
            if k == "un" and n.get("op", "").strip("post") in ("++", "--") and expr_plain(n.child("e")) == CNT:
                writes.append((f, n, n["op"].replace("post", "")))
            elif k == "bin" and n.get("op", "").endswith("=") and n["op"] not in ("==", "!=", "<=", ">=") and expr_plain(n.child("l")) == CNT:
                writes.append((f, n, n["op"]))
            elif k == "call" and "obj" in n and expr_plain(n.child("obj")) == Q and (n.get("fn") or "").split("::")[-1] in \
                    ("pop_back", "clear", "erase", "resize", "swap", "pop_front", "assign", "shrink_to_fit"):
                removes.append((f, n, (n.get("fn") or "").split("::")[-1]))
    kinds = sorted(op for _f, _n, op in writes)
    r.check(kinds == ["++", "--", "--", "-="], "counter|writers", "%s" % kinds, "the counter is written by %s (expected one ++, two --, one -=)" % kinds)
    rk = sorted(op for _f, _n, op in removes)
    r.check(rk == ["clear", "clear", "pop_back"], "finished-queue|removers", "%s" % rk, "completions are taken off the finished queue by %s (expected pop_back, clear, clear)" % rk)
    ex = efn(prog, "executeTasks")
    cr = efn(prog, "cancelRemainingTasks")
    # ++ : once per dispatch
    incs = [(f, n) for f, n, op in writes if op == "++"]
    ia = [c for c in ex.calls() if (c.get("fn") or "").endswith("Task::inputsAvailable")]
    ok = len(incs) == 1 and incs[0][0] is ex and len(ia) == 1
    if ok:
        pi, pa = ex.elem_pos()[incs[0][1]["id"]], ex.elem_pos()[ia[0]["id"]]
        # every path from the dispatch reaches the increment before the next dispatch or an exit, and vice versa only one increment per dispatch
        ok = cfg.path_exists(ex, pa, lambda p, e: e == "EXIT" or p == pa, avoid=lambda p, e: p == pi) is None and \
            cfg.path_exists(ex, pi, lambda p, e: p == pi, avoid=lambda p, e: p == pa) is None
    r.check(ok, "executeTasks|one-increment-per-dispatch", "", "inputsAvailable dispatch and ++%s are not one-to-one" % CNT, ex)
    # -- : once per pop_back
    pops = [(f, n) for f, n, op in removes if op == "pop_back"]
    decs = [(f, n) for f, n, op in writes if op == "--"]
    ft = finished_take(prog, ex)
    ok = len(pops) == 1 and ft is not None and ft["pop"] is pops[0][1] and ft["helper_ok"] and all(f is ex for f, _ in decs)
    w1 = w2 = None
    if ok:
        pp = ex.elem_pos()[ft["site"]["id"]]
        dps = set(ex.elem_pos()[n["id"]] for _f, n in decs)
        # the popped pointer: null-initialised, assigned only from finishedTaskInfos.back() right before the pop; the null test
        # `if (!taskInfo) break;` therefore splits "nothing popped" (break) from "one completion taken" (its false successor)
        taken = set()
        for n in ex.nodes:
            if n.get("k") == "if" and expr_plain(n.child("c")).replace(" ", "") in ("!taskInfo", "(!taskInfo)", "(taskInfo==nullptr)") and \
                    [x.get("k") for x in n.child("then").walk() if x.get("k") != "compound"] == ["break"]:
                for b in ex.blocks.values():
                    if b.term is not None and b.term.get("cls") == "IfStmt" and b.cond() is not None and b.cond()["id"] == n["c"] and len(b.succs) == 2:
                        taken.add(b.succs[1])
        asg = [n for n in ex.nodes if n.get("k") == "bin" and n["op"] == "=" and expr_plain(n.child("l")) == "taskInfo"]
        decl0 = [v for n in ex.nodes if n.get("k") == "decl" for v in n.get("vars", []) if v.get("n") == "taskInfo" and "init" in v and
                 core(ex.nodes[v["init"]]).get("k") == "null"]
        src_ok = len(taken) == 1 and bool(decl0) and len([a for a in asg if expr_plain(a.child("r")) == Q + ".back()"]) == 1 and \
            all(expr_plain(a.child("r")) in (Q + ".back()", "readyTaskInfos.front()") for a in asg) and \
            any(ex.elem_pos()[a["id"]][0] == pp[0] for a in asg)
        if not src_ok and ft["fn"] is not ex:
            # `TaskInfo* taskInfo = takeFinishedTaskInfo();` -- the helper (validated above) returns null exactly when nothing was popped
            declh = [v for n in ex.nodes if n.get("k") == "decl" for v in n.get("vars", []) if v.get("n") == "taskInfo" and "init" in v and
                     any(x is ft["site"] for x in ex.nodes[v["init"]].walk())]
            src_ok = len(taken) == 1 and len(declh) == 1 and not [a for a in asg if expr_plain(a.child("r")) != "readyTaskInfos.front()"]
        w1 = w2 = None
        if src_ok:
            tk = list(taken)[0]
            w1 = cfg.path_exists(ex, (tk, -1), lambda p, e: e == "EXIT" or (p[0] == tk and p[1] == 0 and False), avoid=lambda p, e: p in dps)
            if w1 is None:
                # ... nor come round to take another completion uncounted
                w1 = cfg.path_exists(ex, (tk, -1), lambda p, e: p == pp, avoid=lambda p, e: p in dps)
            for d in dps:
                w2 = w2 or cfg.path_exists(ex, d, lambda p, e: p in dps, avoid=lambda p, e: p[0] == tk)
        ok = src_ok and w1 is None and w2 is None
    r.check(ok, "executeTasks|one-decrement-per-completion", "", "a popped completion is not counted exactly once (uncounted path: %s, double count: %s)" % (w1, w2), ex, path=w1 or w2)
    # -= : bulk discard in the cancellation drain
    subs = [(f, n) for f, n, op in writes if op == "-="]
    clears = [(f, n) for f, n, op in removes if op == "clear"]
    def amount_is_queue_size(n):
        """`Q.size()` or a local initialised with it, with no change to the queue between the initialisation and the subtraction"""
        if expr_plain(n) == Q + ".size()":
            return True
        c_ = core(n)
        if c_ is not None and c_.get("k") == "ref":
            for d in cr.nodes:
                if d.get("k") == "decl":
                    for v in d.get("vars", []):
                        if v.get("did") == c_.get("did") and "init" in v and expr_plain(cr.nodes[v["init"]]) == Q + ".size()":
                            dp = cfg.pos_of(cr, d)
                            up = cr.elem_pos().get(subs[0][1]["id"])

                            def mut(p_, e_):
                                x = cfg.elem_node(cr, e_)
                                return x is not None and x.get("k") == "call" and "obj" in x and expr_plain(x.child("obj")) == Q and not x.get("cm")
                            return dp is not None and cfg.path_exists(cr, dp, mut, avoid=lambda p_, e_: p_ == up) is None
        return False
    ok = len(subs) == 1 and subs[0][0] is cr and amount_is_queue_size(subs[0][1].child("r")) and all(f is cr for f, _ in clears) and len(clears) == 2
    if ok:
        ps = cr.elem_pos()[subs[0][1]["id"]]
        bf = BranchFacts(cr, kill="assign")
        ls = LockSets(cr)
        paired = [n for _f, n in clears if cfg.dominated_by(cr, cr.elem_pos()[n["id"]], lambda p_, e_: p_ == ps)[0]
                  and not has(facts_at(bf, n), CNT, True, ("==", "0"))]
        final = [n for _f, n in clears if n not in paired]
        ok = len(paired) == 1 and len(final) == 1 and "finishedTaskInfosMutex" in (ls.held_at_node(paired[0]) or set()) and \
            "finishedTaskInfosMutex" in (ls.held_at_node(subs[0][1]) or set()) and \
            has(facts_at(bf, final[0]), CNT, True, ("==", "0"))
        if ok:
            pc = cr.elem_pos()[paired[0]["id"]]
            # after the subtraction the discard always follows, with no other change to the queue (or release of its mutex) in between

            def touches_queue(p_, e_):
                x = cfg.elem_node(cr, e_)
                return p_ != pc and x is not None and x.get("k") == "call" and "obj" in x and expr_plain(x.child("obj")) == Q and not x.get("cm")
            ok = cfg.path_exists(cr, ps, lambda p_, e_: e_ == "EXIT" or p_ == ps, avoid=lambda p_, e_: p_ == pc) is None and \
                cfg.path_exists(cr, ps, touches_queue, avoid=lambda p_, e_: p_ == pc) is None and \
                cfg.path_exists(cr, ps, lambda p_, e_: isinstance(e_, dict) and e_.get("x") == "dtor", avoid=lambda p_, e_: p_ == pc) is None
    r.check(ok, "cancelRemainingTasks|bulk-discard-subtracts-size", "", "the cancellation drain discards queued completions without subtracting their number "
            "(under the queue mutex), or clears the queue while tasks are still outstanding", cr)


def r_scan_waits(prog, rep):
    r = rep.rule("R-SCAN-WAITS", "a scan moves past a recorded input (order-only or not) only when that input has been scanned and is available; otherwise the request is "
                                 "parked on the input's scan record / running task, which is the wait-for edge the cycle finder and the wake-up rely on", floor=4)
    f = efn(prog, "processRuleScanRequest")
    bf = BranchFacts(f, kill="assign")
    adv = [n for n in f.nodes if n.get("k") == "un" and n.get("op", "").replace("post", "") == "++" and expr_plain(n.child("e")) == "request.inputIndex"]
    def suspended_when(var, site, envs):
        """some `if (...) { ...; return; }` dominating `site` is taken for every listed valuation with var == false"""
        for n in f.nodes:
            if n.get("k") != "if" or not any(x.get("k") == "ref" and x.get("n") == var for x in n.child("c").walk()):
                continue
            if not any(x.get("k") == "return" for x in n.child("then").walk()):
                continue
            marks = set(f.elem_pos()[x["id"]] for x in n.child("c").walk() if x["id"] in f.elem_pos())
            if not cfg.dominated_by(f, f.elem_pos()[site["id"]], lambda p_, e_: p_ in marks)[0]:
                continue
            if all(cfg.bool_eval(f, n.child("c"), dict(env, **{var: False})) is True for env in envs):
                return True
        return False
    OO = "request.orderOnly"
    ok = len(adv) == 1 and suspended_when("isAvailable", adv[0], [{OO: True}, {OO: False}]) and suspended_when("isScanned", adv[0], [{OO: True}, {OO: False}])
    r.check(ok, "processRuleScanRequest|advance-only-past-available-input", "", "the scan index advances past an input that is not known to be scanned and available", f,
            adv[0] if adv else None)
    for what, var, callee, park in (("scanned", "isScanned", "scanRule", "getPendingScanRecord"), ("available", "isAvailable", "demandRule", "getPendingTaskInfo")):
        decl = [v for n in f.nodes if n.get("k") == "decl" for v in n.get("vars", []) if v.get("n") == var and "init" in v]
        ok = len(decl) == 1 and (core(f.nodes[decl[0]["init"]]).get("fn") or "").endswith(callee) and \
            expr_plain(arg_nodes(core(f.nodes[decl[0]["init"]]))[0]) == "inputRuleInfo"
        ws = [n for n in f.nodes if n.get("k") == "bin" and n["op"].endswith("=") and n["op"] not in ("==", "!=") and expr_plain(n.child("l")) == var]
        r.check(ok and not ws, "processRuleScanRequest|%s-is-%s-of-input" % (var, callee), "", "%s is not the result of %s(inputRuleInfo)" % (var, callee), f)
        # the parking site: reached exactly when the flag is false, pushes this request, returns
        pk = [c for c in f.calls("push_back") if park in expr_str(c.child("obj")) and "deferredScanRequests" in expr_str(c.child("obj"))]
        ok = len(pk) == 1 and expr_plain(arg_nodes(pk[0])[0]) == "request"
        if ok:
            st = facts_at(bf, pk[0])
            ok = (var, False) in st
            pos = f.elem_pos()[pk[0]["id"]]
            # after parking the function returns without advancing
            ok = ok and cfg.path_exists(f, pos, lambda p, e: bool(adv) and p == f.elem_pos()[adv[0]["id"]]) is None
        r.check(ok, "processRuleScanRequest|parked-when-not-%s" % what, "", "the request is not parked (and the scan suspended) exactly when the input is not %s" % what, f)
    fin = [c for c in f.calls() if (c.get("fn") or "").endswith("finishScanRequest")]
    ok = len(fin) == 2
    for c in fin:
        a1 = expr_plain(arg_nodes(c)[1])
        if "NeedsToRun" in a1 and "DoesNot" not in a1:
            st = facts_at(bf, c)
            ok = ok and suspended_when("isAvailable", c, [{OO: False}]) and suspended_when("isScanned", c, [{OO: False}]) and has(st, "orderOnly", False)
    r.check(ok, "processRuleScanRequest|input-rebuilt-needs-available-value-input", "", "InputRebuilt is decided for an input that is order-only or not yet available", f)


def r_waitcount(prog, rep):
    r = rep.rule("R-WAITCOUNT", "request conservation: a task's wait count is raised once per queued input request and lowered once per request delivered; a "
                                "request taken off the input queue is parked in exactly one place (the input's scan record, the input's running task, or the "
                                "finished list) unless it is the task-less build request; every request taken off the finished list lowers the count of its "
                                "task exactly once, after the value was provided (a lost or doubled request means inputs-available never or too early)", floor=6)
    WC = "waitCount"
    writes = []
    for f in engine_functions(prog):
        for n in f.nodes:
            if n.get("k") == "un" and n.get("op", "").replace("post", "") in ("++", "--") and expr_plain(n.child("e")).endswith(WC):
                writes.append((f.name.split("::")[-1], n["op"].replace("post", "")))
            elif n.get("k") == "bin" and n.get("op", "").endswith("=") and n["op"] not in ("==", "!=", "<=", ">=") and expr_plain(n.child("l")).endswith(WC):
                writes.append((f.name.split("::")[-1], n["op"]))
    r.check(sorted(writes) == [("addTaskInputRequest", "++"), ("decrementTaskWaitCount", "--")], "waitCount|writers", "%s" % sorted(writes),
            "the wait count is written by %s" % sorted(writes))
    cg = CallGraph(prog)
    callers = sorted(set(f.name.split("::")[-1] for f, c in cg.callers_of(ENGINE + "::decrementTaskWaitCount")))
    r.check(callers == ["executeTasks"], "decrementTaskWaitCount|callers", "%s" % callers, "the wait count is lowered from %s" % callers)
    ex = efn(prog, "executeTasks")
    # --- input queue: popped request is parked exactly once
    pop = [c for c in ex.calls("pop_front") if expr_plain(c.child("obj")) == "inputRequests"]
    parks = [c for c in ex.calls("push_back") if expr_plain(arg_nodes(c)[0]) == "request" and
             any(t in expr_str(c.child("obj")) for t in ("pausedInputRequests", "requestedBy", "finishedInputRequests"))]
    ok = len(pop) == 1 and len(parks) == 3
    w1 = w2 = None
    if ok:
        pp = ex.elem_pos()[pop[0]["id"]]
        pk = set(ex.elem_pos()[c["id"]] for c in parks)
        # the task-less request leaves through `if (!request.taskInfo) continue;`
        dummy = set()
        for n in ex.nodes:
            if n.get("k") == "if" and expr_plain(n.child("c")).replace(" ", "") in ("(!request.taskInfo)", "!request.taskInfo"):
                for x in n.child("then").walk():
                    if x.get("k") == "continue" and x["id"] in ex.elem_pos():
                        dummy.add(ex.elem_pos()[x["id"]])
        # the `found` flag: nothing popped -> break
        nf = set()
        for n in ex.nodes:
            if n.get("k") == "if" and expr_plain(n.child("c")).replace(" ", "") in ("(!found)", "!found"):
                for x in n.child("then").walk():
                    if x.get("k") == "break" and x["id"] in ex.elem_pos():
                        nf.add(ex.elem_pos()[x["id"]])
        # "a request was taken": the false successor of `if (!found) break;` (found is set only next to the pop)
        taken = set()
        for n in ex.nodes:
            if n.get("k") == "if" and expr_plain(n.child("c")).replace(" ", "") in ("(!found)", "!found"):
                for b in ex.blocks.values():
                    if b.term is not None and b.term.get("cls") == "IfStmt" and b.cond() is not None and b.cond()["id"] == n["c"] and len(b.succs) == 2:
                        taken.add(b.succs[1])
        fw = [n for n in ex.nodes if n.get("k") == "bin" and n["op"] == "=" and expr_plain(n.child("l")) == "found"]
        src_ok = len(taken) == 1 and len(fw) == 1 and core(fw[0].child("r")).get("v") is True and ex.elem_pos()[fw[0]["id"]][0] == pp[0]
        if src_ok:
            tk = list(taken)[0]
            w1 = cfg.path_exists(ex, (tk, -1), lambda p, e: e == "EXIT" or p == pp, avoid=lambda p, e: p in pk or p in dummy)
            for k in pk:
                w2 = w2 or cfg.path_exists(ex, k, lambda p, e: p in pk, avoid=lambda p, e: p[0] == tk)
        ok = src_ok and w1 is None and w2 is None and len(dummy) == 1 and len(nf) == 1
    r.check(ok, "executeTasks|input-request-parked-exactly-once", "", "a request taken off the input queue can be dropped (%s) or parked twice (%s)" % (w1, w2), ex, path=w1 or w2)
    # --- finished list: one decrement per popped request
    fpop = [c for c in ex.calls("pop_back") if expr_plain(c.child("obj")) == "finishedInputRequests"]
    dec = ex.calls(ENGINE + "::decrementTaskWaitCount")
    pvs = [c for c in ex.calls() if (c.get("fn") or "").endswith("Task::provideValue")]
    ok = len(fpop) == 1 and len(dec) == 1 and len(pvs) == 1 and expr_plain(arg_nodes(dec[0])[0]) == "request.taskInfo"
    if ok:
        fp, dp, vp = ex.elem_pos()[fpop[0]["id"]], ex.elem_pos()[dec[0]["id"]], ex.elem_pos()[pvs[0]["id"]]
        ok = cfg.path_exists(ex, fp, lambda p, e: e == "EXIT" or p == fp, avoid=lambda p, e: p == dp) is None and \
            cfg.path_exists(ex, dp, lambda p, e: p == dp, avoid=lambda p, e: p == fp) is None and \
            cfg.path_exists(ex, dp, lambda p, e: p == vp, avoid=lambda p, e: p == fp) is None
        bf = BranchFacts(ex, kill="assign")
        ok = ok and has(facts_at(bf, pvs[0]), "request.orderOnly", False)
    r.check(ok, "executeTasks|finished-request-counted-once-after-value", "", "a finished input request does not lower its task's wait count exactly once after the value was provided", ex)
    # --- the containers that park requests are all drained into the finished list / input queue
    sinks = {"pausedInputRequests": "inputRequests", "requestedBy": "finishedInputRequests"}
    for src, dst in sinks.items():
        moved = False
        from sa.flow import taint_closure
        for f in engine_functions(prog):
            # everything in f that derives from the parked container: loop variables over it, iterators / references / copies initialised from it
            seeds = set()
            for n in f.nodes:
                if n.get("k") == "forrange" and src in expr_str(n.child("range")) and n.get("vardid") is not None:
                    seeds.add(n["vardid"])
                if n.get("k") == "decl":
                    for v in n.get("vars", []):
                        if "init" in v and src in expr_str(f.nodes[v["init"]]) and v.get("did") is not None:
                            seeds.add(v["did"])
            t = taint_closure(f, seeds) if seeds else set()
            for c in f.calls():
                nm = (c.get("fn") or "").split("::")[-1]
                if nm in ("insert", "push_back", "emplace_back") and "obj" in c and expr_plain(c.child("obj")).endswith(dst) and \
                        any(a is not None and (src in expr_str(a) or mentions(a, t)) for a in arg_nodes(c)):
                    moved = True
        r.check(moved, "%s|drained-into-%s" % (src, dst), "", "requests parked in %s are never moved to %s" % (src, dst))


def r_cancel_delegates(prog, rep):
    r = rep.rule("R-CANCEL-DELEGATES", "no cancellation delegate misses the cancellation: registration tests the cancel flag and inserts the delegate in one critical "
                                       "section of the mutex under which cancelBuild() notifies the registered delegates and sets the flag (test-then-insert outside "
                                       "it lets a delegate register between the notification round and the flag)", floor=4)
    M = "executionQueueMutex"
    add = efn(prog, "addCancellationDelegate")
    cb = efn(prog, "cancelBuild")
    ls = LockSets(add)
    reads = [n for n in add.nodes if n.get("k") == "member" and n.get("n") == "buildCancelled"]
    ins = [c for c in add.calls() if "obj" in c and expr_plain(c.child("obj")) == "cancellationDelegates" and (c.get("fn") or "").split("::")[-1] in ("insert", "emplace", "push_back")]
    tells = [c for c in add.calls() if (c.get("fn") or "").endswith("CancellationDelegate::buildCancelled")]
    ok = len(reads) >= 1 and len(ins) == 1
    r.check(ok and all(M in (ls.held_at_node(n) or set()) for n in reads), "addCancellationDelegate|flag-tested-under-mutex", "",
            "the cancel flag is tested without %s: a cancellation can complete between the test and the insertion" % M, add, reads[0] if reads else None)
    r.check(ok and M in (ls.held_at_node(ins[0]) or set()), "addCancellationDelegate|inserted-under-mutex", "", "the delegate is inserted without %s" % M, add)
    if ok:
        # one critical section: no release between the test and the insert (the guard object lives to the end of the function)
        bf = BranchFacts(add, kill="assign")
        st = facts_at(bf, ins[0])
        r.check(has(st, "buildCancelled", False), "addCancellationDelegate|insert-only-when-not-cancelled", "", "a delegate can be registered although the build is already cancelled "
                "(it would never be notified)", add, ins[0])
        r.check(len(tells) == 1 and has(facts_at(bf, tells[0]), "buildCancelled", True), "addCancellationDelegate|late-registrant-told", "",
                "a delegate registering after the cancellation is not told at once", add)
    lc = LockSets(cb)
    tells_cb = [c for c in cb.calls() if (c.get("fn") or "").endswith("CancellationDelegate::buildCancelled")]
    loop = [n for n in cb.nodes if n.get("k") in ("forrange", "for", "while") and tells_cb and any(x is tells_cb[0] for x in n.walk()) and
            "cancellationDelegates" in (expr_str(n.child("range")) if n.get("k") == "forrange" else " ".join(expr_str(y) for y in n.walk()))]
    sets = [n for n in cb.nodes if n.get("k") in ("bin", "call") and n.get("op") == "=" and expr_plain(n.child("l") if n.get("k") == "bin" else n.child("obj")) == "buildCancelled"]
    ok = len(loop) >= 1 and len(sets) == 1 and M in (lc.held_at_node(sets[0]) or set()) and \
        all(M in (lc.held_at_node(c) or set()) for c in cb.calls() if (c.get("fn") or "").endswith("CancellationDelegate::buildCancelled"))
    if ok:
        # the same guard object covers both: exactly one lock acquisition in the function
        guards = [n for n in cb.nodes if n.get("k") == "decl" and any("lock_guard" in cb.db_types[v["t"]] or "unique_lock" in cb.db_types[v["t"]] for v in n.get("vars", []))]
        ok = len(guards) == 1
    r.check(ok, "cancelBuild|notify-and-flag-in-one-section", "", "cancelBuild does not notify the delegates and set the flag inside one critical section of %s" % M, cb)
    # ... and the running jobs are interrupted by *every* cancel call while a queue exists — the flag may already be set by the engine itself (a
    # database error, a protocol error), and then the client's cancel is the only thing that interrupts the jobs the engine is waiting for
    caj = cb.calls("ExecutionQueue::cancelAllJobs")
    if caj:
        cp = set(cfg.pos_of(cb, c) for c in caj)

        def no_queue(atom, pol):
            a = atom.replace(".operator bool()", "").replace(".get()", "").replace("this->", "")
            if a == "executionQueue":
                return not pol
            if a in ("(executionQueue == nullptr)", "(nullptr == executionQueue)"):
                return pol
            return False
        w = cfg.path_exists_feasible(cb, cfg.entry_pos(cb), lambda p, e: e == "EXIT", avoid=lambda p, e: p in cp, infeasible=no_queue)
        r.check(w is None, "cancelBuild|jobs-cancelled-on-every-call", "", "cancelBuild can return without cancelling the queue's jobs although a queue exists (an early return when the "
                "flag is already set): a build the engine itself marked cancelled then waits for its jobs to end on their own", cb, caj[0])
    else:
        r.violation("cancelBuild|jobs-cancelled-on-every-call", "cancelBuild never cancels the execution queue's jobs", cb)
    rm = efn(prog, "removeCancellationDelegate")
    lr = LockSets(rm)
    er = [c for c in rm.calls() if "obj" in c and expr_plain(c.child("obj")) == "cancellationDelegates"]
    r.check(bool(er) and all(M in (lr.held_at_node(c) or set()) for c in er), "removeCancellationDelegate|under-mutex", "", "delegate removed without %s" % M, rm)


def r_dfs_pairing(prog, rep):
    r = rep.rule("R-DFS-PAIRING", "the cycle search keeps its path list and its on-path set in step: a node is appended to the reported list and inserted into the set "
                                  "together, on its first visit only; the search stops exactly when the insertion finds the node already on the path; a finished node "
                                  "leaves the list, the set and the stack together; the search starts at the requested key and walks the inverted wait-for graph", floor=6)
    f = efn(prog, "findCycle")
    bf = BranchFacts(f, kill="assign")
    push = [c for c in f.calls("push_back") if expr_plain(c.child("obj")) == "cycleList"]
    ins = [c for c in f.calls() if "obj" in c and expr_plain(c.child("obj")) == "cycleItems" and (c.get("fn") or "").split("::")[-1] == "insert"]
    ok = len(push) == 1 and len(ins) == 1 and expr_plain(arg_nodes(push[0])[0]) == "entry.node" and expr_plain(arg_nodes(ins[0])[0]) == "entry.node"
    if ok:
        ok = cfg.pos_of(f, push[0])[0] == cfg.pos_of(f, ins[0])[0] or (
            cfg.path_exists(f, cfg.pos_of(f, push[0]), cfg.is_exit, avoid=lambda p, e, t=cfg.pos_of(f, ins[0]): p == t) is None)
        ok = ok and has(facts_at(bf, push[0]), "predecessorIndex", True, ("==", "0")) and has(facts_at(bf, ins[0]), "predecessorIndex", True, ("==", "0"))
    r.check(ok, "findCycle|append-and-mark-together-on-first-visit", "", "a node is appended to the reported list without being marked on-path (or on a revisit)", f)
    # the break that ends the search: the one inside the loop that holds the on-path insertion (breaks of other loops are not its business)
    sl = next((a for a in f.ancestors(ins[0]) if a.get("k") in ("while", "for", "do")), None) if ins else None
    brk = [n for n in f.nodes if n.get("k") == "break" and sl is not None and
           next((a for a in f.ancestors(n) if a.get("k") in ("while", "for", "do", "forrange", "switch")), None) is sl]
    okb = len(brk) == 1 and any((not p) and "second" in a for a, p in (bf.at_node(brk[0]) or frozenset()))
    r.check(okb, "findCycle|stop-iff-already-on-path", "", "the search does not stop exactly when the node is already on the current path", f)
    er = [c for c in f.calls() if "obj" in c and expr_plain(c.child("obj")) == "cycleItems" and (c.get("fn") or "").split("::")[-1] == "erase"]
    pl = [c for c in f.calls("pop_back") if expr_plain(c.child("obj")) == "cycleList"]
    ps = [c for c in f.calls("pop_back") if expr_plain(c.child("obj")) == "stack"]
    okf = len(er) == 1 and len(pl) == 1 and len(ps) == 1 and expr_plain(arg_nodes(er[0])[0]) == "entry.node" and \
        len(set(cfg.pos_of(f, c)[0] for c in (er[0], pl[0], ps[0]))) == 1
    if okf:
        # finishing happens only after every predecessor was visited: the `index != size` arm continues
        st = facts_at(bf, er[0])
        okf = any((not p) and "predecessorIndex" in a and "size()" in a for a, p in st) or any(p and "predecessorIndex" in a and "size()" in a and "==" in a for a, p in st)
    r.check(okf, "findCycle|finished-node-leaves-list-set-and-stack-together", "", "a finished node does not leave the reported list, the on-path set and the stack together, "
            "after all its predecessors were visited", f)
    inc = [n for n in f.nodes if (n.get("k") == "bin" and n.get("op") == "+=" or n.get("k") == "un" and "++" in n.get("op", "")) and "predecessorIndex" in expr_str(n)]
    emp = [c for c in f.calls() if "obj" in c and expr_plain(c.child("obj")) == "stack" and (c.get("fn") or "").split("::")[-1] in ("emplace_back", "push_back")]
    oki = len(inc) == 1 and len(emp) == 1 and cfg.dominated_by(f, cfg.pos_of(f, emp[0]), lambda p, e, t=cfg.pos_of(f, inc[0]): p == t)[0] and \
        "predecessors[entry.predecessorIndex]" in " ".join(expr_plain(f.nodes[v["init"]]) for d in f.nodes if d.get("k") == "decl" for v in d.get("vars", []) if v.get("n") == "child" and "init" in v)
    r.check(oki, "findCycle|each-predecessor-visited-once", "", "the predecessor index is not advanced before the child is pushed", f)
    st0 = [d for d in f.nodes if d.get("k") == "decl" and any(v.get("n") == "stack" for v in d.get("vars", []))]
    ok0 = False
    if len(st0) == 1:
        v0 = [v for v in st0[0]["vars"] if v.get("n") == "stack"][0]
        sub = list(f.nodes[v0["init"]].walk()) if "init" in v0 else []
        ok0 = any(x.get("k") == "call" and (x.get("fn") or "").endswith("getRuleInfoForKey") and any(y.get("k") == "ref" and y.get("n") == "buildKey" for y in x.walk()) for x in sub)
    r.check(ok0, "findCycle|starts-at-requested-key", "", "the search does not start at the rule of the requested key", f)
    inv = [c for c in f.calls("push_back") if "predecessorGraph" in expr_str(c.child("obj"))]
    # predecessorGraph[<a successor of entry>].push_back(<the key of entry>): the subscript derives from entry.second (loop variable, index or
    # alias), the pushed value from entry.first
    oki2 = len(inv) == 1
    if oki2:
        from sa.flow import taint_closure
        seeds_s, seeds_n = set(), set()
        for n in f.nodes:
            if n.get("k") == "forrange" and n.get("vardid") is not None and "entry.second" in expr_plain(n.child("range")):
                seeds_s.add(n["vardid"])
            if n.get("k") == "decl":
                for v in n.get("vars", []):
                    if "init" in v and v.get("did") is not None:
                        t_ = expr_plain(f.nodes[v["init"]])
                        if "entry.second" in t_:
                            seeds_s.add(v["did"])
                        if t_.replace(" ", "") in ("entry.first", "(entry.first)"):
                            seeds_n.add(v["did"])
        ts, tn = taint_closure(f, seeds_s) if seeds_s else set(), taint_closure(f, seeds_n) if seeds_n else set()
        sub = inv[0].child("obj")
        val = arg_nodes(inv[0])[0]
        oki2 = (mentions(sub, ts) or "entry.second" in expr_plain(sub)) and not mentions(sub, tn) and \
            (mentions(val, tn) or expr_plain(val) == "entry.first") and not mentions(val, ts)
    r.check(oki2, "findCycle|graph-inverted", "", "the predecessor graph is not the inverse of the successor graph", f)
    rets = [n for n in f.nodes if n.get("k") == "return"]
    r.check(len(rets) == 1 and expr_plain(rets[0].child("e")).strip("()") in ("cycleList", "vector(cycleList)", "std::move(cycleList)") or
            (len(rets) == 1 and "cycleList" in expr_str(rets[0])), "findCycle|returns-path-list", "", "findCycle does not return the path list", f)



def run_all(prog, rep, skip=()):
    """Run every engine rule this property's file has not run itself (a rule id already present is not repeated).  Used by the properties whose
    anchor is the whole engine: almost any misbehaviour of BuildEngine.cpp breaks each of them (a stale result, an extra or missing run with a
    wrong reason, an outcome that depends on completion order, a stall reported as a cycle)."""
    import sys
    mod = sys.modules[__name__]
    fns = [getattr(mod, n) for n in sorted(dir(mod)) if n.startswith("r_") and callable(getattr(mod, n))]
    for fn in fns:
        if fn.__name__ in skip:
            continue
        have = set(r.id for r in rep.rules)
        n0 = len(rep.rules)
        fn(prog, rep)
        # drop what this property had already (the function may create more than one rule)
        keep = rep.rules[:n0]
        for r in rep.rules[n0:]:
            if r.id not in have:
                keep.append(r)
        rep.rules[:] = keep
