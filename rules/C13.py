"""C13 — File change detection is sound in every file-system mode (structural part)."""
import re
from sa.facts import expr_plain, AnalysisBroken, expr_str, qmatch, strip_casts, relpath, core
from sa import cfg
from sa.cfg import BranchFacts
from sa.flow import arg_nodes

UNITS = ["lib/Basic/FileInfo.cpp", "lib/Basic/FileSystem.cpp"]
THOROUGH_ALL_UNITS = False
EXPLANATION = (
    "FileInfo::operator== compares exactly {device, inode, size, modTime, checksum}, each field with the same field of the "
    "other operand; FileTimestamp and FileChecksum equality cover all their storage; != is the negation; getInfoForPath "
    "assigns every compared field from the matching stat member (lstat for links), returns the all-zero record only on a "
    "stat error and passes the missing-sentinel fix-up on every other return; the device-agnostic wrapper zeroes exactly "
    "{device, inode} and the checksum-only wrapper exactly {device, inode, modTime} (and assigns checksum) in both "
    "getFileInfo and getLinkInfo, neither touching mode or size; in every FileChecksumHasher implementation the storage "
    "copy() reads is the storage finalize() writes and no local shadows a member.")
NOT_DECIDED = "that different contents get different digests (MD5 / SHA-256 themselves); timestamp granularity of the file system."

EQ_FIELDS = {"device", "inode", "size", "modTime", "checksum"}


def conjuncts(n):
    n = core(n)
    if n is not None and n.get("k") == "bin" and n["op"] == "&&":
        return conjuncts(n.child("l")) + conjuncts(n.child("r"))
    return [n]


def eq_pairs(f):
    """[(left field, right field)] of `a == rhs.b` conjuncts of the returned expression."""
    # what has to be equal for the result to be true: the conjuncts of the final `return a == b && ...`, plus every
    # `if (a != b) return false;` / `if (!(a == b)) return false;` guard in front of it
    body = [f.nodes[c] for c in f.body.get("ch", [])] if f.body is not None and f.body.get("k") == "compound" else []
    eqs = []
    final = None

    def disj(n):
        n = core(n)
        if n is not None and n.get("k") == "bin" and n["op"] == "||":
            return disj(n.child("l")) + disj(n.child("r"))
        return [n]
    for st in body:
        if st.get("k") == "return" and final is None:
            final = st
        elif st.get("k") == "if" and "else" not in st and final is None:
            th = st.child("then")
            th = f.nodes[th["ch"][0]] if th.get("k") == "compound" and len(th.get("ch", [])) == 1 else th
            if th.get("k") != "return" or core(th.child("e")).get("v") is not False:
                return None
            for d in disj(st.child("c")):
                if d.get("k") == "un" and d.get("op") == "!":
                    eqs.append(("eq", core(d.child("e"))))
                elif d.get("k") in ("bin", "call") and d.get("op") == "!=":
                    eqs.append(("ne", d))
                else:
                    return None
        else:
            return None
    if final is None:
        return None
    items = [("eq", c) for c in conjuncts(final.child("e"))] + eqs
    out = []
    for kind_, c in items:
        want_op = "==" if kind_ == "eq" else "!="
        if c.get("k") == "bin" and c["op"] == want_op:
            l, r = core(c.child("l")), core(c.child("r"))
        elif c.get("k") == "call" and c.get("op") == want_op:
            ops = ([c.child("obj")] if "obj" in c else []) + arg_nodes(c)
            l, r = core(ops[0]), core(ops[1])
        else:
            out.append((expr_str(c), None))
            continue
        if l.get("k") == "member" and r.get("k") == "member":
            lb, rb = core(l.child("b")), core(r.child("b"))
            this_side = l if lb.get("k") == "this" else r
            rhs_side = r if this_side is l else l
            if core(this_side.child("b")).get("k") == "this" and expr_str(core(rhs_side.child("b"))) == "rhs":
                out.append((this_side["n"], rhs_side["n"]))
                continue
        out.append((expr_str(l), expr_str(r)))
    return out


def r_checksum_nonzero(prog, rep):
    r = rep.rule("R-CHECKSUM-NONZERO",
                 "FileChecksum::getChecksumForPath hands out the all-zero checksum only for a missing path: on every path to the return on which the "
                 "object exists, the result's bytes are written from a digest or given a non-zero marker.  (In checksum-only mode device, inode and "
                 "time are zeroed and equality ignores the mode: a zero-sized existing object with the all-zero checksum *is* the missing record.)", floor=1)
    f = prog.fn("FileChecksum::getChecksumForPath")
    rets = [n for n in f.nodes if n.get("k") == "return" and "e" in n]
    names = set(expr_str(core(n.child("e"))) for n in rets)
    if len(names) != 1:
        raise AnalysisBroken("getChecksumForPath returns %s" % sorted(names))
    res = names.pop()
    nonzero = set()
    for n in f.nodes:
        if n.get("k") == "bin" and n["op"] in ("=", "|=") and expr_str(n.child("l")).startswith(res + ".bytes[") and \
                core(n.child("r")) is not None and core(n.child("r")).get("k") == "int" and core(n.child("r")).get("v"):
            nonzero.add(cfg.pos_of(f, n))
        if n.get("k") == "call" and (n.get("fn") or "").split("::")[-1] == "copy" and any(expr_str(core(a)) == res + ".bytes" for a in arg_nodes(n)):
            nonzero.add(cfg.pos_of(f, n))
    miss = [a for b in f.blocks.values() if b.effective_cond() is not None for a, _p in cfg.cond_atoms(b.effective_cond(), True) if "isMissing" in a]
    if not nonzero or not miss:
        raise AnalysisBroken("getChecksumForPath: %d digest/marker writes, %d missing tests" % (len(nonzero), len(miss)))
    w = cfg.path_exists_feasible(f, cfg.entry_pos(f), lambda p, e: e == "EXIT", avoid=lambda p, e: p in nonzero,
                                 infeasible=lambda a, p: ("isMissing" in a) and p)
    where = None
    if w is not None:
        # name the last branch the witness path took
        for b in reversed(w):
            c = f.blocks[b].effective_cond()
            if c is not None:
                where = c
                break
    r.check(w is None, "getChecksumForPath|zero-only-when-missing", "%d digest/marker writes" % len(nonzero),
            "an existing object can get the all-zero checksum reserved for a missing path (path through `%s`)" % (expr_str(where)[:60] if where is not None else "?"), f, where)


def run(ctx):
    prog, rep = ctx.prog, ctx.report
    r_checksum_nonzero(prog, rep)

    r = rep.rule("R-FI-EQ", "equality of FileInfo / FileTimestamp / FileChecksum compares each listed field with the same field of rhs and nothing "
                            "is left out; != is the negation of ==", floor=8)
    for cls, want in (("FileInfo", EQ_FIELDS), ("FileTimestamp", {"seconds", "nanoseconds"})):
        f = prog.fn("llbuild::basic::%s::operator==" % cls)
        pairs = eq_pairs(f)
        if pairs is None:
            raise AnalysisBroken("%s::operator== has an unexpected shape" % cls)
        got = set()
        for a, b in pairs:
            site = "%s::operator==|%s" % (cls, a)
            r.check(a == b, site, "", "field %s is compared with %s" % (a, b), f)
            got.add(a)
        r.check(got == want, "%s::operator==|field-set" % cls, "%s" % sorted(got), "compares %s, expected %s" % (sorted(got), sorted(want)), f)
        if cls == "FileTimestamp":
            fields = set(fl["n"] for fl in prog.record("llbuild::basic::FileTimestamp")["fields"])
            r.check(fields == want, "FileTimestamp|all-storage-compared", "", "FileTimestamp has fields %s" % sorted(fields), f)
        g = prog.fn("llbuild::basic::%s::operator!=" % cls)
        ret = [n for n in g.nodes if n.get("k") == "return"]
        e = core(ret[0].child("e")) if ret else None
        ok = e is not None and e.get("k") == "un" and e["op"] == "!" and "==" in expr_str(e) and "rhs" in expr_str(e)
        r.check(ok, "%s::operator!=|negation" % cls, "", "!= is not the negation of ==: %s" % (expr_str(e) if e else None), g)
    f = prog.fn("llbuild::basic::FileChecksum::operator==")
    mc = f.calls("memcmp")
    ok = len(mc) == 1
    if ok:
        a = arg_nodes(mc[0])
        ok = expr_str(core(a[0])) == "bytes" and expr_str(core(a[1])) == "rhs.bytes" and core(a[2]).get("k") == "sizeof" and \
            core(a[2]).get("v") == 32 and "== 0" in expr_str(core([n for n in f.nodes if n.get("k") == "return"][0].child("e")))
        rec = prog.record("llbuild::basic::FileChecksum")
        ok = ok and [fl["n"] for fl in rec["fields"]] == ["bytes"] and "[32]" in rec["fields"][0]["type"]
    r.check(ok, "FileChecksum::operator==|whole-array", "", "checksum equality does not compare all 32 bytes of both operands", f)

    r = rep.rule("R-FI-STAT", "getInfoForPath fills every compared field from the matching stat member, stats links with lstat, returns the "
                              "all-zero record only when stat failed and passes the missing-sentinel fix-up otherwise", floor=8)
    f = prog.fn("llbuild::basic::FileInfo::getInfoForPath")
    want = {"device": "st_dev", "inode": "st_ino", "mode": "st_mode", "size": "st_size"}
    asg = {}
    for n in f.nodes:
        if n.get("k") == "bin" and n["op"] == "=" and expr_str(n.child("l")).startswith("result."):
            asg.setdefault(expr_str(n.child("l"))[len("result."):], n)
    for fld, st in want.items():
        n = asg.get(fld)
        r.check(n is not None and expr_str(core(n.child("r"))) == "buf." + st, "getInfoForPath|%s" % fld, "<- buf.%s" % st,
                "%s is assigned from %s" % (fld, expr_str(n.child("r")) if n is not None else "nothing"), f, n)
    for fld, st in (("modTime.seconds", "tv_sec"), ("modTime.nanoseconds", "tv_nsec")):
        n = asg.get(fld)
        src = ""
        if n is not None:
            v = core(n.child("r"))
            src = expr_str(v)
            if v.get("k") == "ref":
                for d in f.nodes:
                    if d.get("k") == "decl":
                        for var in d["vars"]:
                            if var["did"] == v["did"] and "init" in var:
                                src = expr_str(core(f.nodes[var["init"]]))
        r.check(n is not None and src.endswith("st_mtim." + st), "getInfoForPath|%s" % fld, "<- %s" % src, "%s is assigned from %s" % (fld, src), f, n)
    bf = BranchFacts(f, kill="assign")
    rets = [n for n in f.nodes if n.get("k") == "return"]
    ok_err = ok_fix = False
    for x in rets:
        st = bf.at_node(x) or frozenset()
        failed = any(p and " != " in a and "statResult" in a for a, p in st)
        if failed:
            ms = f.calls("memset")
            ok_err = len(ms) == 1 and core(arg_nodes(ms[0])[1]).get("v") == 0 and core(arg_nodes(ms[0])[2]).get("k") == "sizeof" and \
                cfg.dominated_by(f, cfg.pos_of(f, x), lambda p, e: cfg.elem_node(f, e) is ms[0])[0]
    # An existing object must never compare equal to the missing record.  Equality looks at device, inode, size, modTime and checksum — not at
    # the mode — and the device-agnostic wrapper zeroes device and inode.  So what has to be non-zero for every existing object is (size, modTime):
    # walk the success path with size == 0 and modTime == 0.0 but device / inode / mode non-zero; it must pass a store of a non-zero constant
    # into size or modTime before returning.
    env = {}
    res = "result"
    for fld, zero in (("size", True), ("modTime.seconds", True), ("modTime.nanoseconds", True), ("device", False), ("inode", False), ("mode", False)):
        for pre in ("", "this->", res + "."):
            for key in ("(%s%s == 0)" % (pre, fld), "(0 == %s%s)" % (pre, fld)):
                env[key] = zero
    for key in ("(statResult == 0)", "(0 == statResult)"):
        env[key] = True
    fixes = set()
    for n in f.nodes:
        if n.get("k") == "bin" and n["op"] in ("=", "|=", "+=") and core(n.child("r")) is not None and core(n.child("r")).get("k") == "int" and core(n.child("r")).get("v"):
            l_ = expr_str(n.child("l"))
            if l_.endswith(".size") or ".modTime." in l_:
                fixes.add(cfg.pos_of(f, n))
    w = cfg.reach_under(f, env, lambda p, e: e == "EXIT", lambda p, e: p in fixes)
    ok_fix = w is None and bool(fixes)
    r.check(ok_err, "getInfoForPath|error-returns-zero-record", "", "stat failure does not return the zeroed record", f)
    r.check(ok_fix, "getInfoForPath|sentinel-fixup", "%d fix-up store(s)" % len(fixes), "an existing empty object whose modification time is 0.0 is returned with size and time all zero: with device and "
            "inode cleared by the device-agnostic wrapper (the mode is not compared) it equals the missing record", f)
    # fact-based (ternary or if/else alike): lstat is reached exactly when asLink holds, stat exactly when it does not
    ls_ = [c for c in f.calls() if c.get("k") == "call" and (c.get("fn") or "").split("::")[-1] == "lstat"]
    st_ = [c for c in f.calls() if c.get("k") == "call" and (c.get("fn") or "").split("::")[-1] == "stat"]
    ok = len(ls_) == 1 and len(st_) == 1 and ("asLink", True) in (bf.at_node(ls_[0]) or frozenset()) and ("asLink", False) in (bf.at_node(st_[0]) or frozenset()) and \
        expr_plain(arg_nodes(ls_[0])[0]) == expr_plain(arg_nodes(st_[0])[0]) == "path.c_str()"
    r.check(ok, "getInfoForPath|lstat-for-links", "", "asLink does not select lstat", f)
    # the missing test looks at the fields the fix-up relies on
    g = prog.fn("llbuild::basic::FileInfo::isMissing")
    names = set(x["n"] for x in g.nodes if x.get("k") == "member")
    r.check({"device", "inode", "mode", "size", "seconds", "nanoseconds"} <= names, "isMissing|all-zero-test", "", "isMissing tests %s" % sorted(names), g)

    r = rep.rule("R-FS-WRAPPERS", "DeviceAgnosticFileSystem zeroes exactly {device, inode}; ChecksumOnlyFileSystem zeroes {device, inode, modTime} and "
                                  "assigns checksum — in both getFileInfo and getLinkInfo; neither writes mode or size", floor=4)
    table = {"DeviceAgnosticFileSystem": ({"device", "inode"}, set()),
             "ChecksumOnlyFileSystem": ({"device", "inode", "modTime", "seconds", "nanoseconds"}, {"checksum"})}
    for cls, (zeroed, assigned) in table.items():
        for meth in ("getFileInfo", "getLinkInfo"):
            f = prog.fn("llbuild::basic::%s::%s" % (cls, meth))
            z, a_ = set(), set()
            # the record's fields may be written in a helper of the class that is handed `info` by reference: its writes count, with the
            # helper's parameter standing for `info`
            sources = [(f, "info")]
            for c in f.calls():
                h = prog.functions.get(c.get("fk")) if c.get("k") == "call" and c.get("fk") else None
                if h is None or h is f or h.is_lambda or relpath(h.file) != relpath(f.file):
                    continue
                for i_, a0 in enumerate(arg_nodes(c)):
                    if a0 is not None and expr_str(core(a0)) == "info" and i_ < len(h.params) and "&" in h.db_types[h.params[i_]["t"]] and "const" not in h.db_types[h.params[i_]["t"]]:
                        sources.append((h, h.params[i_]["n"]))
            for g_, recv in sources:
              for n in g_.nodes:
                tgt = None
                val = None
                if n.get("k") == "bin" and n["op"] == "=":
                    tgt, val = n.child("l"), core(n.child("r"))
                elif n.get("k") == "call" and n.get("op") == "=" and "obj" in n:
                    tgt, val = n.child("obj"), core(arg_nodes(n)[0]) if arg_nodes(n) else None
                if tgt is None or not expr_str(tgt).startswith(recv + "."):
                    continue
                fld = expr_str(tgt).split(".")[-1]
                if val is not None and (val.get("k") == "int" and val.get("v") == 0 or val.get("k") in ("construct", "zeroinit", "initlist") and
                                        not any(x.get("k") in ("call",) for x in val.walk() if x is not val and x.get("k") == "call")):
                    if fld == "checksum":
                        a_.add(fld)
                    else:
                        z.add(fld)
                else:
                    a_.add(fld)
            for c in f.calls("readPathStringAndDigest"):
                if "info.checksum" in expr_str(c):
                    a_.add("checksum")
            base = f.calls("FileSystem::" + meth)
            ok = z == zeroed and a_ == assigned and len(base) == 1 and not ({"mode", "size"} & (z | a_))
            r.check(ok, "%s::%s" % (cls, meth), "zeroes %s assigns %s" % (sorted(z), sorted(a_)),
                    "zeroes %s, assigns %s; expected %s / %s on top of the wrapped %s" % (sorted(z), sorted(a_), sorted(zeroed), sorted(assigned), meth), f)

    # what the checksum of a link / a file is computed from
    rsrc = rep.rule("R-CHECKSUM-SOURCE", "in checksum-only mode the checksum describes the content: for a file the digest of the file at `path` (through the wrapped file "
                                         "system), for a symbolic link the digest of the link's target string as returned by readlink for that `path` — never a value "
                                         "that stays the same when the content changes (the link's own name, a constant)", floor=3)
    from sa.flow import taint_closure, mentions as _mn
    for f in prog.functions.values():
        if not f.cls.endswith("ChecksumOnlyFileSystem") or f.is_lambda:
            continue
        short = f.name.split("::")[-1]
        if short == "getFileInfo":
            cs = [c for c in f.calls() if (c.get("fn") or "").endswith("getFileChecksum")]
            okc = len(cs) == 1 and expr_plain(arg_nodes(cs[0])[0]) == "path" and any(
                n.get("k") in ("bin", "call") and n.get("op") == "=" and "info.checksum" in expr_str(n.child("l") if n.get("k") == "bin" else n.child("obj")) and any(x is cs[0] for x in n.walk())
                for n in f.nodes)
            rsrc.check(okc, "ChecksumOnlyFileSystem::getFileInfo|digest-of-path", "", "info.checksum is not the wrapped file system's checksum of `path`", f)
        if short == "getLinkInfo":
            rl = [c for c in f.calls() if (c.get("fn") or "") in ("readlink", "::readlink")]
            hs = [c for c in f.calls("readPathStringAndDigest")]
            okl = len(rl) == 1 and len(hs) == 1 and expr_plain(arg_nodes(rl[0])[0]) == "path.c_str()"
            why = "readlink(path) / one digest call not found"
            if okl:
                buf = strip_casts(arg_nodes(rl[0])[1])
                tb = taint_closure(f, {buf.get("did")}) if buf is not None and buf.get("did") is not None else set()
                hobj = hs[0].child("obj")
                src_ok = hobj is not None and _mn(hobj, tb)
                pd = [p_["did"] for p_ in f.params if p_["n"] == "path"]
                from_path_only = hobj is not None and _mn(hobj, set(pd)) and not src_ok
                okl = src_ok and "info.checksum" in expr_str(arg_nodes(hs[0])[0])
                why = "the link checksum is computed from %s, not from the target string readlink returned" % (expr_plain(hobj)[:50] if hobj is not None else "?")
                lenv = [v for d in f.nodes if d.get("k") == "decl" for v in d["vars"] if "init" in v and any(x is rl[0] for x in f.nodes[v["init"]].walk())]
                # the buffer is terminated at the returned length before use
                term = [n for n in f.nodes if n.get("k") == "bin" and n["op"] == "=" and n.child("l").get("k") == "index" and core(n.child("r")).get("v") == 0]
                okl = okl and (bool(term) or "len" in expr_str(hobj))
            rsrc.check(okl, "ChecksumOnlyFileSystem::getLinkInfo|digest-of-link-target", "", why, f)
    # the local file system's checksum is computed from the file on every call: no answer comes from anything remembered (a stat record is
    # exactly what checksum-only mode must not depend on)
    lfc = [g for g in prog.functions.values() if not g.is_lambda and g.name.split("::")[-1] == "getFileChecksum" and "LocalFileSystem" in (g.cls or "")]
    if len(lfc) != 1:
        raise AnalysisBroken("LocalFileSystem::getFileChecksum not found (%d)" % len(lfc))
    g = lfc[0]
    cc = [c for c in g.calls() if (c.get("fn") or "").endswith("FileChecksum::getChecksumForPath")]
    okl = len(cc) >= 1 and all(expr_plain(arg_nodes(c)[0]) == "path" for c in cc) and \
        cfg.must_pass_through(g, cfg.entry_pos(g), lambda p, e: any(cfg.elem_node(g, e) is c for c in cc))[0]
    rsrc.check(okl, "LocalFileSystem::getFileChecksum|digest-on-every-call", "", "a checksum can be returned without reading the file at `path` in this call (a remembered value, "
               "keyed by something other than the content)", g)
    for f in prog.functions.values():
        if f.name.endswith("FileChecksumHasher::readPathStringAndDigest") and not f.is_lambda:
            up_ = [c for c in f.calls() if (c.get("fn") or "").endswith("::update")]
            okp = len(up_) == 1 and "path" in expr_str(arg_nodes(up_[0])[0]) and expr_plain(arg_nodes(up_[0])[1]) == "path.size()" and \
                bool(f.calls("finalize")) and bool(f.calls("copy"))
            rsrc.check(okp, "readPathStringAndDigest|whole-string", "", "the string digest does not cover the whole string", f)

    r = rep.rule("R-HASHER-DEFUSE", "in every FileChecksumHasher implementation every member copy() reads is written by finalize(); no local of "
                                    "finalize/update/copy shadows a data member", floor=2)
    subs = prog.subclasses("FileChecksumHasher")
    if not subs:
        raise AnalysisBroken("no FileChecksumHasher implementation found")
    for cls in sorted(subs):
        rec = prog.records[cls]
        fields = {fl["n"]: fl["qn"] for fl in rec["fields"]}   # qualified names: decl ids are per translation unit
        short = cls.split("::")[-1]
        meths = {}
        for m in ("copy", "finalize", "update"):
            fs = [f for f in prog.functions.values() if f.cls == cls and f.name.split("::")[-1] == m]
            if len(fs) != 1:
                raise AnalysisBroken("%s::%s not found" % (short, m))
            meths[m] = fs[0]
        reads = set(x["n"] for x in meths["copy"].nodes if x.get("k") == "member" and x.get("qn") in fields.values())
        written = set()
        for x in meths["finalize"].nodes:
            if x.get("k") in ("call", "construct"):
                for a in arg_nodes(x):
                    if a is None:
                        continue
                    for y in a.walk():
                        if y.get("k") == "member" and y.get("qn") in fields.values():
                            written.add(y["n"])
            if x.get("k") == "bin" and x["op"] == "=":
                for y in x.child("l").walk():
                    if y.get("k") == "member" and y.get("qn") in fields.values():
                        written.add(y["n"])
        r.check(bool(reads) and reads <= written, "%s|copy-reads-what-finalize-writes" % short, "%s" % sorted(reads),
                "copy() reads member(s) %s but finalize() writes %s" % (sorted(reads), sorted(written)), meths["copy"])
        for m, f in meths.items():
            shadows = [v["n"] for d in f.nodes if d.get("k") == "decl" for v in d["vars"] if v["n"] in fields]
            r.check(not shadows, "%s::%s|no-shadowing" % (short, m), "", "local(s) %s shadow data members" % shadows, f)
    r2 = rep.rule("R-HASH-WHOLE-FILE", "the content digest covers the whole file: the read loop ends only when fread returns 0, every block read is fed to "
                                       "update() with exactly the byte count read, from the buffer it was read into (whose full size is offered to fread), and "
                                       "finalize() follows the loop", floor=5)
    h = prog.fn("FileChecksumHasher::readAndDigest")
    loops = [n for n in h.nodes if n.get("k") in ("while", "for", "do")]
    fr = [c for c in h.calls() if (c.get("fn") or "") == "fread"]
    up = [c for c in h.calls() if (c.get("fn") or "").endswith("::update")]
    ok = len(loops) == 1 and len(fr) == 1 and len(up) == 1
    if not ok:
        raise AnalysisBroken("readAndDigest: %d loops, %d fread, %d update" % (len(loops), len(fr), len(up)))
    lp = loops[0]
    body = list(lp.child("body").walk())
    esc = [x for x in body if x.get("k") in ("break", "return", "continue", "goto")]
    r2.check(not esc, "readAndDigest|loop-ends-only-at-eof", "", "the read loop can stop (%s at line %s) before fread reports end of file" %
             (esc[0]["k"] if esc else "", esc[0].get("ln") if esc else ""), h, esc[0] if esc else None)
    cnd = core(lp.child("c"))
    okc = cnd is not None and cnd.get("k") == "bin" and cnd["op"] in (">", "!=") and core(cnd.child("r")).get("v") == 0 and any(x is fr[0] for x in cnd.child("l").walk())
    asg = [x for x in (cnd.child("l").walk() if okc else []) if x.get("k") == "bin" and x["op"] == "=" and any(y is fr[0] for y in x.child("r").walk())]
    r2.check(okc and len(asg) == 1, "readAndDigest|loop-condition-is-bytes-read", "", "the loop condition is not `(n = fread(...)) > 0`", h, lp)
    fa = arg_nodes(fr[0])

    def cval(n):
        n = core(n)
        if n is None:
            return None
        if n.get("k") in ("int", "sizeof") and "v" in n:
            return n["v"]
        if n.get("k") == "bin" and n.get("op") in ("+", "-", "*", "/"):
            a_, b_ = cval(n.child("l")), cval(n.child("r"))
            if a_ is None or b_ is None or (n["op"] == "/" and b_ == 0):
                return None
            return {"+": a_ + b_, "-": a_ - b_, "*": a_ * b_, "/": a_ // b_}[n["op"]]
        return None
    bt = strip_casts(fa[0]).ctype() or ""
    mext = re.search(r"\[(\d+)\]$", bt)
    cnt = cval(fa[2]) if len(fa) == 4 else None
    okf = len(fa) == 4 and core(fa[1]).get("v") == 1 and mext is not None and "char" in bt and cnt is not None and 1 <= cnt <= int(mext.group(1)) and \
        expr_plain(fa[3]) in ("file", "this->file")
    r2.check(okf, "readAndDigest|fread-within-buffer", "", "fread is not (buffer, 1, n <= sizeof(buffer), file): %s" % expr_str(fr[0]), h, fr[0])
    ua = arg_nodes(up[0])
    nvar = expr_plain(asg[0].child("l")) if asg else None
    oku = len(ua) == 2 and expr_plain(ua[0]) == expr_plain(fa[0]) and expr_plain(ua[1]) == nvar and any(x is up[0] for x in body) and \
        not any(a.get("k") in ("if", "switch", "cond") for a in h.ancestors(up[0]) if any(y is a for y in body))
    r2.check(oku, "readAndDigest|every-block-digested", "", "update() is not called unconditionally with (buffer, bytes read): %s" % expr_str(up[0]), h, up[0])
    fin = [c for c in h.calls() if (c.get("fn") or "").endswith("::finalize")]
    okz = len(fin) == 1 and cfg.dominated_by(h, cfg.pos_of(h, fin[0]), lambda p, e: cfg.elem_node(h, e) is fr[0])[0]
    r2.check(okz, "readAndDigest|finalize-after-loop", "", "finalize() does not follow the read loop", h)
    # the buffer is not re-declared smaller than what sizeof reports: sizeof(buffer) names the same array (checked textually above)

    # digest path: missing -> zero, directory -> marker, file -> digest of the contents
    f = prog.fn("llbuild::basic::FileChecksum::getChecksumForPath")
    ok = bool(f.calls("readAndDigest")) and bool(f.calls("copy")) and bool(f.calls("FileInfo::isMissing")) and bool(f.calls("FileInfo::isDirectory"))
    r.check(ok, "getChecksumForPath|kinds", "", "checksum does not distinguish missing / directory / file contents", f)


VARIANTS = [
    dict(name="link-checksum-from-link-name", file="include/llbuild/Basic/FileSystem.h",
         old="      PlatformSpecificHasher(std::string(buff)).readPathStringAndDigest(info.checksum);", new="      PlatformSpecificHasher(path).readPathStringAndDigest(info.checksum);",
         expect=("R-CHECKSUM-SOURCE", "digest-of-link-target")),
    dict(name="benign-link-target-named-local", file="include/llbuild/Basic/FileSystem.h",
         old="      PlatformSpecificHasher(std::string(buff)).readPathStringAndDigest(info.checksum);", new="      std::string target(buff, len);\n      PlatformSpecificHasher(target).readPathStringAndDigest(info.checksum);",
         expect=None),
    dict(name="hash-stops-after-first-block", file="include/llbuild/Basic/FileInfo.h", old="        update(buffer, bytesRead);\n      }", new="        update(buffer, bytesRead);\n        if (bytesRead <= sizeof(buffer))\n          break;\n      }",
         expect=("R-HASH-WHOLE-FILE", "loop-ends-only-at-eof")),
    dict(name="hash-update-with-buffer-size", file="include/llbuild/Basic/FileInfo.h", old="        update(buffer, bytesRead);", new="        update(buffer, sizeof(buffer));", expect=("R-HASH-WHOLE-FILE", "every-block-digested")),
    dict(name="hash-reads-half-buffer", file="include/llbuild/Basic/FileInfo.h", old="fread(buffer, 1, sizeof(buffer), file)", new="fread(buffer, 1, sizeof(buffer) / 2, file)", expect=None),
    dict(name="hash-skips-short-blocks", file="include/llbuild/Basic/FileInfo.h", old="        update(buffer, bytesRead);", new="        if (bytesRead == sizeof(buffer)) update(buffer, bytesRead);", expect=("R-HASH-WHOLE-FILE", "every-block-digested")),
    dict(name="md5-local-shadows-member", file="include/llbuild/Basic/FileInfo.h",
         old="  void finalize() override {\n    hasher.final(output);\n  }", new="  void finalize() override {\n    llvm::MD5::MD5Result output;\n    hasher.final(output);\n  }",
         expect=("R-HASHER-DEFUSE", "FileChecksumHasherMD5")),
    dict(name="eq-inode-against-device", file="include/llbuild/Basic/FileInfo.h", old="            inode == rhs.inode &&", new="            inode == rhs.device &&",
         expect=("R-FI-EQ", "FileInfo::operator==|inode")),
    dict(name="eq-drops-size", file="include/llbuild/Basic/FileInfo.h", old="            size == rhs.size &&\n", new="", expect=("R-FI-EQ", "FileInfo::operator==|field-set")),
    dict(name="timestamp-eq-ignores-nanoseconds", file="include/llbuild/Basic/FileInfo.h",
         old="    return seconds == rhs.seconds && nanoseconds == rhs.nanoseconds;", new="    return seconds == rhs.seconds;", expect=("R-FI-EQ", "FileTimestamp::operator==|field-set")),
    dict(name="checksum-eq-half", file="include/llbuild/Basic/FileInfo.h", old="memcmp(bytes, rhs.bytes, sizeof(bytes)) == 0", new="memcmp(bytes, rhs.bytes, 16) == 0",
         expect=("R-FI-EQ", "FileChecksum::operator==")),
    dict(name="stat-size-from-blocks", file="lib/Basic/FileInfo.cpp", old="  result.size = buf.st_size;", new="  result.size = buf.st_blocks;", expect=("R-FI-STAT", "getInfoForPath|size")),
    dict(name="links-statted-through", file="lib/Basic/FileInfo.cpp", old="    asLink ? sys::lstat(path.c_str(), &buf) : sys::stat(path.c_str(), &buf);",
         new="    asLink ? sys::stat(path.c_str(), &buf) : sys::stat(path.c_str(), &buf);", expect=("R-FI-STAT", "lstat-for-links")),
    dict(name="sentinel-fixup-removed", file="lib/Basic/FileInfo.cpp", old="  if (result.isMissing()) {\n    result.modTime.nanoseconds = 1;", new="  if (false) {\n    result.modTime.nanoseconds = 1;",
         expect=("R-FI-STAT", "sentinel-fixup")),
    dict(name="device-agnostic-link-keeps-inode", file="include/llbuild/Basic/FileSystem.h",
         old="    auto info = impl->getLinkInfo(path);\n\n    info.device = 0;\n    info.inode = 0;\n\n    return info;", new="    auto info = impl->getLinkInfo(path);\n\n    info.device = 0;\n\n    return info;",
         expect=("R-FS-WRAPPERS", "DeviceAgnosticFileSystem::getLinkInfo")),
    dict(name="checksum-only-keeps-mtime", file="include/llbuild/Basic/FileSystem.h",
         old="    info.modTime = FileTimestamp();\n    info.modTime.seconds = 0;\n    info.modTime.nanoseconds = 0;\n\n    info.checksum = impl->getFileChecksum(path);",
         new="    info.checksum = impl->getFileChecksum(path);", expect=("R-FS-WRAPPERS", "ChecksumOnlyFileSystem::getFileInfo")),
    dict(name="checksum-only-zeroes-size", file="include/llbuild/Basic/FileSystem.h",
         old="    info.modTime.nanoseconds = 0;\n\n    info.checksum = impl->getFileChecksum(path);", new="    info.modTime.nanoseconds = 0;\n    info.size = 0;\n\n    info.checksum = impl->getFileChecksum(path);",
         expect=("R-FS-WRAPPERS", "ChecksumOnlyFileSystem::getFileInfo")),
    dict(name="benign-eq-reordered", file="include/llbuild/Basic/FileInfo.h", old="    return (device == rhs.device &&\n            inode == rhs.inode &&",
         new="    return (rhs.inode == inode &&\n            device == rhs.device &&", expect=None),
    dict(name="failed-digest-gets-missing-checksum", file="lib/Basic/FileInfo.cpp", old="      memset(result.bytes, 0, sizeof(result.bytes));\n      result.bytes[0] = 2;", new="      memset(result.bytes, 0, sizeof(result.bytes));",
         expect=("R-CHECKSUM-NONZERO", "zero-only-when-missing")),
    dict(name="empty-file-gets-missing-checksum", file="lib/Basic/FileInfo.cpp", old="  } else if (fileInfo.isDirectory()) {\n    result.bytes[0] = 1;", new="  } else if (fileInfo.size == 0) {\n    memset(result.bytes, 0, sizeof(result.bytes));\n  } else if (fileInfo.isDirectory()) {\n    result.bytes[0] = 1;",
         expect=("R-CHECKSUM-NONZERO", "zero-only-when-missing")),
    dict(name="directory-marker-dropped", file="lib/Basic/FileInfo.cpp", old="  } else if (fileInfo.isDirectory()) {\n    result.bytes[0] = 1;", new="  } else if (fileInfo.isDirectory()) {\n    result.bytes[0] = 0;",
         expect=("R-CHECKSUM-NONZERO", "zero-only-when-missing")),
    dict(name="benign-checksum-early-return-for-missing", file="lib/Basic/FileInfo.cpp", old="  if (fileInfo.isMissing()) {\n    memset(result.bytes, 0, sizeof(result.bytes));\n  } else if (fileInfo.isDirectory()) {",
         new="  memset(result.bytes, 0, sizeof(result.bytes));\n  if (fileInfo.isMissing())\n    return result;\n  if (fileInfo.isDirectory()) {", expect=None),
    dict(name="checksum-remembered-per-stat-record", file="lib/Basic/FileSystem.cpp", old="    return FileChecksum::getChecksumForPath(path);",
         new="    static std::pair<FileInfo, FileChecksum> last;\n    auto info = FileInfo::getInfoForPath(path);\n    if (!info.isMissing() && last.first == info)\n      return last.second;\n    last = std::make_pair(info, FileChecksum::getChecksumForPath(path));\n    return last.second;",
         expect=("R-CHECKSUM-SOURCE", "digest-on-every-call")),
]
