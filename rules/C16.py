"""C16 — Every job runs exactly once within the lane limit; every process accounted for (structural part)."""
from sa.facts import AnalysisBroken, expr_str, qmatch, strip_casts, relpath, core, expr_plain
from sa import cfg
from sa.cfg import BranchFacts
from sa.flow import arg_nodes, mentions
from sa.once import OnceChecker, describe_path
from sa.lockset import LockSets, entry_locksets, field_accesses

UNITS = ["lib/Basic/Subprocess.cpp", "lib/Basic/LaneBasedExecutionQueue.cpp", "lib/Basic/SerialQueue.cpp",
         "lib/Basic/ExecutionQueue.cpp"]
THOROUGH_ALL_UNITS = False

EXPLANATION = (
    "Exactly-once typestate of the process completion callback along every CFG path of spawnProcess, "
    "cleanUpExecutedProcess, both executeProcess implementations and their continuation lambdas (cancelled and "
    "error paths included); started/finished delegate pairing on every path; posix_spawn executed under the "
    "process-group mutex on a path where the group was tested open, with the same guard handed to pgrp.add; "
    "lockset of the queue state (ready queues, cancelled, shutdown, queueComplete, operations); every untimed "
    "condition wait sits in a loop re-testing its predicate under the mutex of its producers, and every producer "
    "notifies; a lane leaves only on shutdown with both queues empty and the destructor joins every lane; "
    "environment precedence order; exit-status mapping.")
NOT_DECIDED = ("the concurrency bound and exactly-once execution of jobs as run-time facts; output ordering; signal "
               "delivery; fairness.")

SINKS = [
    ("<callable>releaseFn", None),     # ProcessReleaseFn: each implementation is checked below (R-RELEASE-ONCE)
    ("std::thread::thread", None),     # a std::thread runs its callable once
]


def run(ctx):
    prog, rep = ctx.prog, ctx.report
    oc = OnceChecker(prog, sinks=SINKS)

    # ---------------------------------------------------------------- completion exactly once
    r = rep.rule("R-PROC-ONCE",
                 "on every CFG path from entry to exit the process completion callback is discharged exactly once "
                 "(invoked, or handed to exactly one continuation that discharges it once)", floor=4)
    targets = []
    for f in prog.functions.values():
        if f.is_lambda:
            continue
        for i, p in enumerate(f.params):
            t = f.db_types[p["ct"]]
            if "ProcessResult" in t and "function<" in t and p["n"]:
                targets.append((f, i))
    for f, i in sorted(targets, key=lambda x: (x[0].file, x[0].line)):
        res = oc.check_param(f, i)
        cls = f.cls.split("::")[-1]
        site = "%s%s|%s" % (cls + "::" if cls else "", f.name.split("::")[-1], f.params[i]["n"])
        if res is None or res.ok:
            r.ok(site, "exit counts %s; %s" % (res.exit_counts if res else "?", "; ".join(res.sites)[:160] if res else ""), f)
        else:
            seen = set()
            own = [p_ for p_ in res.problems if not p_[1].startswith("in callee ")]
            if not own:
                r.ok(site, "own paths fine (a callee is reported at its own site)", f)
            for kind, msg, node, path in own:
                key = site + "|" + kind
                if key in seen:
                    continue
                seen.add(key)
                r.violation(key, msg, f, node, path=path)

    r = rep.rule("R-RELEASE-ONCE",
                 "every ProcessReleaseFn implementation invokes the wait continuation it is given exactly once", floor=2)
    for f in prog.functions.values():
        if not f.is_lambda or len(f.params) != 1:
            continue
        t = f.db_types[f.params[0]["ct"]]
        if t.replace(" ", "") not in ("std::function<void()>&&",):
            continue
        parent = prog.functions.get(f.parent)
        if parent is None or parent.name.split("::")[-1] != "executeProcess":
            continue
        res = oc.check(f, {f.params[0]["did"]}, False, label="processWait")
        site = "%s::executeProcess|releaseFn" % parent.cls.split("::")[-1]
        if res.ok:
            r.ok(site, "; ".join(res.sites)[:120], f)
        else:
            for kind, msg, node, path in res.problems[:2]:
                r.violation(site + "|" + kind, msg, f, node, path=path)

    # ---------------------------------------------------------------- started / finished pairing
    r = rep.rule("R-PROC-ORDER",
                 "on every path of spawnProcess on which processStarted was reported, processFinished is reported "
                 "(here or by the clean-up continuation) before the function is left; the parent ends of the pipes are "
                 "drained before the process is reaped", floor=3)
    f = prog.fn("llbuild::basic::spawnProcess")
    started = f.calls("processStarted")
    if len(started) < 3:
        raise AnalysisBroken("spawnProcess: only %d processStarted sites" % len(started))

    bf0 = BranchFacts(f, kill="assign")

    def finishes(pos, e):
        n = cfg.elem_node(f, e)
        if n is None:
            return False
        if n.get("k") == "call" and n.get("op") == "()" and expr_str(core(n.child("obj"))) == "completionFn":
            # the not-launched block: entered after a start only through `pid = -1`, which R-PROC-ORDER
            # requires to be preceded by processFinished (instance spawnProcess|pid-reset-after-finished)
            st = bf0.at(pos) or frozenset()
            if any(p_ and a.startswith("(") and " == " in a and "pid" in a and "1" in a for a, p_ in st):
                return True
        if n.get("k") == "call":
            nm = (n.get("fn") or "").split("::")[-1]
            if nm in ("processFinished", "cleanUpExecutedProcess"):
                return True
            # continuation handed to releaseFn that cleans up
            if n.get("ck") == "operator" and n.get("op") == "()" and expr_str(core(n.child("obj"))) == "releaseFn":
                for x in n.walk():
                    if x.get("k") == "lambda":
                        lf = prog.lambda_fn(x)
                        if lf is not None and lf.calls("cleanUpExecutedProcess"):
                            return True
        return False
    for i, s in enumerate(started):
        ok, w = cfg.must_pass_through(f, cfg.pos_of(f, s), finishes)
        r.check(ok, "spawnProcess|started#%d->finished" % i, "", "processStarted reported but a path leaves without processFinished / clean-up",
                f, s, path=describe_path(f, w))
    resets = [n for n in f.nodes if n.get("k") == "bin" and n["op"] == "=" and expr_str(n.child("l")) == "pid"]
    okr = bool(resets)
    for x in resets:
        okr = okr and cfg.dominated_by(f, cfg.pos_of(f, x), lambda p, e: (cfg.elem_node(f, e) or {}).get("k") == "call" and
                                       (cfg.elem_node(f, e).get("fn") or "").endswith("processFinished"))[0]
    r.check(okr, "spawnProcess|pid-reset-after-finished", "%d reset(s)" % len(resets),
            "pid is reset to the not-launched value without processFinished having been reported", f)
    g = prog.fn("cleanUpExecutedProcess")
    fin = g.calls("processFinished")
    comp = [n for n in g.nodes if n.get("k") == "call" and n.get("op") == "()" and expr_str(core(n.child("obj"))) == "completionFn"]
    okp = bool(comp)
    for c in comp:
        ok, w = cfg.dominated_by(g, cfg.pos_of(g, c), lambda p, e: (cfg.elem_node(g, e) or {}).get("k") == "call" and
                                 (cfg.elem_node(g, e).get("fn") or "").endswith("processFinished"))
        okp = okp and ok
    r.check(okp, "cleanUpExecutedProcess|finished-before-completion", "%d completion sites" % len(comp),
            "completion callback reachable without a preceding processFinished", g)
    waits = g.calls("wait4")
    rem = g.calls("ProcessGroup::remove")
    r.check(bool(waits) and len(rem) == 1 and cfg.dominated_by(g, cfg.pos_of(g, rem[0]), lambda p, e: (cfg.elem_node(g, e) or {}).get("k") == "call" and
            (cfg.elem_node(g, e).get("fn") or "") == "wait4")[0], "cleanUpExecutedProcess|reap-then-remove", "",
            "process removed from the group without being reaped first", g)
    # output drained (EOF) before the clean-up in spawnProcess: the final clean-up call is outside the poll loop
    cl = f.calls("cleanUpExecutedProcess")
    loops = [n for n in f.nodes if n.get("k") == "while" and "activeEvents" in expr_str(n.child("c"))]
    ok = len(cl) == 1 and len(loops) == 1 and not any(x is cl[0] for x in loops[0].walk())
    if ok:
        # every way out of the read loop other than its own condition turning false (all descriptors at
        # EOF) must be an error exit: a `break` dominated by an in-loop processHadError, possibly through a
        # flag that is only ever set right after such a report
        lp = loops[0]
        in_loop = lambda n: any(x is n for x in lp.walk())
        err_pred = lambda p, e: (cfg.elem_node(f, e) or {}).get("k") == "call" and \
            (cfg.elem_node(f, e).get("fn") or "").endswith("processHadError") and in_loop(cfg.elem_node(f, e))
        flags = {}
        for n in f.nodes:
            if n.get("k") == "bin" and n["op"] == "=" and n.child("l").get("k") == "ref" and in_loop(n) and \
                    core(n.child("r")).get("k") == "bool" and core(n.child("r")).get("v") is True:
                nm = n.child("l")["n"]
                flags.setdefault(nm, True)
                flags[nm] = flags[nm] and cfg.dominated_by(f, cfg.pos_of(f, n), err_pred)[0]
        bfl = BranchFacts(f, kill="assign")
        for b in [n for n in f.nodes if n.get("k") == "break" and in_loop(n)]:
            encl = None
            for a in f.ancestors(b):
                if a.get("k") in ("while", "for", "do", "switch", "forrange"):
                    encl = a
                    break
            if encl is not lp:
                continue
            st = bfl.at_node(b) or frozenset()
            good = cfg.dominated_by(f, cfg.pos_of(f, b), err_pred)[0] or any(p_ and flags.get(a) for a, p_ in st)
            ok = ok and good
    r.check(ok, "spawnProcess|drain-before-reap", "", "clean-up reachable while pipe events are still active", f, cl[0] if cl else None)

    # ---------------------------------------------------------------- spawn under lock
    r = rep.rule("R-SPAWN-UNDER-LOCK",
                 "posix_spawn runs while the process-group mutex is held, on a path where the group was observed open; "
                 "the same guard is handed to pgrp.add; both queues test `cancelled` before spawning", floor=4)
    ls = LockSets(f)
    sp = f.calls("posix_spawn")
    if len(sp) != 1:
        raise AnalysisBroken("spawnProcess: %d posix_spawn sites" % len(sp))
    held = ls.held_at_node(sp[0]) or set()
    r.check("pgrp.mutex" in held, "spawnProcess|posix_spawn-locked", "held: %s" % sorted(held), "posix_spawn executed without pgrp.mutex (held: %s)" % sorted(held), f, sp[0])
    bf = BranchFacts(f, kill="assign")
    st = bf.at_node(sp[0]) or frozenset()
    closed_calls = f.calls("isClosed")
    okc = ("wasCancelled", False) in st and len(closed_calls) == 1 and "pgrp.mutex" in (ls.held_at_node(closed_calls[0]) or set())
    r.check(okc, "spawnProcess|open-checked-under-lock", "", "spawn reachable without the group having been tested open under the lock", f, sp[0])
    adds = f.calls("ProcessGroup::add")
    okc = len(adds) == 1 and "guard" in expr_str(arg_nodes(adds[0])[0]) and "pgrp.mutex" in (ls.held_at_node(adds[0]) or set())
    r.check(okc, "spawnProcess|add-with-guard", "", "pid registered without the spawn guard", f, adds[0] if adds else None)
    for q in ("LaneBasedExecutionQueue", "SerialExecutionQueue"):
        g = prog.fn(q + "::executeProcess")
        bfq = BranchFacts(g, kill="assign")
        spn = g.calls("spawnProcess")
        st = bfq.at_node(spn[0]) if spn else None
        r.check(bool(spn) and st is not None and any(a.replace("cast<bool>", "").strip("()") in ("cancelled", "cancelled.load") or a == "cancelled" or "cancelled" in a and not p
                                                      for a, p in st if not p),
                "%s|cancelled-tested" % q, "", "process spawned without testing `cancelled`", g, spn[0] if spn else None)

    r = rep.rule("R-CANCEL-CLOSES-GROUP",
                 "cancelAllJobs of both queues marks the queue cancelled and closes the process group while holding the group mutex "
                 "(the gate spawnProcess re-checks under that mutex), and only then signals the running children; the kill-escalation "
                 "thread is started afterwards", floor=4)
    for q in ("LaneBasedExecutionQueue", "SerialExecutionQueue"):
        g = prog.fn(q + "::cancelAllJobs")
        lsq = LockSets(g)
        cl = g.calls("ProcessGroup::close")
        sg = g.calls("ProcessGroup::signalAll")
        setc = [n for n in g.nodes if (n.get("k") == "bin" and n["op"] == "=" or n.get("k") == "call" and n.get("op") == "=") and
                expr_str(core(n.child("l") if n.get("k") == "bin" else n.child("obj"))) == "cancelled"]
        ok = len(cl) == 1 and "spawnedProcesses.mutex" in (lsq.held_at_node(cl[0]) or set()) and expr_str(core(cl[0].child("obj"))) == "spawnedProcesses"
        r.check(ok, "%s::cancelAllJobs|group-closed-under-its-mutex" % q, "", "cancellation does not close the process group under the group mutex: a lane "
                "that passed the `cancelled` test can still spawn after cancellation", g)
        ok = len(setc) == 1 and bool(cl) and "spawnedProcesses.mutex" in (lsq.held_at_node(setc[0]) or set())
        r.check(ok, "%s::cancelAllJobs|cancelled-set-with-group-lock" % q, "", "`cancelled` is not set in the critical section that closes the group", g)
        ok = len(sg) == 1 and bool(cl) and cfg.dominated_by(g, cfg.pos_of(g, sg[0]), lambda p, e, c_=cl[0]: cfg.elem_node(g, e) is c_)[0] and \
            "spawnedProcesses.mutex" not in (lsq.held_at_node(sg[0]) or set()) and core(arg_nodes(sg[0])[0]).get("v") == 2
        r.check(ok, "%s::cancelAllJobs|close-then-sigint" % q, "", "children are not signalled with SIGINT after the group was closed (or signalled while holding its mutex)", g)
    pg_close = prog.fn("ProcessGroup::close")
    pg_isclosed = prog.fn("ProcessGroup::isClosed")
    ok = any(n.get("k") == "bin" and n["op"] == "=" and expr_str(n.child("l")) == "closed" and core(n.child("r")).get("v") is True for n in pg_close.nodes) and \
        any(n.get("k") == "return" and expr_str(core(n.child("e"))) == "closed" for n in pg_isclosed.nodes)
    r.check(ok, "ProcessGroup|close-sets-what-isClosed-reads", "", "close()/isClosed() do not write/read the same flag", pg_close)

    # ---------------------------------------------------------------- lockset of queue state
    r = rep.rule("R-QUEUE-LOCKSET", "queue state is accessed only under its mutex (writes always; reads unless exempt)", floor=15)
    tables = [
        ("LaneBasedExecutionQueue", {"readyJobs": "readyJobsMutex", "readyPriorityJobs": "readyJobsMutex",
                                     "cancelled": "readyJobsMutex", "shutdown": "readyJobsMutex",
                                     "queueComplete": "queueCompleteMutex", "killAfterTimeoutThread": "killAfterTimeoutThreadMutex"}),
        ("SerialQueueImpl", {"operations": "operationsMutex"}),
        ("SerialExecutionQueue", {"queueComplete": "queueCompleteMutex", "killAfterTimeoutThread": "killAfterTimeoutThreadMutex"}),
    ]
    EXEMPT = {
        ("LaneBasedExecutionQueue", "readyJobs", "LaneBasedExecutionQueue"): "constructor initialiser: no lane thread exists yet",
    }
    for cls, table in tables:
        methods = [m for m in prog.functions.values() if qmatch(m.cls, cls) or (m.is_lambda and cls in (m.parent or ""))]
        entry = entry_locksets(prog, methods)
        for m in methods:
            lsm = LockSets(m, entry.get(m.key, frozenset()))
            for field, mutex in table.items():
                for n, kind in field_accesses(m, cls + "::" + field):
                    mname = m.name.split("::")[-1] if not m.is_lambda else m.key.split("::")[-2] + "::lambda"
                    site = "%s::%s|%s|%s" % (cls, mname, field, kind)
                    if m.raw.get("ctor") and cfg.pos_of(m, n) is None:
                        r.exempt(site, "constructor initialiser: object not yet shared", m, n)
                        continue
                    if m.raw.get("ctor"):
                        r.exempt(site, "constructor body: threads are created last", m, n)
                        continue
                    held = lsm.held_at_node(n)
                    if held is None:
                        continue
                    if mutex in held:
                        r.ok(site, "", m, n)
                    else:
                        r.violation(site, "%s of %s without %s (held: %s)" % (kind, field, mutex, sorted(held)), m, n)

    # ---------------------------------------------------------------- condition variables
    r = rep.rule("R-QUEUE-CV",
                 "every untimed condition wait sits in a loop whose condition re-tests the predicate, under the mutex "
                 "its producers hold; every producer mutation of a predicate field notifies on the same path", floor=4)
    cv_rule(prog, r, "LaneBasedExecutionQueue", "readyJobsCondition", "readyJobsMutex",
            producers={"addJob": "addJob", "~LaneBasedExecutionQueue": "shutdown", "cancelAllJobs": "cancelled"})
    cv_rule(prog, r, "SerialQueueImpl", "readyOperationsCondition", "operationsMutex", producers={"addOperation": "operations"})

    # ---------------------------------------------------------------- drain
    r = rep.rule("R-QUEUE-DRAIN",
                 "a lane returns only when shutdown is set and both ready queues are empty; the destructor sets shutdown "
                 "under the lock, notifies all and joins every lane; jobs are bracketed by queueJobStarted/Finished", floor=5)
    f = prog.fn("LaneBasedExecutionQueue::executeLane")
    bf = BranchFacts(f, kill="assign")
    rets = [n for n in f.nodes if n.get("k") == "return"]
    for i, x in enumerate(rets):
        st = bf.at_node(x) or frozenset()
        ok = ("shutdown", True) in st and any("readyJobs" in a and "empty" in a and p for a, p in st) and \
            any("readyPriorityJobs.empty()" in a and p for a, p in st)
        r.check(ok, "executeLane|return#%d" % i, "", "lane thread exits while jobs may still be queued", f, x)
    ex = f.calls("QueueJob::execute")
    okb = len(ex) == 1
    if okb:
        p = cfg.pos_of(f, ex[0])
        okb = cfg.dominated_by(f, p, lambda pp, e: (cfg.elem_node(f, e) or {}).get("k") == "call" and (cfg.elem_node(f, e).get("fn") or "").endswith("queueJobStarted"))[0] \
            and cfg.must_pass_through(f, p, lambda pp, e: (cfg.elem_node(f, e) or {}).get("k") == "call" and (cfg.elem_node(f, e).get("fn") or "").endswith("queueJobFinished"))[0]
    r.check(okb, "executeLane|job-bracket", "", "job execution not bracketed by queueJobStarted/queueJobFinished", f)
    # every taken job is executed: between getNextJob and the loop back edge the only exits are `break` on an empty job
    g = prog.fn("LaneBasedExecutionQueue::~LaneBasedExecutionQueue")
    lsd = LockSets(g)
    sets = [n for n in g.nodes if n.get("k") == "bin" and n["op"] == "=" and expr_str(n.child("l")) == "shutdown"]
    joins = g.calls("std::thread::join")
    nots = [c for c in g.calls("notify_all") if "readyJobsCondition" in expr_str(c.child("obj"))]
    ok = len(sets) == 1 and "readyJobsMutex" in (lsd.held_at_node(sets[0]) or set()) and bool(nots) and bool(joins)
    if ok:
        # join loop bound is numLanes, the same bound the constructor uses to create the threads
        loops = [n for n in g.nodes if n.get("k") in ("for", "forrange") and any(x is joins[0] for x in n.walk())]
        # every lane is joined: an index loop up to numLanes, or a range-for over the vector the constructor filled with numLanes threads
        ok = bool(loops) and (("numLanes" in expr_str(loops[0].child("c"))) if loops[0].get("k") == "for" else expr_plain(loops[0].child("range")).replace("this->", "") == "lanes") and \
            not any(x.get("k") in ("break", "return", "continue") for x in loops[0].child("body").walk())
        ctor = [m for m in prog.functions.values() if m.raw.get("ctor") and qmatch(m.cls, "LaneBasedExecutionQueue")]
        cl = [n for m in ctor for n in m.nodes if n.get("k") == "for" and "numLanes" in expr_str(n.child("c"))]
        ok = ok and bool(cl)
    r.check(ok, "~LaneBasedExecutionQueue|shutdown-notify-join", "", "destructor does not set shutdown under the lock, notify all and join every lane", g)
    # serial queue: the worker leaves only on the empty sentinel pushed by the destructor, which joins
    f = prog.fn("SerialQueueImpl::run")
    brk = [n for n in f.nodes if n.get("k") == "break"]
    bf = BranchFacts(f, kill="assign")
    ok = len(brk) == 1 and any("fn" in a and not p for a, p in (bf.at_node(brk[0]) or frozenset()))
    r.check(ok, "SerialQueueImpl::run|exit-on-sentinel", "", "worker thread can exit other than on the shutdown sentinel", f)
    g = prog.fn("SerialQueueImpl::~SerialQueueImpl")
    ok = bool(g.calls("addOperation")) and bool(g.calls("std::thread::join")) and \
        cfg.dominated_by(g, cfg.pos_of(g, g.calls("std::thread::join")[0]), lambda pp, e: (cfg.elem_node(g, e) or {}).get("k") == "call" and
                         (cfg.elem_node(g, e).get("fn") or "").endswith("addOperation"))[0]
    r.check(ok, "~SerialQueueImpl|sentinel-then-join", "", "destructor does not push the sentinel before joining", g)
    # FIFO of the serial queue: push_back / front / pop_front only
    ops = set()
    for m in prog.functions.values():
        if qmatch(m.cls, "SerialQueueImpl"):
            for n, kind in field_accesses(m, "SerialQueueImpl::operations"):
                p = m.parent_of(n)
                if p is not None and p.get("k") == "call":
                    ops.add((p.get("fn") or "").split("::")[-1])
    r.check(ops <= {"push_back", "front", "pop_front", "empty"}, "SerialQueueImpl|fifo-ops", "%s" % sorted(ops), "operation queue used with %s" % sorted(ops))

    # ---------------------------------------------------------------- environment precedence
    r = rep.rule("R-ENV-ORDER", "environment precedence: llbuild ids, then the requested environment, then the inherited one "
                                "(setIfMissing: first definition wins)", floor=2)
    for q in ("LaneBasedExecutionQueue", "SerialExecutionQueue"):
        g = prog.fn(q + "::executeProcess")
        calls = sorted(g.calls("POSIXEnvironment::setIfMissing"), key=lambda c: cfg_order(g, c))
        roles = []
        for c in calls:
            a0 = expr_str(arg_nodes(c)[0])
            if "LLBUILD_" in a0:
                roles.append("id")
            elif "entry" in a0:
                roles.append("requested")
            elif "pair" in a0:
                roles.append("inherited")
            else:
                roles.append("?" + a0[:20])
        want = ["id", "id", "requested", "inherited"]
        okk = roles == want
        # order must hold along the CFG: each later call is dominated by the earlier ones
        if okk:
            for a, b in zip(calls, calls[1:]):
                if a is b:
                    continue
                pa = cfg.pos_of(g, a)
                if roles[calls.index(b)] != roles[calls.index(a)]:
                    okk = okk and cfg.path_exists(g, cfg.pos_of(g, b), lambda p, e, pa=pa: p == pa) is None
        bfq = BranchFacts(g, kill="assign")
        inh = [c for c, ro in zip(calls, roles) if ro == "inherited"]
        if inh:
            st = bfq.at_node(inh[0]) or frozenset()
            okk = okk and any("inheritEnvironment" in a and p for a, p in st)
        r.check(okk, "%s|env-precedence" % q, "%s" % roles, "environment assembled in order %s, expected %s" % (roles, want), g)

    r_status_decode(prog, rep)
    r_eintr_retry(prog, rep)


def r_status_decode(prog, rep):
    """shared with C10: a child's real fate is the first link of the failure chain (exit status, fatal signal -> Failed)."""
    # ---------------------------------------------------------------- exit status
    r = rep.rule("R-STATUS-DECODE", "exit-status mapping: exit 0 -> Succeeded; killed by SIGINT/SIGKILL -> Cancelled; anything else -> Failed; "
                                    "spawn failure -> Failed; cancelled before spawn -> Cancelled", floor=3)
    g = prog.fn("cleanUpExecutedProcess")
    # the status expression is a conditional chain over exitCode
    decl = [v for n in g.nodes if n.get("k") == "decl" for v in n["vars"] if v["n"] == "processStatus" and "init" in v and
            core(g.nodes[v["init"]]) is not None and core(g.nodes[v["init"]]).get("k") == "cond"]
    if len(decl) == 1:
        init = g.nodes[decl[0]["init"]]
        txt = expr_str(init)
        table = decode_status(init)
    else:
        # the same selection written as an if / else-if / else chain of assignments
        asg = [n for n in g.nodes if n.get("k") == "bin" and n["op"] == "=" and expr_plain(n.child("l")) == "processStatus"]
        if not asg:
            raise AnalysisBroken("cleanUpExecutedProcess: processStatus selection not found")
        arms, other = [], None
        for a in asg:
            guards = []
            cur = a
            for anc in g.ancestors(a):
                if anc.get("k") == "if":
                    in_then = any(x is cur or x is a for x in anc.child("then").walk())
                    guards.append((anc.child("c"), in_then))
            guards.reverse()
            val = expr_str(core(a.child("r"))).split("::")[-1]
            if guards and all(not p for _c, p in guards):
                other = val
            elif guards and guards[-1][1] and all(not p for _c, p in guards[:-1]):
                arms.append((core(guards[-1][0]), val))
            else:
                arms.append((None, val))
        init = asg[0]
        txt = "; ".join(expr_str(a) for a in asg)
        table = decode_status_arms(g, arms, other) if other is not None and all(c is not None for c, _v in arms) else None
    want = {"cancelled": {"SIGINT", "SIGKILL"}}
    r.check(table is not None and table["zero"] == "Succeeded" and table["cancel_sigs"] == {2, 9} and table["else"] == "Failed",
            "cleanUpExecutedProcess|status-table", "%s" % table, "status mapping is %s (from %s)" % (table, txt[:120]), g, init)
    f = prog.fn("llbuild::basic::spawnProcess")
    dec = [v for n in f.nodes if n.get("k") == "decl" for v in n["vars"] if v["n"] == "result" and "init" in v and "makeCancelled" in expr_str(f.nodes[v["init"]])]
    ok = False
    if dec:
        i = core(f.nodes[dec[0]["init"]])
        for x in f.nodes[dec[0]["init"]].walk():
            if x.get("k") == "cond":
                ok = expr_str(core(x.child("c"))) == "wasCancelled" and "makeCancelled" in expr_str(x.child("a")) and "makeFailed" in expr_str(x.child("b"))
    r.check(ok, "spawnProcess|not-launched-status", "", "not-launched result is not (wasCancelled ? Cancelled : Failed)", f)
    fails = [c for c in f.calls("ProcessResult::makeFailed")]
    r.check(len(fails) >= 3, "spawnProcess|spawn-error-failed", "%d sites" % len(fails), "spawn errors no longer map to Failed", f)


def r_eintr_retry(prog, rep):
    r = rep.rule("R-EINTR-RETRY", "the blocking calls that wait for a child (wait4) or for its output (poll) are retried when a signal handler interrupts them: the call sits in "
                                  "a loop that tests errno against EINTR — otherwise an interrupted wait reports a running child as failed and never reaps it", floor=2)
    EINTR = 4
    for callee, fname in (("wait4", "cleanUpExecutedProcess"), ("poll", "spawnProcess")):
        f = prog.fn(fname)
        calls = [c for c in f.calls() if (c.get("fn") or "") == callee]
        if not calls:
            raise AnalysisBroken("%s no longer calls %s" % (fname, callee))
        ok = False
        for c in calls:
            lp = next((a for a in f.ancestors(c) if a.get("k") in ("while", "do", "for")), None)
            if lp is None:
                continue
            errno_locals = set(v["did"] for d in f.nodes if d.get("k") == "decl" for v in d.get("vars", []) if "init" in v and "__errno_location" in expr_str(f.nodes[v["init"]]))
            for x in lp.walk():
                if x.get("k") == "bin" and x.get("op") in ("==", "!="):      # `== EINTR -> again` or `!= EINTR -> give up`
                    l_, r_ = core(x.child("l")), core(x.child("r"))
                    for a_, b_ in ((l_, r_), (r_, l_)):
                        if b_ is not None and b_.get("k") == "int" and b_.get("v") == EINTR and a_ is not None and \
                                ("__errno_location" in expr_str(a_) or (a_.get("k") == "ref" and a_.get("did") in errno_locals)):
                            ok = True
        r.check(ok, "%s|%s-retried-on-EINTR" % (fname, callee), "", "%s is not retried when it fails with EINTR: a signal delivered to the waiting thread ends the wait" % callee, f, calls[0])


def cfg_order(fn, n):
    p = cfg.pos_of(fn, n)
    return (-p[0], p[1]) if p else (0, 0)


def decode_status(init):
    """flatten the conditional chain selecting the ProcessStatus: arms [(cond, value)] + else.
    A condition that is a local bool is resolved through its initialiser."""
    fn = init.fn
    out = {"zero": None, "cancel_sigs": set(), "else": None}
    n = core(init)
    arms = []
    while n is not None and n.get("k") == "cond":
        arms.append((core(n.child("c")), expr_str(core(n.child("a"))).split("::")[-1]))
        n = core(n.child("b"))
    if n is None or not arms:
        return None
    return decode_status_arms(fn, arms, expr_str(n).split("::")[-1])


def decode_status_arms(fn, arms, other):
    out = {"zero": None, "cancel_sigs": set(), "else": other}

    def resolve(c):
        c = core(c)
        if c is not None and c.get("k") == "cast":
            c = core(c.child("e"))
        if c is not None and c.get("k") == "ref" and c.get("dk") == "local":
            for d in fn.nodes:
                if d.get("k") == "decl":
                    for v in d["vars"]:
                        if v["did"] == c["did"] and "init" in v:
                            return fn.nodes[v["init"]]
        return c
    for c, val in arms:
        c = resolve(c)
        txt = expr_str(c)
        if txt in ("(exitCode == 0)", "(0 == exitCode)"):
            out["zero"] = val
        elif val == "Cancelled":
            # top-level structure: SIGNALED && (TERMSIG == a || TERMSIG == b)
            cc = core(c)
            if cc is not None and cc.get("k") == "bin" and cc.get("op") == "&&":
                rhs = core(cc.child("r"))
                stack = [rhs]
                while stack:
                    x = core(stack.pop())
                    if x is None:
                        continue
                    if x.get("k") == "bin" and x.get("op") == "||":
                        stack += [x.child("l"), x.child("r")]
                    elif x.get("k") == "bin" and x.get("op") == "==":
                        for side in (x.child("l"), x.child("r")):
                            sd = core(side)
                            if sd is not None and sd.get("k") == "int":
                                out["cancel_sigs"].add(sd["v"])
                    else:
                        out["cancel_sigs"].add("?" + expr_str(x)[:20])
    return out


def cv_rule(prog, r, cls, cvname, mutex, producers):
    methods = [m for m in prog.functions.values() if qmatch(m.cls, cls)]
    n_wait = 0
    for m in methods:
        ls = None
        for c in m.calls():
            nm = (c.get("fn") or "").split("::")[-1]
            if nm != "wait" or "obj" not in c or expr_str(core(c.child("obj"))) != cvname:
                continue
            n_wait += 1
            ls = ls or LockSets(m)
            site = "%s::%s|wait(%s)" % (cls, m.name.split("::")[-1], cvname)
            held = ls.held_at_node(c) or set()
            loop = None
            for a in m.ancestors(c):
                if a.get("k") in ("while", "do", "for"):
                    loop = a
                    break
            ok = mutex in held and loop is not None and loop.child("c") is not None and loop.child("c").get("k") != "bool"
            # no unlock between the loop condition and the wait: mutex held at the condition too
            if ok:
                held_c = ls.held_at_node(loop.child("c")) or set()
                ok = mutex in held_c
            r.check(ok, site, "in loop on %s" % (expr_str(loop.child("c"))[:60] if loop else ""),
                    "untimed wait not in a predicate loop under %s" % mutex, m, c)
    if n_wait == 0:
        raise AnalysisBroken("no wait on %s found" % cvname)
    for meth, what in producers.items():
        m = [x for x in methods if x.name.split("::")[-1] == meth]
        if len(m) != 1:
            raise AnalysisBroken("producer %s::%s not found" % (cls, meth))
        m = m[0]
        ls = LockSets(m)
        nots = [c for c in m.calls() if (c.get("fn") or "").split("::")[-1] in ("notify_one", "notify_all") and cvname in expr_str(c.child("obj"))]
        site = "%s::%s|notify(%s)" % (cls, meth, cvname)
        if not nots:
            r.violation(site, "producer changes '%s' without notifying %s" % (what, cvname), m)
            continue
        # every mutation of the predicate field is followed by a notify on all paths, under the mutex
        muts = []
        for n in m.nodes:
            if n.get("k") == "bin" and n["op"] == "=" and expr_str(n.child("l")) == what:
                muts.append(n)
            if n.get("k") == "call" and (n.get("fn") or "").split("::")[-1] in ("addJob", "push_back") and n is not None and \
                    n.get("ck") == "member" and what in ("addJob", "operations") and \
                    (expr_str(core(n.child("obj"))).startswith("ready") or expr_str(core(n.child("obj"))) == "operations"):
                muts.append(n)
        if not muts:
            r.violation(site, "no mutation of '%s' found in producer" % what, m)
            continue
        ok = True
        for mu in muts:
            held = ls.held_at_node(mu) or set()
            thr, w = cfg.must_pass_through(m, cfg.pos_of(m, mu), lambda p, e: cfg.elem_node(m, e) is not None and any(cfg.elem_node(m, e) is x for x in nots))
            ok = ok and thr and mutex in held
        r.check(ok, site, "%d mutation(s) notified" % len(muts), "a mutation of '%s' is not followed by a notify under %s" % (what, mutex), m)


VARIANTS = [
    dict(name="spawn-poll-error-returns", file="lib/Basic/Subprocess.cpp",
         old="          pollFailed = true;\n          break;", new="          return;",
         expect=("R-PROC-ONCE", "spawnProcess|completionFn")),
    dict(name="spawn-double-completion", file="lib/Basic/Subprocess.cpp",
         old="        delegate.processFinished(ctx, handle, processResult);\n        pid = (llbuild_pid_t)-1;",
         new="        delegate.processFinished(ctx, handle, processResult);\n        completionFn(processResult);\n        pid = (llbuild_pid_t)-1;",
         expect=("R-PROC-ONCE", "spawnProcess|completionFn")),
    dict(name="cleanup-wait-error-no-completion", file="lib/Basic/Subprocess.cpp",
         old="    delegate.processFinished(ctx, handle, result);\n    completionFn(result);\n    return;\n  }\n\n  // We report additional info",
         new="    delegate.processFinished(ctx, handle, result);\n    return;\n  }\n\n  // We report additional info",
         expect=("R-PROC-ONCE", "completionFn")),
    dict(name="lane-cancelled-path-no-completion", file="lib/Basic/LaneBasedExecutionQueue.cpp",
         old="      if (cancelled) {\n        if (completionFn.hasValue())\n          completionFn.getValue()(ProcessResult::makeCancelled());\n        return;\n      }",
         new="      if (cancelled) {\n        return;\n      }",
         expect=("R-PROC-ONCE", "LaneBasedExecutionQueue::executeProcess")),
    dict(name="lane-release-else-branch-drops-wait", file="lib/Basic/LaneBasedExecutionQueue.cpp",
         old="        backgroundTaskCount--;\n        // not allowed to release, call wait directly\n        processWait();",
         new="        backgroundTaskCount--;\n        // not allowed to release, call wait directly",
         expect=("R-RELEASE-ONCE", "LaneBasedExecutionQueue::executeProcess")),
    dict(name="spawn-outside-lock", file="lib/Basic/Subprocess.cpp",
         edits=[("      std::lock_guard<std::mutex> guard(pgrp.mutex);\n      wasCancelled = pgrp.isClosed();",
                 "      { std::lock_guard<std::mutex> early(pgrp.mutex); wasCancelled = pgrp.isClosed(); }"),
                ("        ProcessInfo info{ attr.canSafelyInterrupt };", "        std::lock_guard<std::mutex> guard(pgrp.mutex);\n        ProcessInfo info{ attr.canSafelyInterrupt };")],
         expect=("R-SPAWN-UNDER-LOCK", "spawnProcess")),
    dict(name="addjob-no-notify", file="lib/Basic/LaneBasedExecutionQueue.cpp",
         old="        readyJobs->addJob(job);\n      }\n      readyJobsCondition.notify_one();",
         new="        readyJobs->addJob(job);\n      }",
         expect=("R-QUEUE-CV", "addJob")),
    dict(name="lane-wait-if-instead-of-while", file="lib/Basic/LaneBasedExecutionQueue.cpp",
         old="        while (!shutdown && readyJobs->empty() && readyPriorityJobs.empty()) {\n          readyJobsCondition.wait(lock);",
         new="        if (!shutdown && readyJobs->empty() && readyPriorityJobs.empty()) {\n          readyJobsCondition.wait(lock);",
         expect=("R-QUEUE-CV", "executeLane")),
    dict(name="lane-exit-on-shutdown-only", file="lib/Basic/LaneBasedExecutionQueue.cpp",
         old="        if (shutdown && readyJobs->empty() && readyPriorityJobs.empty())\n          return;",
         new="        if (shutdown)\n          return;",
         expect=("R-QUEUE-DRAIN", "executeLane|return")),
    dict(name="addjob-unlocked", file="lib/Basic/LaneBasedExecutionQueue.cpp",
         old="      std::lock_guard<std::mutex> guard(readyJobsMutex);\n      if (priority == QueueJobPriority::High) {",
         new="      if (priority == QueueJobPriority::High) {",
         expect=("R-QUEUE-LOCKSET", "addJob")),
    dict(name="env-inherited-first", file="lib/Basic/LaneBasedExecutionQueue.cpp",
         old="    // Add the requested environment.\n    for (const auto& entry: environment) {\n      posixEnv.setIfMissing(entry.first, entry.second);\n    }\n",
         new="", expect=("R-ENV-ORDER", "LaneBasedExecutionQueue")),
    dict(name="status-sigterm-cancelled", file="lib/Basic/Subprocess.cpp",
         old="WTERMSIG(exitCode) == SIGKILL", new="WTERMSIG(exitCode) == SIGTERM", expect=("R-STATUS-DECODE", "status-table")),
    dict(name="drain-break-without-error", file="lib/Basic/Subprocess.cpp",
         old="    if (control.shouldRelease()) {", new="    if (readfds[0].events == 0) break;\n    if (control.shouldRelease()) {",
         expect=("R-PROC-ORDER", "drain-before-reap")),
    dict(name="cancel-does-not-close-group", file="lib/Basic/LaneBasedExecutionQueue.cpp",
         old="      std::lock_guard<std::mutex> guard(spawnedProcesses.mutex);\n      if (cancelled) return;\n      cancelled = true;\n      spawnedProcesses.close();\n      readyJobsCondition.notify_all();",
         new="      if (cancelled) return;\n      cancelled = true;\n      readyJobsCondition.notify_all();", expect=("R-CANCEL-CLOSES-GROUP", "LaneBasedExecutionQueue")),
    dict(name="serial-cancel-signals-before-close", file="lib/Basic/SerialQueue.cpp",
         old="      cancelled = true;\n      spawnedProcesses.close();\n    }\n\n    spawnedProcesses.signalAll(SIGINT);",
         new="      cancelled = true;\n    }\n\n    spawnedProcesses.signalAll(SIGINT);\n    { std::lock_guard<std::mutex> guard(spawnedProcesses.mutex); spawnedProcesses.close(); }",
         expect=("R-CANCEL-CLOSES-GROUP", "SerialExecutionQueue")),
    dict(name="benign-completion-via-local", file="lib/Basic/Subprocess.cpp",
         old="    auto result = wasCancelled ? ProcessResult::makeCancelled() : ProcessResult::makeFailed();\n    completionFn(result);",
         new="    auto result = wasCancelled ? ProcessResult::makeCancelled() : ProcessResult::makeFailed();\n    auto& r2 = result;\n    completionFn(r2);",
         expect=None),
    dict(name="wait-retried-on-eagain-only", file="lib/Basic/Subprocess.cpp", old="  while (result == -1 && errno == EINTR)", new="  while (result == -1 && errno == EAGAIN)", expect=("R-EINTR-RETRY", "wait4-retried-on-EINTR")),
    dict(name="poll-not-retried-on-eintr", file="lib/Basic/Subprocess.cpp", old="        if (err == EAGAIN || err == EINTR) {", new="        if (err == EAGAIN) {", expect=("R-EINTR-RETRY", "poll-retried-on-EINTR")),
]
