"""C12 — Directory-tree signatures change exactly when the tree changes (structural part)."""
import re
from sa.facts import AnalysisBroken, expr_str, qmatch, strip_casts, relpath, core, expr_plain
from sa import cfg
from sa.cfg import BranchFacts
from sa.flow import arg_nodes, mentions

UNITS = ["lib/BuildSystem/BuildSystem.cpp", "lib/BuildSystem/BuildNode.cpp"]
THOROUGH_ALL_UNITS = False
EXPLANATION = (
    "Content signature: the directory-listing value, every child's node value and every child's sub-tree signature (or one fixed "
    "nil marker) are folded, a fixed number of items per child; structure signature: the listing, each child's filename and mode "
    "are folded and no size / modification time / checksum reaches the fold; for every child that is an existing directory a "
    "sub-tree signature of the same kind is requested with the same filters and the child's own path; a child node is requested "
    "for every listed name with input ids that the value callback decodes consistently; the listing validity check returns true "
    "only after comparing the length and every element of sorted listings; a name is excluded exactly when some pattern matches.")
NOT_DECIDED = "(tree, edit) behaviour; fnmatch semantics; symbolic-link handling of the directory iterator."

TASKS = {"DirectoryTreeSignatureTask": ("makeDirectoryTreeSignature", "directorySignatureValue"),
         "DirectoryTreeStructureSignatureTask": ("makeDirectoryTreeStructureSignature", "directoryStructureSignatureValue")}


def bf_pre(f):
    if not hasattr(f, "_bf_assign"):
        f._bf_assign = BranchFacts(f, kill="assign")
    return f._bf_assign


def run(ctx):
    prog, rep = ctx.prog, ctx.report
    from rules import C08
    C08.r_callbacks_reusable(prog, rep)
    C08.r_task_ctor_params(prog, rep)

    r = rep.rule("R-TREE-FOLD", "the tree signatures fold the listing value, every child's value and every child's sub-signature (or the nil marker); the "
                                "structure signature folds filename and mode only", floor=8)
    for task, (maker, sigfield) in TASKS.items():
        f = prog.fn(task + "::inputsAvailable")
        loop = [n for n in f.nodes if n.get("k") == "forrange" and expr_str(core(n.child("range"))) == "childResults"]
        if not loop:
            # index loop over the same vector: for (i = 0; i != childResults.size(); ++i) { ... childResults[i] ... }
            for n in f.nodes:
                if n.get("k") == "for" and "c" in n and expr_plain(n.child("c")).replace(" ", "") in ("(i!=childResults.size())", "(i<childResults.size())") and \
                        "childResults[i]" in " ".join(expr_plain(x) for x in n.child("body").walk() if x.get("k") in ("decl", "call", "member")) and \
                        re.sub(r"cast<[^>]*>\((\d+)\)", r"\1", expr_plain(n.child("init")).replace(" ", "")).endswith("i=0") and expr_plain(n.child("inc")).strip("()") in ("++i", "i++"):
                    loop.append(n)
        if len(loop) != 1:
            raise AnalysisBroken("%s: child loop not found" % task)
        lp = loop[0]
        folds = [c for c in f.calls("hash_combine")]
        inside = [c for c in folds if any(x is c for x in lp.walk())]
        before = [c for c in folds if c not in inside]
        txt_before = " ".join(expr_str(c) for c in before) + " ".join(expr_str(d) for d in f.nodes if d.get("k") == "decl" and "hash_value" in expr_str(d))
        r.check("path" in txt_before and "directoryValue" in txt_before, "%s|path-and-listing-folded" % task, "",
                "the signature does not start from the path and the directory listing value", f)
        txt_in = " ".join(expr_str(c) for c in inside)
        r.check("info.value" in txt_in, "%s|child-value-folded" % task, "", "child node values are not folded", f)
        if task == "DirectoryTreeSignatureTask":
            # with exclusion filters, names that match are hidden at every depth: the raw stat record of a child *directory* (its
            # modification time changes whenever an entry - hidden or not - is added to or removed from it) must not reach the fold
            vf = [c for c in inside if "info.value" in expr_str(c)]
            guarded = False
            for c in vf:
                st_ = bf_pre(f).at_node(c) or frozenset()
                if any(("isDirectory" in a_ or "filters" in a_) for a_, _p in st_):
                    guarded = True
            has_filters = any(fl["n"] == "filters" for fl in prog.record(task).get("fields", []))
            r.check(guarded or not has_filters, "%s|filtered-subdirectory-stat-not-folded" % task, "",
                    "the child's whole node value is folded also for a sub-directory of a filtered tree: adding or removing an excluded name below the top level "
                    "changes that directory's modification time and therefore the signature", f, vf[0] if vf else None)
        bf = BranchFacts(f, kill="assign")
        with_sig = [c for c in inside if sigfield in expr_str(c) or any(p and sigfield in a for a, p in (bf.at_node(c) or frozenset())) and "data" in expr_str(c)]
        nil = [c for c in inside if any((not p) and sigfield in a and "hasValue" in a for a, p in (bf.at_node(c) or frozenset()))]
        ok = len(with_sig) >= 1 and len(nil) == 1 and any(x.get("k") == "int" and abs(x.get("v", 0)) > 2 ** 32 for x in nil[0].walk())
        r.check(ok, "%s|subtree-or-nil-folded" % task, "", "a child's sub-tree signature (or the nil marker) is not folded on both arms", f)
        comp = f.calls("TaskInterface::complete")
        r.check(len(comp) == 1 and maker in expr_str(comp[0]) and "code" in expr_str(comp[0]) and not E_loop_of(f, comp[0]),
                "%s|completes-with-folded-code" % task, "", "the task does not complete with %s(code)" % maker, f)
        # no early exit from the child loop
        r.check(not any(x.get("k") in ("break", "return") for x in lp.walk()), "%s|all-children-folded" % task, "", "the child loop can stop early", f)
        if task == "DirectoryTreeStructureSignatureTask":
            fields = set(x.get("n") for c in inside for x in c.walk() if x.get("k") == "member" and x.get("qn", "").startswith("llbuild::basic::FileInfo::"))
            r.check(fields == {"mode"}, "%s|structure-uses-mode-only" % task, "", "structure signature reads FileInfo fields %s" % sorted(fields), f)
            r.check("info.filename" in txt_in, "%s|filename-folded" % task, "", "child filenames are not part of the structure signature", f)
            dirv = [c for c in before if "mode" in expr_str(c)]
            r.check(bool(dirv), "%s|directory-type-folded" % task, "", "the directory's own type is not folded", f)

    r = rep.rule("R-TREE-RECURSE", "every child that is an existing directory gets a sub-tree request of the same kind with the same filters and its own path; a node is "
                                   "requested for every listed name; input ids are encoded and decoded consistently", floor=8)
    for task, (maker, sigfield) in TASKS.items():
        f = prog.fn(task + "::provideValue")
        bf = BranchFacts(f, kill="assign")
        rq = f.calls("TaskInterface::request")
        sub = [c for c in rq if "makeDirectoryTree" in expr_str(c)]
        node = [c for c in rq if "makeNode(" in expr_str(c)]
        if len(sub) != 1 or len(node) != 1:
            raise AnalysisBroken("%s::provideValue: sub=%d node=%d requests" % (task, len(sub), len(node)))
        a = arg_nodes(sub[0])
        mks = [x for x in a[0].walk() if x.get("k") == "call" and (x.get("fn") or "").endswith(maker)]
        if not mks:
            r.violation("%s|same-kind-same-filters" % task, "sub-tree signature of another kind is requested: %s" % expr_plain(a[0])[:80], f, sub[0])
            continue
        mk = mks[0]
        margs = [expr_str(core(x)) for x in arg_nodes(mk)]
        r.check(margs[0].startswith("childPath") and margs[1] == "filters", "%s|same-kind-same-filters" % task, "", "sub-tree requested as %s(%s)" % (maker, margs), f, sub[0])
        st = bf.at_node(sub[0]) or frozenset()
        r.check(any(p and a_ == "value.isExistingInput()" for a_, p in st) and any(p and "isDirectory()" in a_ for a_, p in st), "%s|recurse-iff-existing-directory" % task, "",
                "sub-tree request is not guarded by `existing input that is a directory`", f, sub[0])
        # childPath = path + childResult.filename on the recursion path; path + filenames[i] for nodes
        ap = [c for c in f.calls("append") if "childPath" in expr_str(c)]
        texts = [expr_str(c) for c in ap]
        r.check(any("childResult.filename" in t for t in texts) and any("filenames[i]" in t for t in texts), "%s|child-paths" % task, "",
                "child paths are built as %s" % texts, f)
        decls = [expr_str(d) for d in f.nodes if d.get("k") == "decl" and "childPath" in expr_str(d)]
        r.check(len(decls) == 2 and all("path" in d for d in decls), "%s|child-path-rooted-at-path" % task, "", "child paths are not rooted at the task's path", f)
        # ids: node request 1 + i ; sub request 1 + childResults.size() + index ; decode index = inputID - 1 - childResults.size()
        nid = expr_plain(core(arg_nodes(node[0])[1]))
        sid = expr_plain(core(a[1]))
        r.check(nid in ("(1 + i)", "(i + 1)"), "%s|node-input-id" % task, "", "child node requested with input id %s" % nid, f)
        r.check(sid in ("((1 + childResults.size()) + index)",), "%s|subtree-input-id" % task, "", "sub-tree requested with input id %s" % sid, f)
        dec = [expr_plain(f.nodes[v["init"]]) for d in f.nodes if d.get("k") == "decl" for v in d["vars"] if v["n"] == "index" and "init" in v]
        r.check(sorted(dec) == sorted(["(inputID - 1)", "((inputID - 1) - childResults.size())"]), "%s|input-id-decoding" % task, "", "input ids decoded as %s" % dec, f)
        # one child node per listed name, no early exit
        lp = [n for n in f.nodes if n.get("k") == "for" and any(x is node[0] for x in n.walk())]
        ok = len(lp) == 1 and expr_plain(lp[0].child("c")) == "(i != filenames.size())" and not any(x.get("k") in ("break", "continue", "return") for x in lp[0].child("body").walk())
        r.check(ok, "%s|node-per-listed-name" % task, "", "not every listed name gets a node request", f)
        sigstore = [n for n in f.nodes if n.get("k") in ("bin", "call") and n.get("op") == "=" and sigfield in expr_str(n.child("l") if n.get("k") == "bin" else n.child("obj"))]
        r.check(len(sigstore) == 1 and "childResults[index]" in expr_str(sigstore[0]) and "valueData" in expr_str(sigstore[0]), "%s|signature-stored-per-child" % task, "",
                "sub-tree signature is not stored on the child it belongs to", f)
        s0 = prog.fn(task + "::start")
        reqs = [expr_plain(c) for c in s0.calls("TaskInterface::request")]
        r.check(len(reqs) == 2 and any("makeDirectoryContents(path)" in t for t in reqs) and
                any("makeFilteredDirectoryContents(path, filters)" in t for t in reqs), "%s|listing-requested-with-filters" % task, "",
                "the directory listing is not requested with the task's filters", s0)

    # ------------------------------------------------------------------ how a node becomes a directory-tree / structure input
    rt = rep.rule("R-NODE-TYPE-TABLE", "every spelling the build file accepts for a node's `type` selects the node type of that name (kebab-case of the "
                                       "enumerator): a node declared `type: directory` is a directory-tree input; the deprecated booleans select their own "
                                       "type; a name ending in '/' is a directory by default", floor=5)
    import re as _re
    ca = [f for f in prog.fns("BuildNode::configureAttribute") if f.params and len(f.params) == 3 and "StringRef" in f.param_type(2) and "ArrayRef" not in f.param_type(2)]
    if len(ca) != 1:
        raise AnalysisBroken("BuildNode::configureAttribute(StringRef) not found uniquely (%d)" % len(ca))
    ca = ca[0]
    bfa = BranchFacts(ca, kill="assign")
    enumerators = [e_["n"] for e_ in prog.enum("BuildNode::NodeType")["enumerators"]] if any(n.endswith("NodeType") for n in prog.enums) else []

    def kebab(nm):
        return _re.sub(r"(?<!^)([A-Z])", r"-\1", nm).lower()
    stores = [n for n in ca.nodes if n.get("k") == "bin" and n["op"] == "=" and expr_plain(n.child("l")) in ("type", "this->type")]
    seen_type = {}

    def guard_strings(st_):
        """(name literal, value literal) of the `if (name == "...")` / `if (value == "...")` arms the store sits in"""
        nm = val = None
        for a in ca.ancestors(st_):
            if a.get("k") != "if" or not any(x is st_ for x in a.child("then").walk()):
                continue
            c = a.child("c")
            lits = [x.get("v") for x in c.walk() if x.get("k") == "str"]
            refs = [x.get("n") for x in c.walk() if x.get("k") == "ref"]
            if len(lits) == 1 and "name" in refs and nm is None:
                nm = lits[0]
            elif len(lits) == 1 and "value" in refs and val is None:
                val = lits[0]
        return nm, val
    for st_ in stores:
        en = [x.get("n") for x in st_.child("r").walk() if x.get("k") == "ref" and x.get("dk") == "enumconst"]
        en = en[0] if en else "?"
        nm, val = guard_strings(st_)
        if nm == "type" and val is not None:
            seen_type[val] = en
            rt.check(kebab(en) == val, "configureAttribute|type: %s" % val, "-> %s" % en, "`type: %s` selects NodeType::%s" % (val, en), ca, st_)
        elif nm in ("is-directory", "is-directory-structure", "is-virtual") and val == "true":
            want = {"is-directory": "Directory", "is-directory-structure": "DirectoryStructure", "is-virtual": "Virtual"}[nm]
            rt.check(en == want, "configureAttribute|%s: true" % nm, "-> %s" % en, "`%s: true` selects NodeType::%s" % (nm, en), ca, st_)
    if enumerators:
        missing = [e_ for e_ in enumerators if e_ not in seen_type.values()]
        rt.check(not missing, "configureAttribute|every-type-has-a-spelling", "%s" % sorted(seen_type), "no `type:` spelling selects %s" % missing, ca)

    # ------------------------------------------------------------------ a listing is looked at again in every build
    rr = rep.rule("R-LISTING-RESCAN", "every rule whose task enumerates a directory is re-evaluated in each build: either its validity callback lists the "
                                      "directory again and compares, or (no validity callback) its task unconditionally depends on the Stat key of the "
                                      "directory, whose rule is never valid, and decides from that fresh value", floor=4)
    lk = prog.fn("BuildSystemEngineDelegate::lookupRule")
    pairs = {}
    for n in lk.nodes:
        if n.get("k") == "construct" and (n.get("fn") or "").endswith("BuildSystemRule::BuildSystemRule") and len(n.get("args", [])) >= 4:
            a = arg_nodes(n)
            task, valid = None, "null"
            for x in a[2].walk():
                if x.get("k") == "lambda":
                    news = [y for y in prog.lambda_fn(x).nodes if y.get("k") == "new"]
                    if news:
                        task = news[0].tname("at").split("::")[-1]
            for x in a[3].walk():
                if x.get("k") == "lambda":
                    cs = [c for c in prog.lambda_fn(x).calls() if (c.get("fn") or "").endswith("::isResultValid")]
                    valid = (cs[0].get("fn") or "").split("::")[-2] if cs else "other"
            if task:
                pairs.setdefault(task, set()).add(valid)
    enum_fns = [g for g in prog.functions.values() if relpath(g.file) == UNITS[0] and not g.is_lambda and
                any(c.get("k") == "construct" and (c.get("fn") or "").endswith("directory_iterator::directory_iterator") and len(arg_nodes(c)) >= 2 for c in g.nodes)]
    if len(enum_fns) < 2:
        raise AnalysisBroken("directory enumerators: %d found (getContents, getFilteredContents expected)" % len(enum_fns))
    n_tasks = 0
    for g in enum_fns:
        cls = g.cls
        short = cls.split("::")[-1]
        users = [m for m in prog.functions.values() if m.cls == cls and not m.is_lambda and any((c.get("fn") or "") == g.name or (c.get("fn") or "").endswith("::" + g.name.split("::")[-1]) for c in m.calls())]
        if not users:
            continue
        n_tasks += 1
        v = pairs.get(short)
        if not v or len(v) != 1:
            rr.violation("%s|rule" % short, "no unique rule creates %s (found %s)" % (short, v), g)
            continue
        v = list(v)[0]
        if v == short:
            isv = [m for m in users if m.name.endswith("::isResultValid")]
            rr.check(bool(isv), "%s|validity-relists" % short, "", "the validity callback of %s does not enumerate the directory again" % short, g)
        elif v == "null":
            st = [m for m in prog.functions.values() if m.cls == cls and m.name.endswith("::start") and not m.is_lambda]
            ok = len(st) == 1
            stat_ids = []
            if ok:
                st = st[0]
                rq = [c for c in st.calls("TaskInterface::request") if any((x.get("fn") or "").endswith("BuildKey::makeStat") for x in arg_nodes(c)[0].walk())]
                ok = len(rq) == 1 and "path" in expr_plain(arg_nodes(rq[0])[0]) and \
                    cfg.must_pass_through(st, cfg.entry_pos(st), lambda p_, e_: cfg.elem_node(st, e_) is rq[0])[0]
                stat_ids = [core(arg_nodes(c)[1]).get("v") for c in rq]
            rr.check(ok, "%s|depends-on-stat" % short, "", "%s has no validity callback and does not unconditionally request Stat(path): nothing re-lists the directory "
                     "when only its contents change" % short, g)
            # the value that decides (directory / missing / plain file) is the Stat value
            pv = [m for m in prog.functions.values() if m.cls == cls and m.name.endswith("::provideValue") and not m.is_lambda]
            okv = len(pv) == 1 and len(stat_ids) == 1
            if okv:
                bfp = BranchFacts(pv[0], kill="assign")
                sto = [n for n in pv[0].nodes if n.get("k") in ("bin", "call") and n.get("op") == "=" and
                       expr_plain(n.child("l") if n.get("k") == "bin" else n.child("obj")) == "directoryValue"]
                okv = len(sto) == 1 and any(p_ and a_.replace(" ", "") in ("(inputID==%s)" % stat_ids[0], "(%s==inputID)" % stat_ids[0]) for a_, p_ in (bfp.at_node(sto[0]) or frozenset()))
            rr.check(okv, "%s|decides-from-stat-value" % short, "", "the directory value %s decides from is not the one delivered for its Stat request" % short, g)
        else:
            rr.violation("%s|rule" % short, "unexpected validity callback %s" % v, g)
    stv = prog.fn("StatTask::isResultValid")
    rets = [x for x in stv.nodes if x.get("k") == "return"]
    rr.check(len(rets) == 1 and core(rets[0].child("e")).get("v") is False, "StatTask::isResultValid|never-valid", "", "a Stat rule can be considered up to date", stv)
    rr.check(pairs.get("StatTask") == {"StatTask"}, "lookupRule|Stat-uses-own-validity", "", "Stat rule validity is %s" % pairs.get("StatTask"), lk)
    if n_tasks < 2:
        raise AnalysisBroken("only %d enumerating tasks found" % n_tasks)

    r = rep.rule("R-LISTING-COMPARE", "directory-contents validity returns true only after comparing the length and every element of the current and stored "
                                      "listings; both listings are produced sorted by the same comparator", floor=4)
    f = prog.fn("DirectoryContentsTask::isResultValid")
    bf = BranchFacts(f, kill="assign")
    trues = [x for x in f.nodes if x.get("k") == "return" and core(x.child("e")).get("k") == "bool" and core(x.child("e"))["v"] is True]
    ok = len(trues) == 1 and any(p and expr_plain_atom(a) == "(cur.size() == prev.size())" for a, p in (bf.at_node(trues[0]) or frozenset()))
    r.check(ok, "isResultValid|length-compared", "", "listings can be accepted without comparing their lengths", f)
    loops = [n for n in f.nodes if n.get("k") in ("for", "while")]
    ok = len(loops) == 1 and any(x.get("k") == "return" and core(x.child("e")).get("v") is False for x in loops[0].child("body").walk())
    if ok:
        lp = loops[0]
        cmps = [c for c in lp.walk() if c.get("k") in ("call", "bin") and c.get("op") in ("!=", "==")]
        inc = expr_str(lp.child("inc")) if "inc" in lp else " ".join(expr_str(x) for x in lp.child("body").walk() if x.get("k") == "un" and "++" in x.get("op", ""))
        pair_ok = False
        for c in cmps:
            t = expr_plain(c)
            # paired iterators advanced together, or one index into both vectors
            if "(*cur_it)" in t and "(*prev_it)" in t and "cur_it" in inc and "prev_it" in inc:
                pair_ok = True
            import re as _re
            m1 = _re.search(r"cur\[(\w+)\]", t)
            m2 = _re.search(r"prev\[(\w+)\]", t)
            if m1 and m2 and m1.group(1) == m2.group(1) and m1.group(1) in inc:
                ix = m1.group(1)
                cnd = expr_plain(lp.child("c")).replace(" ", "")
                ini = expr_plain(lp.child("init")).replace(" ", "") if "init" in lp else ""
                ini = _re.sub(r"cast<[^>]*>\((\d+)\)", r"\1", ini)
                if cnd in ("(%s<cur.size())" % ix, "(%s!=cur.size())" % ix, "(%s<prev.size())" % ix, "(%s!=prev.size())" % ix) and ini.endswith("%s=0" % ix):
                    pair_ok = True
        ok = pair_ok
        w = cfg.path_exists(f, cfg.entry_pos(f), lambda p, e, tp=cfg.pos_of(f, trues[0]): p == tp, avoid=lambda p, e: p == cfg.any_pos(f, loops[0].child("c")))
        ok = ok and w is None
    r.check(ok, "isResultValid|elementwise", "", "listings can be accepted without comparing every element", f)
    r.check(any("getContents(path, cur)" in expr_plain(c) for c in f.calls()) and any("getDirectoryContents" in expr_str(d) for d in f.nodes if d.get("k") == "decl"),
            "isResultValid|current-vs-stored", "", "validity does not compare a fresh listing with the stored one", f)
    for nm in ("DirectoryContentsTask::getContents", "FilteredDirectoryContentsTask::getFilteredContents"):
        g = prog.fn(nm)
        srt = g.calls("std::sort")
        lam = [l for l in prog.lambdas_of(g)]
        okc = len(srt) == 1 and "filenames.begin()" in expr_str(srt[0]) and "filenames.end()" in expr_str(srt[0]) and len(lam) == 1
        if okc:
            ret = [x for x in lam[0].nodes if x.get("k") == "return"]
            okc = len(ret) == 1 and core(ret[0].child("e")).get("op") == "<" and [expr_str(core(x)) for x in arg_or_ops(core(ret[0].child("e")))] == ["a", "b"]
            rets_after = [x for x in g.nodes if x.get("k") == "return"]
            okc = okc and all(cfg.dominated_by(g, cfg.pos_of(g, x), lambda p, e: cfg.elem_node(g, e) is srt[0])[0] for x in rets_after)
        r.check(okc, "%s|sorted-ascending" % nm.split("::")[-1], "", "listing is not returned sorted with operator<", g)

    r = rep.rule("R-FILTER-ALL", "a name is excluded exactly when some exclusion pattern matches it: every pattern is tried until a match", floor=3)
    g = prog.fn("FilteredDirectoryContentsTask::getFilteredContents")
    bg = BranchFacts(g, kill="assign")
    sets = [n for n in g.nodes if n.get("k") == "bin" and n["op"] == "=" and expr_str(n.child("l")) == "excluded"]
    pb = [c for c in g.calls("push_back") if "filenames" in expr_str(c.child("obj"))]
    if not sets and len(pb) == 1:
        # helper shape: `if (!matchesAnyFilter(filterStrings, filename)) filenames.push_back(filename);`
        helper = None
        for a_, p_ in (bg.at_node(pb[0]) or frozenset()):
            if not p_:
                for c in g.calls():
                    h = prog.functions.get(c.get("fk")) if c.get("fk") else None
                    if h is not None and h is not g and h.cls == g.cls and expr_str(c) == a_:
                        helper = (h, c)
        okh = helper is not None
        why = "the kept-name test is not the negation of an any-pattern-matches helper"
        if okh:
            h, hc = helper
            bh = BranchFacts(h, kill="assign")
            ha = [expr_plain(x) for x in arg_nodes(hc)]
            okh = len(h.params) == 2 and ha[0] == "filterStrings" and ha[1] == "filename"
            pl = [n for n in h.nodes if n.get("k") == "forrange" and expr_str(core(n.child("range"))) == h.params[0]["n"]]
            fm = h.calls("filenameMatch")
            rets = [n for n in h.nodes if n.get("k") == "return"]
            okh = okh and len(pl) == 1 and len(fm) == 1 and pl[0].get("var") in expr_str(arg_nodes(fm[0])[0]) and h.params[1]["n"] in expr_str(arg_nodes(fm[0])[1]) and \
                not any(x.get("k") in ("break", "continue") for x in pl[0].child("body").walk())
            t_in = [x for x in rets if any(y is x for y in pl[0].walk())] if pl else []
            t_out = [x for x in rets if x not in t_in]
            okh = okh and len(t_in) == 1 and core(t_in[0].child("e")).get("v") is True and \
                any(p and "filenameMatch" in a and "MATCH" in a for a, p in (bh.at_node(t_in[0]) or frozenset())) and \
                len(t_out) == 1 and core(t_out[0].child("e")).get("v") is False
            why = "the helper does not return true exactly when some pattern matches the name (all patterns tried, in order, until a match)"
        r.check(okh, "getFilteredContents|excluded-iff-match", "via helper", why, g)
        r.check(okh, "getFilteredContents|all-patterns-tried", "via helper", why, g)
        r.check(okh and expr_plain(arg_nodes(pb[0])[0]) == "filename", "getFilteredContents|kept-iff-not-excluded", "via helper", "a name is kept although excluded (or dropped although not)", g)
        r.check(okh, "getFilteredContents|excluded-reset-per-name", "via helper (no flag)", "", g)
        return
    ok = len(sets) == 1 and core(sets[0].child("r")).get("v") is True and any(p and "filenameMatch" in a and "MATCH" in a for a, p in (bg.at_node(sets[0]) or frozenset()))
    r.check(ok, "getFilteredContents|excluded-iff-match", "", "`excluded` is set other than on a pattern match", g)
    brk = [n for n in g.nodes if n.get("k") == "break"]
    ok = all(any(p and "filenameMatch" in a for a, p in (bg.at_node(b) or frozenset())) for b in brk)
    pl = [n for n in g.nodes if n.get("k") == "forrange" and expr_str(core(n.child("range"))) == "filterStrings"]
    ok = ok and len(pl) == 1 and not any(x.get("k") in ("return", "continue") for x in pl[0].child("body").walk())
    fm = g.calls("filenameMatch")
    ok = ok and len(fm) == 1 and "pattern" in expr_str(arg_nodes(fm[0])[0]) and "filename" in expr_str(arg_nodes(fm[0])[1])
    r.check(ok, "getFilteredContents|all-patterns-tried", "", "the pattern loop can stop before a match / matches the wrong operands", g)
    pb = [c for c in g.calls("push_back") if "filenames" in expr_str(c.child("obj"))]
    ok = len(pb) == 1 and any((not p) and a == "excluded" for a, p in (bg.at_node(pb[0]) or frozenset()))
    r.check(ok, "getFilteredContents|kept-iff-not-excluded", "", "a name is kept although excluded (or dropped although not)", g)
    decl = [v for d in g.nodes if d.get("k") == "decl" for v in d["vars"] if v["n"] == "excluded" and "init" in v]
    r.check(len(decl) == 1 and core(g.nodes[decl[0]["init"]]).get("v") is False and E_loop_of(g, [d for d in g.nodes if d.get("k") == "decl" and any(v["n"] == "excluded" for v in d["vars"])][0]) is not None,
            "getFilteredContents|excluded-reset-per-name", "", "`excluded` is not reset for every name", g)


def expr_plain_atom(a):
    import re
    return re.sub(r"cast<[^()]*>\(([^()]*(\([^()]*\))?[^()]*)\)", r"\1", a)


def arg_or_ops(n):
    if n.get("k") == "bin":
        return [n.child("l"), n.child("r")]
    ops = ([n.child("obj")] if "obj" in n else []) + arg_nodes(n)
    return ops


def E_loop_of(f, n):
    for a in f.ancestors(n):
        if a.get("k") in ("while", "for", "do", "forrange"):
            return a
    return None


VARIANTS = [
    dict(name="type-directory-selects-plain", file="lib/BuildSystem/BuildNode.cpp",
         old="    } else if (value == \"directory\") {\n      type = NodeType::Directory;", new="    } else if (value == \"directory\") {\n      type = NodeType::Plain;",
         expect=("R-NODE-TYPE-TABLE", "type: directory")),
    dict(name="is-directory-true-selects-structure", file="lib/BuildSystem/BuildNode.cpp",
         old="    if (value == \"true\") {\n      type = NodeType::Directory;", new="    if (value == \"true\") {\n      type = NodeType::DirectoryStructure;", expect=("R-NODE-TYPE-TABLE", "is-directory: true")),
    dict(name="filtered-listing-drops-stat-dependency", file="lib/BuildSystem/BuildSystem.cpp",
         edits=[("    ti.request(BuildKey::makeStat(path).toData(), /*inputID=*/1);\n", ""), ("    if (inputID == 1) {\n      directoryValue = BuildValue::fromData(value);", "    if (inputID == 0) {\n      directoryValue = BuildValue::fromData(value);")],
         expect=("R-LISTING-RESCAN", "depends-on-stat")),
    dict(name="filtered-listing-decides-from-node-value", file="lib/BuildSystem/BuildSystem.cpp", old="    if (inputID == 1) {\n      directoryValue = BuildValue::fromData(value);", new="    if (inputID == 0) {\n      directoryValue = BuildValue::fromData(value);",
         expect=("R-LISTING-RESCAN", "decides-from-stat-value")),
    dict(name="stat-rule-valid-when-unchanged", file="lib/BuildSystem/BuildSystem.cpp", old="    // Always read the stat information\n    return false;", new="    // Always read the stat information\n    return true;", expect=("R-LISTING-RESCAN", "never-valid")),
    dict(name="content-sig-skips-child-values", file="lib/BuildSystem/BuildSystem.cpp",
         old="      // We merge the children by simply combining their encoded representation.\n      code = hash_combine(\n          code, hash_combine_range(info.value.begin(), info.value.end()));\n", new="",
         expect=("R-TREE-FOLD", "DirectoryTreeSignatureTask|child-value-folded")),
    dict(name="content-sig-no-nil-marker", file="lib/BuildSystem/BuildSystem.cpp",
         old="            code, hash_combine_range(data.begin(), data.end()));\n      } else {\n        // Combine a random number to represent nil.\n        code = hash_combine(code, 0XC183979C3E98722E);\n      }\n    }\n\n    // Compute the signature.\n    ti.complete(BuildValue::makeDirectoryTreeSignature(",
         new="            code, hash_combine_range(data.begin(), data.end()));\n      }\n    }\n\n    // Compute the signature.\n    ti.complete(BuildValue::makeDirectoryTreeSignature(",
         expect=("R-TREE-FOLD", "DirectoryTreeSignatureTask|subtree-or-nil-folded")),
    dict(name="structure-sig-folds-size", file="lib/BuildSystem/BuildSystem.cpp",
         old="      if (value.isExistingInput()) {\n        code = hash_combine(code, value.getOutputInfo().mode);\n      } else {\n        // If this node has been modified",
         new="      if (value.isExistingInput()) {\n        code = hash_combine(code, value.getOutputInfo().mode, value.getOutputInfo().size);\n      } else {\n        // If this node has been modified",
         expect=("R-TREE-FOLD", "structure-uses-mode-only")),
    dict(name="recursion-drops-filters", file="lib/BuildSystem/BuildSystem.cpp",
         old="          ti.request(BuildKey::makeDirectoryTreeSignature(childPath,\n                                                          filters).toData(),",
         new="          ti.request(BuildKey::makeDirectoryTreeSignature(childPath,\n                                                          StringList()).toData(),", expect=("R-TREE-RECURSE", "same-kind-same-filters")),
    dict(name="structure-recursion-uses-content-kind", file="lib/BuildSystem/BuildSystem.cpp",
         old="            BuildKey::makeDirectoryTreeStructureSignature(childPath, filters).toData(),", new="            BuildKey::makeDirectoryTreeSignature(childPath, filters).toData(),",
         expect=("R-TREE-RECURSE", "DirectoryTreeStructureSignatureTask|same-kind-same-filters")),
    dict(name="subtree-id-off-by-one", file="lib/BuildSystem/BuildSystem.cpp",
         old="                     /*inputID=*/1 + childResults.size() + index);\n        }\n      }\n      return;\n    }\n\n    // Otherwise, the input should be a directory signature.\n    auto index = inputID - 1 - childResults.size();\n    assert(index < childResults.size());\n    childResults[index].directorySignatureValue = valueData;",
         new="                     /*inputID=*/1 + childResults.size() + index);\n        }\n      }\n      return;\n    }\n\n    // Otherwise, the input should be a directory signature.\n    auto index = inputID - childResults.size();\n    assert(index < childResults.size());\n    childResults[index].directorySignatureValue = valueData;",
         expect=("R-TREE-RECURSE", "DirectoryTreeSignatureTask|input-id-decoding")),
    dict(name="listing-length-not-compared", file="lib/BuildSystem/BuildSystem.cpp", old="      if (cur.size() != prev.size())\n        return false;\n\n", new="",
         expect=("R-LISTING-COMPARE", "length-compared")),
    dict(name="filter-stops-at-first-pattern", file="lib/BuildSystem/BuildSystem.cpp",
         old="            llbuild::basic::sys::MATCH) {\n          excluded = true;\n          break;\n        }\n      }", new="            llbuild::basic::sys::MATCH) {\n          excluded = true;\n        }\n        break;\n      }",
         expect=("R-FILTER-ALL", "all-patterns-tried")),
    dict(name="filter-inverted", file="lib/BuildSystem/BuildSystem.cpp", old="      if (!excluded)\n        filenames.push_back(filename);", new="      if (excluded)\n        filenames.push_back(filename);",
         expect=("R-FILTER-ALL", "kept-iff-not-excluded")),
    dict(name="listing-unsorted", file="lib/BuildSystem/BuildSystem.cpp",
         old="      filenames.push_back(llvm::sys::path::filename(it->path()));\n    }\n\n    // Order the filenames.\n    std::sort(filenames.begin(), filenames.end(),\n              [](const std::string& a, const std::string& b) {\n                return a < b;\n              });\n",
         new="      filenames.push_back(llvm::sys::path::filename(it->path()));\n    }\n", expect=("R-LISTING-COMPARE", "getContents|sorted-ascending")),
]
