"""C11 — Dependencies discovered while a command runs are honoured on later builds (structural part)."""
from sa.facts import AnalysisBroken, expr_str, qmatch, strip_casts, relpath, core, expr_plain
from sa import cfg
from sa.cfg import BranchFacts
from sa.flow import arg_nodes, mentions, taint_closure
from rules import engine as E

UNITS = ["lib/Core/MakefileDepsParser.cpp", "lib/Core/DependencyInfoParser.cpp", "lib/BuildSystem/ShellCommand.cpp",
         "lib/BuildSystem/BuildSystem.cpp", "lib/Core/BuildEngine.cpp", "lib/Commands/NinjaBuildCommand.cpp"]
THOROUGH_ALL_UNITS = False
EXPLANATION = (
    "Every Makefile-deps action that registers a dependency builds the key from the unescaped word, never from the raw token, and "
    "(shell tool, Ninja) resolves relative words against the command's working directory; every parse-error callback counts the "
    "error, the processing function returns `no errors`, and every caller turns a false result into a failed command (a missing "
    "dependency file too); the deps-style switch covers every enumerator, each style reaches its parser with the right flag, and "
    "the attribute strings map to their own enumerators; the characters un-escaped after a backslash are exactly space, '#' and "
    "backslash, and '$$' yields one '$'; dependency-info inputs are registered as node keys; on the engine side discovered "
    "dependencies are recorded with the key they were given and appended before the result is persisted.")
NOT_DECIDED = ("byte-for-byte round trip of arbitrary escaped paths (value level); re-execution after touching a discovered path "
               "(behavioural).")


def r_deps_unescaped(prog, rep, min_actions=3):
    """shared with C08 (outputs are functions of the discovered inputs too)"""
    r = rep.rule("R-DEPS-UNESCAPED", "every actOnRuleDependency override that registers a dependency derives the key from the unescaped word; relative "
                                     "words are joined to the working directory first (shell tool, Ninja)", floor=3)
    acts = [f for f in prog.overriders("MakefileDepsParser::ParseActions::actOnRuleDependency") if f.name.split("::")[-1] == "actOnRuleDependency"]
    acts = [f for f in acts if not relpath(f.file).startswith("unittests") and "DependencyInfo" not in f.key]
    n_reg = 0
    for f in sorted(acts, key=lambda f: (f.file, f.line)):
        dd = f.calls("discoveredDependency")
        owner = f.cls.split("::")[-2] if "::" in f.cls else f.cls
        where = owner_of(f)
        if not dd:
            continue
        n_reg += 1
        raw, une = f.params[0]["did"], f.params[1]["did"]
        t_une = taint_closure(f, {une})
        t_raw = taint_closure(f, {raw})            # anything the raw (still escaped) token flows into
        for i, c in enumerate(dd):
            a = arg_nodes(c)[0]
            ok = mentions(a, t_une) and not mentions(a, t_raw)
            r.check(ok, "%s|key-from-unescaped#%d" % (where, i), "", "dependency key is built from %s" % expr_str(a)[:60], f, c)
        # every reported dependency is registered: no exit skips all registration calls (a path that cannot be normalised excepted)
        bf0 = BranchFacts(f, kill="assign")
        dps = set(cfg.pos_of(f, c) for c in dd)
        legit = set(cfg.pos_of(f, x) for x in f.nodes if x.get("k") == "return" and
                    any((not p) and "normalize_path" in a for a, p in (bf0.at_node(x) or frozenset())))
        w = cfg.path_exists(f, cfg.entry_pos(f), cfg.is_exit, avoid=lambda p, e: p in dps or p in legit)
        if w is not None and where.startswith("SwiftCompilerShellCommand") and all(
                any(p and a.replace(" ", "") in ("(ruleNumber==0)", "(0==ruleNumber)") for a, p in (bf0.at_node(c) or frozenset())) for c in dd):
            r.exempt("%s|no-dependency-dropped" % where, "Swift tool design: swiftc writes one rule per output with identical dependency lists, only the first rule "
                     "is registered (comment at the site); the same selection exists as an explicit deps-style for the shell tool", f)
        else:
            r.check(w is None, "%s|no-dependency-dropped" % where, "", "a dependency named by the file can be skipped without being registered", f, path=w)
        is_shell = "buildsystem::ShellCommand::processMakefile" in f.key
        if is_shell or "NinjaBuildCommand" in relpath(f.file):
            # a relative word is resolved against the working directory
            wd = [n for n in f.nodes if n.get("k") in ("member", "ref") and n.get("n") == "workingDirectory"]
            r.check(bool(wd), "%s|relative-against-working-directory" % where, "", "relative dependency paths are not resolved against the working directory", f)
            if is_shell:
                bf = BranchFacts(f, kill="assign")
                abs_calls = [c for c in dd if any(p and "is_absolute" in a for a, p in (bf.at_node(c) or frozenset()))]
                rel_calls = [c for c in dd if c not in abs_calls]
                ok = len(abs_calls) == 1 and len(rel_calls) == 1 and "absPath" in expr_str(arg_nodes(rel_calls[0])[0])
                r.check(ok, "%s|absolute-and-relative-branches" % where, "", "absolute / relative words are not both registered", f)
    if n_reg < min_actions:
        raise AnalysisBroken("only %d dependency-registering Makefile actions found" % n_reg)
    di = [f for f in prog.overriders("DependencyInfoParser::ParseActions::actOnInput") if f.name.split("::")[-1] == "actOnInput" and not relpath(f.file).startswith("unittests")]
    for f in di:
        dd = f.calls("discoveredDependency")
        ok = len(dd) == 1 and mentions(arg_nodes(dd[0])[0], {f.params[0]["did"]}) and "makeNode" in expr_str(arg_nodes(dd[0])[0])
        r.check(ok, "%s|dependency-info-input-registered" % owner_of(f), "", "dependency-info input is not registered as a node key", f)

    return r


def run(ctx):
    prog, rep = ctx.prog, ctx.report

    r_deps_unescaped(prog, rep)

    r = rep.rule("R-DEPS-ERRORS-FAIL", "every parse-error callback counts the error; the processing functions return `numErrors == 0`; a false result "
                                       "and a missing dependency file fail the command", floor=8)
    errs = [f for f in prog.functions.values() if f.name.split("::")[-1] == "error" and "DepsActions" in f.cls and not relpath(f.file).startswith("unittests")]
    for f in sorted(errs, key=lambda f: (f.file, f.line)):
        inc = [n for n in f.nodes if n.get("k") == "un" and n["op"] == "++" and expr_str(n.child("e")) == "numErrors"]
        ok = len(inc) == 1 and cfg.must_pass_through(f, cfg.entry_pos(f), lambda p, e: cfg.elem_node(f, e) is inc[0])[0]
        r.check(ok, "%s|error-counted" % owner_of(f), "", "a parse error is reported without being counted", f)
    procs = [f for f in prog.functions.values() if not f.is_lambda and any(l.cls.endswith("DepsActions") and l.name.endswith("::error") for l in [])]
    n_proc = 0
    for f in prog.functions.values():
        if f.is_lambda:
            continue
        parsers = [c for c in f.calls() if (c.get("fn") or "").split("::")[-1] == "parse" and ("MakefileDepsParser" in (c.get("fn") or "") or "DependencyInfoParser" in (c.get("fn") or ""))]
        if not parsers or relpath(f.file).startswith("unittests") or "ParseActions" in f.cls:
            continue
        if f.ret_type() != "bool":
            continue
        n_proc += 1
        rets = [n for n in f.nodes if n.get("k") == "return"]
        after = [x for x in rets if cfg.path_exists(f, cfg.pos_of(f, parsers[0]), lambda p, e, xp=cfg.pos_of(f, x): p == xp) is not None]
        ok = len(after) >= 1 and all(expr_plain(core(x.child("e"))) in ("(actions.numErrors == 0)", "(0 == actions.numErrors)") for x in after)
        r.check(ok, "%s|returns-no-errors" % short_name(f), "", "after parsing the function returns %s" % [expr_str(x.child("e")) for x in after], f)
    if n_proc < 3:
        raise AnalysisBroken("only %d dependency-processing functions found" % n_proc)
    f = prog.fn("ShellCommand::processDiscoveredDependencies")
    bf = BranchFacts(f, kill="assign")
    for nm in ("processMakefileDiscoveredDependencies", "processDependencyInfoDiscoveredDependencies"):
        for i, c in enumerate(f.calls("ShellCommand::" + nm)):
            # when this call answers false the function can only answer false (`if (!call) return false;`, `return call;` alike): the body is walked
            # with the call's value fixed, the other parse calls left open
            key = cfg.canon(c)
            cpos = cfg.pos_of(f, c)
            direct = f.parent_of(c)
            while direct is not None and direct.get("k") in ("cast", "paren", "cleanups"):
                direct = f.parent_of(direct)
            if direct is not None and direct.get("k") == "return":
                ok = True                    # `return call(...)`: the answer is the call's
            else:
                def bad_end(p, e):
                    n = cfg.elem_node(f, e)
                    if n is not None and n.get("k") == "return":
                        v = core(n.child("e")) if "e" in n else None
                        return not (v is not None and v.get("k") == "bool" and v.get("v") is False)
                    return p == cpos         # round the loop to the next file
                w = cfg.path_exists_feasible(f, cpos, bad_end, infeasible=lambda a, p, key=key: a == key and p)
                ok = w is None
            r.check(ok, "processDiscoveredDependencies|%s#%d-failure-propagates" % (nm, i), "", "a failed parse does not fail the dependency processing: after this call "
                    "answered false the function can go on or answer something else than false", f, c)
    # every dependency file of the list is processed: the loop over the files is left early only with a failure
    from rules import engine as E_
    dl = [(lp, en) for lp, en in E_.whole_container_loops(f, "depsPaths")]
    if len(dl) != 1:
        raise AnalysisBroken("processDiscoveredDependencies: %d loops over depsPaths" % len(dl))
    lp = dl[0][0]
    early = [x for x in lp.child("body").walk() if x.get("k") in ("return", "break", "goto") and
             not (x.get("k") == "return" and "e" in x and core(x.child("e")) is not None and core(x.child("e")).get("k") == "bool" and core(x.child("e")).get("v") is False)]
    early = [x for x in early if not (x.get("k") == "break" and next((a for a in f.ancestors(x) if a.get("k") in ("switch", "for", "forrange", "while", "do")), None) is not lp)]
    r.check(not early, "processDiscoveredDependencies|all-files-processed", "", "the loop over the dependency files can be left without a failure before the last file: what "
            "only a later file names is never registered", f, early[0] if early else None)
    gets = f.calls("getFileContents") or [c for l_ in prog.lambdas_of(f) for c in l_.calls("getFileContents")]     # (the read may sit in a local lambda)
    rets_false = [x for x in f.nodes if x.get("k") == "return" and core(x.child("e")).get("v") is False]
    ok = any(any(a == "input.operator bool()" and not p for a, p in (bf.at_node(x) or frozenset())) for x in rets_false)
    r.check(bool(gets) and ok, "processDiscoveredDependencies|missing-file-fails", "", "a dependency file that cannot be read does not fail the command", f)
    ok = any(any(p and "Unused" in a for a, p in (bf.at_node(x) or frozenset())) for x in rets_false)
    r.check(ok, "processDiscoveredDependencies|style-required", "", "dependency paths without a deps-style do not fail the command", f)
    ex = prog.fn("ShellCommand::executeExternalCommand")
    hit = False
    for l in prog.lambdas_of(ex):
        pc = l.calls("ShellCommand::processDiscoveredDependencies")
        if not pc:
            continue
        bl = BranchFacts(l, kill="assign")
        for c in l.nodes:
            if c.get("k") == "call" and c.get("op") == "()" and "completionFn" in expr_str(c.child("obj")) and "Failed" in expr_str(c):
                st = bl.at_node(c) or frozenset()
                if any((not p) and "processDiscoveredDependencies" in a for a, p in st):
                    hit = True
    r.check(hit, "executeExternalCommand|deps-failure-fails-command", "", "a dependency-processing failure does not complete the command as Failed", ex)
    cl = prog.fns("ClangShellCommand::executeExternalCommand")
    if cl:
        hitc = False
        for l in prog.lambdas_of(cl[0]):
            if l.calls("processDiscoveredDependencies"):
                bl = BranchFacts(l, kill="assign")
                for c in l.nodes:
                    if c.get("k") == "call" and c.get("op") == "()" and "completionFn" in expr_str(c.child("obj")) and "Failed" in expr_str(c):
                        if any((not p) and "processDiscoveredDependencies" in a for a, p in (bl.at_node(c) or frozenset())):
                            hitc = True
        r.check(hitc, "ClangShellCommand|deps-failure-fails-command", "", "clang tool: a dependency-processing failure does not fail the command", cl[0])

    r = rep.rule("R-DEPS-ALL-STYLES", "the deps-style switch handles every enumerator and sends each style to its parser with the right flag; the attribute "
                                      "strings select their own enumerators", floor=5)
    enum = [e["n"] for e in prog.enum("ShellCommand::DepsStyle")["enumerators"]]
    sw = [b for b in f.blocks.values() if b.term and b.term["cls"] == "SwitchStmt" and "depsStyle" in expr_str(b.cond())]
    if len(sw) == 1:
        cases = [c.get("cn", "").split("::")[-1] for c in sw[0].term["cases"] if isinstance(c, dict)]
    else:
        # an if-chain over the same enumerators: the styles that some branch of the function establishes for depsStyle
        cases = []
        for b in f.blocks.values():
            c_ = b.cond()
            if c_ is not None and "depsStyle" in expr_str(c_):
                for x in c_.walk():
                    if x.get("k") == "ref" and x.get("dk") == "enumconst" and x.get("n") in enum and x.get("n") not in cases:
                        cases.append(x["n"])
        if not cases:
            raise AnalysisBroken("deps-style dispatch not found")
    r.check(sorted(cases) == sorted(enum), "processDiscoveredDependencies|all-styles-handled", "%s" % sorted(cases), "switch handles %s of %s" % (sorted(cases), sorted(enum)), f)
    want = {"Makefile": ("processMakefileDiscoveredDependencies", "false"), "DependencyInfo": ("processDependencyInfoDiscoveredDependencies", None),
            "MakefileIgnoringSubsequentOutputs": ("processMakefileDiscoveredDependencies", "true")}
    for c in f.calls():
        nm = (c.get("fn") or "").split("::")[-1]
        if nm not in ("processMakefileDiscoveredDependencies", "processDependencyInfoDiscoveredDependencies"):
            continue
        st = bf.at_node(c) or frozenset()
        style = cfg.established_cases(st, enum)
        flag = expr_str(core(arg_nodes(c)[-1])) if nm.startswith("processMakefile") else None
        ok = len(style) == 1 and style[0] in want and want[style[0]] == (nm, flag)
        r.check(ok, "processDiscoveredDependencies|style %s" % (style[0] if style else "?"), "-> %s(%s)" % (nm, flag), "style %s is parsed by %s(flag=%s)" % (style, nm, flag), f, c)
    cfgf = [x for x in prog.fns("ShellCommand::configureAttribute") if "StringRef" in x.param_type(2) and "ArrayRef" not in x.param_type(2)]
    if cfgf:
        g = cfgf[0]
        bg = BranchFacts(g, kill="assign")
        table = {"makefile": "Makefile", "dependency-info": "DependencyInfo", "makefile-ignoring-subsequent-outputs": "MakefileIgnoringSubsequentOutputs"}
        got = {}
        for n in g.nodes:
            if n.get("k") == "bin" and n["op"] == "=" and expr_str(n.child("l")) == "depsStyle":
                st = bg.at_node(n) or frozenset()
                lits = [a for a, p in st if p and "value" in a and '"' in a and " == " in a]
                for a in lits:
                    lit = a.split('"')[1]
                    if lit != "deps-style":
                        got[lit] = expr_str(core(n.child("r"))).split("::")[-1]
        r.check(got == table, "configureAttribute|deps-style-strings", "%s" % got, "deps-style strings map to %s" % got, g)

    r = rep.rule("R-ESCAPE-TABLE", "lexWord un-escapes exactly space, '#' and backslash after a backslash, keeps the backslash for anything else, and turns "
                                   "'$$' into one '$'", floor=3)
    lw = prog.fn("lexWord")
    ifs = [n for n in lw.nodes if n.get("k") == "if"]
    esc = None
    cond_chars = set()
    for n in ifs:
        ds = [x for x in disj(n.child("c"))]
        chars, cond = set(), set()
        for d_ in ds:
            d_ = core(d_)
            if d_ is not None and d_.get("k") == "bin" and d_["op"] == "==" and core(d_.child("r")).get("k") == "char" and expr_str(core(d_.child("l"))) == "c":
                chars.add(core(d_.child("r"))["v"])
            elif d_ is not None:
                # a character accepted only together with something else: (c == 'x' && ...)
                for y in d_.walk():
                    if y.get("k") == "bin" and y["op"] == "==" and core(y.child("r")).get("k") == "char" and expr_str(core(y.child("l"))) == "c":
                        cond.add(core(y.child("r"))["v"])
        if len(chars) + len(cond) >= 2 and esc is None:
            esc = (n, chars)
            cond_chars = cond
    ok = esc is not None and esc[1] == {32, 35, 92} and not cond_chars
    r.check(ok, "lexWord|escape-set", "", "characters un-escaped after a backslash: %s%s" % (
        sorted(chr(c) for c in esc[1]) if esc else None, (", and only under a further condition: %s" % sorted(chr(c) for c in cond_chars)) if cond_chars else ""), lw)
    if esc:
        n = esc[0]
        then_push = [c for c in lw.calls("push_back") if any(x is c for x in n.child("then").walk())]
        else_push = [c for c in lw.calls("push_back") if n.child("else") is not None and any(x is c for x in n.child("else").walk())]
        ok = len(then_push) == 1 and expr_str(core(arg_nodes(then_push[0])[0])) == "c" and len(else_push) == 2 and \
            core(arg_nodes(else_push[0])[0]).get("v") == 92 and expr_str(core(arg_nodes(else_push[1])[0])) == "c"
        r.check(ok, "lexWord|other-escapes-keep-backslash", "", "an unknown escape does not keep its backslash", lw)
    else:
        r.violation("lexWord|other-escapes-keep-backslash", "escape handling not found", lw)
    bfl = BranchFacts(lw, kill="assign")
    dollar = [c for c in lw.calls("push_back") if any(p and a == "(36 == c)" or p and a == "(c == 36)" for a, p in (bfl.at_node(c) or frozenset()))]
    ok = len(dollar) == 1
    if ok:
        st = bfl.at_node(dollar[0])
        ok = any(p and "cur[1]" in a and "36" in a for a, p in st)
        inc = [n for n in lw.nodes if n.get("k") == "un" and n["op"] == "++" and any(p and "cur[1]" in a and "36" in a for a, p in (bfl.at_node(n) or frozenset()))]
        ok = ok and len(inc) == 1
    r.check(ok, "lexWord|double-dollar", "", "'$$' is not reduced to one '$'", lw)

    E.r_discovered_append(prog, rep)
    E.r_discovered_demanded(prog, rep)
    # a recorded (discovered) dependency is honoured by the same scan as a declared one
    for rule_fn in (E.r_scan_guards, E.r_scan_waits, E.r_epoch_cmp, E.r_epoch_persist, E.r_parallel_vectors, E.r_singleuse_bits, E.r_deps_reset):
        rule_fn(prog, rep)


def owner_of(f):
    """short name of the function a local DepsActions class lives in"""
    import re
    head = f.key.split("::DepsActions")[0]
    m = re.findall(r"([A-Za-z_]\w*)\(", head)
    cl = re.findall(r"([A-Za-z_]\w*)::[A-Za-z_]\w*\(", head)
    return "%s::%s" % (cl[-1], m[-1]) if m and cl else (m[-1] if m else f.cls.split("::")[-1])


def disj(n):
    n = core(n)
    if n is not None and n.get("k") == "bin" and n["op"] == "||":
        return disj(n.child("l")) + disj(n.child("r"))
    return [n]


def short_name(f):
    parts = f.name.split("::")
    return "::".join(parts[-2:]) if len(parts) > 1 else parts[0]


VARIANTS = [
    dict(name="shell-deps-skip-declared-inputs", file="lib/BuildSystem/ShellCommand.cpp",
         old="      if (llvm::sys::path::is_absolute(unescapedWord)) {\n        ti.discoveredDependency(BuildKey::makeNode(unescapedWord).toData());",
         new="      for (auto* in: command->getInputs()) { if (in->getName() == unescapedWord) return; }\n      if (llvm::sys::path::is_absolute(unescapedWord)) {\n        ti.discoveredDependency(BuildKey::makeNode(unescapedWord).toData());",
         expect=("R-DEPS-UNESCAPED", "no-dependency-dropped")),
    dict(name="backslash-unescaped-only-before-special", file="lib/Core/MakefileDepsParser.cpp", old="      if (c == ' ' || c == '#' || c == '\\\\') {",
         new="      if (c == ' ' || c == '#' || (c == '\\\\' && cur + 1 != end && (cur[1] == ' ' || cur[1] == '#'))) {", expect=("R-ESCAPE-TABLE", "escape-set")),
    dict(name="shell-deps-key-from-raw-token", file="lib/BuildSystem/ShellCommand.cpp",
         old="        ti.discoveredDependency(BuildKey::makeNode(unescapedWord).toData());\n        system.getDelegate().commandFoundDiscoveredDependency(command, unescapedWord, DiscoveredDependencyKind::Input);\n        return;",
         new="        ti.discoveredDependency(BuildKey::makeNode(dependency).toData());\n        system.getDelegate().commandFoundDiscoveredDependency(command, unescapedWord, DiscoveredDependencyKind::Input);\n        return;",
         expect=("R-DEPS-UNESCAPED", "key-from-unescaped")),
    dict(name="clang-deps-key-from-raw-token", file="lib/BuildSystem/BuildSystem.cpp",
         old="        ti.discoveredDependency(BuildKey::makeNode(unescapedWord).toData());\n        getBuildSystem(ti).getDelegate().commandFoundDiscoveredDependency(command, unescapedWord,",
         new="        ti.discoveredDependency(BuildKey::makeNode(dependency).toData());\n        getBuildSystem(ti).getDelegate().commandFoundDiscoveredDependency(command, unescapedWord,",
         expect=("R-DEPS-UNESCAPED", "key-from-unescaped")),
    dict(name="parse-errors-not-counted", file="lib/BuildSystem/ShellCommand.cpp",
         old="      system.getDelegate().commandHadError(command, msgStream.str());\n      ++numErrors;", new="      system.getDelegate().commandHadError(command, msgStream.str());",
         expect=("R-DEPS-ERRORS-FAIL", "error-counted")),
    dict(name="makefile-deps-always-ok", file="lib/BuildSystem/ShellCommand.cpp",
         old="  core::MakefileDepsParser(input->getBuffer(), actions, ignoreSubsequentOutputs).parse();\n  return actions.numErrors == 0;",
         new="  core::MakefileDepsParser(input->getBuffer(), actions, ignoreSubsequentOutputs).parse();\n  return true;", expect=("R-DEPS-ERRORS-FAIL", "returns-no-errors")),
    dict(name="missing-deps-file-tolerated", file="lib/BuildSystem/ShellCommand.cpp",
         old="          this, \"unable to open dependencies file (\" + depsPath + \")\");\n      return false;", new="          this, \"unable to open dependencies file (\" + depsPath + \")\");\n      continue;",
         expect=("R-DEPS-ERRORS-FAIL", "missing-file-fails")),
    dict(name="deps-failure-reports-success", file="lib/BuildSystem/ShellCommand.cpp",
         old="              if (completionFn.hasValue())\n                completionFn.getValue()(ProcessStatus::Failed);\n              return;",
         new="              if (completionFn.hasValue())\n                completionFn.getValue()(result);\n              return;", expect=("R-DEPS-ERRORS-FAIL", "deps-failure-fails-command")),
    dict(name="ignoring-style-parses-everything", file="lib/BuildSystem/ShellCommand.cpp",
         old="              system, ti, context, depsPath, input.get(), true))", new="              system, ti, context, depsPath, input.get(), false))", expect=("R-DEPS-ALL-STYLES", "style MakefileIgnoringSubsequentOutputs")),
    dict(name="deps-style-string-mixup", file="lib/BuildSystem/ShellCommand.cpp",
         old="    } else if (value == \"dependency-info\") {\n      depsStyle = DepsStyle::DependencyInfo;", new="    } else if (value == \"dependency-info\") {\n      depsStyle = DepsStyle::Makefile;",
         expect=("R-DEPS-ALL-STYLES", "deps-style-strings")),
    dict(name="hash-escape-dropped", file="lib/Core/MakefileDepsParser.cpp", old="      if (c == ' ' || c == '#' || c == '\\\\') {", new="      if (c == ' ' || c == '\\\\') {", expect=("R-ESCAPE-TABLE", "escape-set")),
    dict(name="double-dollar-kept", file="lib/Core/MakefileDepsParser.cpp",
         old="      unescapedWord.push_back(c);\n      ++cur;\n      continue;", new="      unescapedWord.push_back(c);\n      unescapedWord.push_back(c);\n      ++cur;\n      continue;", expect=("R-ESCAPE-TABLE", "double-dollar")),
    dict(name="only-first-deps-file-processed", file="lib/BuildSystem/ShellCommand.cpp", old="      if (!processMakefileDiscoveredDependencies(\n              system, ti, context, depsPath, input.get(), false))\n        return false;\n      continue;",
         new="      return processMakefileDiscoveredDependencies(\n          system, ti, context, depsPath, input.get(), false);", expect=("R-DEPS-ERRORS-FAIL", "all-files-processed")),
]
