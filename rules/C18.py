"""C18 — Ninja builds converge to the clean-build state and do no unnecessary work (structural part)."""
from sa.facts import AnalysisBroken, expr_str, qmatch, strip_casts, relpath, core, expr_plain
from sa import cfg
from sa.cfg import BranchFacts
from sa.flow import arg_nodes
from rules import tasks as T

UNITS = ["lib/Commands/NinjaBuildCommand.cpp", "lib/Core/BuildEngine.cpp", "lib/Basic/Subprocess.cpp",
         "lib/Basic/LaneBasedExecutionQueue.cpp", "lib/Basic/SerialQueue.cpp", "lib/Ninja/Parser.cpp", "lib/Ninja/Lexer.cpp",
         "lib/Ninja/ManifestLoader.cpp", "lib/Core/SQLiteBuildDB.cpp", "products/libllbuild/BuildDB-C-API.cpp"]
THOROUGH_ALL_UNITS = False
EXPLANATION = (
    "Every task type of the Ninja driver completes exactly once on every path, through the console-queue / lane-job / "
    "process-completion hand-off chain; explicit and implicit inputs are requested (value dependencies) and order-only inputs only "
    "followed, each from its own iterator range; command validity rejects non-successful values, then (non-generator) a changed "
    "command hash, then any missing or changed output, over all outputs; input validity re-stats; a failed process and a failed "
    "dependency parse complete with a failed-command value and forceChange, a command with a failed or missing input is skipped "
    "without spawning, and the composite selector forwards failed / skipped results with forceChange.")
NOT_DECIDED = ("convergence to the clean-build state and null builds as run-time facts; Ninja compatibility of update-if-newer; the "
               "restat model for multi-output commands.")

NB = "lib/Commands/NinjaBuildCommand.cpp"


def ninja_fn(prog, suffix):
    fs = [f for f in prog.functions.values() if relpath(f.file) == NB and not f.is_lambda and (f.name.endswith("::" + suffix) or f.name == suffix)]
    if len(fs) != 1:
        raise AnalysisBroken("Ninja driver: %s resolves to %d functions" % (suffix, len(fs)))
    return fs[0]


def run(ctx):
    prog, rep = ctx.prog, ctx.report
    T.r_complete_once(prog, rep, only_files={NB}, floor=4)
    # the engine mechanisms the Ninja driver's order-only / implicit / discovered edges rest on
    from rules import engine as E
    E.r_scan_waits(prog, rep)
    E.r_orderonly_guard(prog, rep)
    E.r_discovered_demanded(prog, rep)
    # `llbuild ninja build` is the engine's incremental contract seen through one client: the rules that decide that contract for C01 / C02
    for rule_fn in (E.r_scan_guards, E.r_epoch_cmp, E.r_epoch_writes, E.r_epoch_persist, E.r_dep_record, E.r_discovered_append, E.r_invalid_window,
                    E.r_state_order, E.r_parallel_vectors, E.r_request_flags, E.r_singleuse_bits, E.r_fresh_value, E.r_value_compare, E.r_deps_reset):
        rule_fn(prog, rep)
    from rules import C17, C03
    C17.r_input_classes(prog, rep)
    C17.r_fresh_buffers(prog, rep)
    C03.r_sql_columns(prog, rep)
    from sa.report import run_subset
    run_subset(C03, ctx, {"R-DEPBLOB-BITS", "R-DB-LOOKUP-ON-ADD", "R-SQL-LENGTHS", "R-SQL-AFFINITY", "R-DB-VERSION"})

    r = rep.rule("R-NINJA-ORDERONLY", "explicit and implicit inputs are requested as value dependencies, order-only inputs are only followed; each loop runs "
                                      "over its own iterator range", floor=3)
    f = ninja_fn(prog, "NinjaCommandTask::start")
    loops = [n for n in f.nodes if n.get("k") == "for"]
    want = {"explicitInputs": "request", "implicitInputs": "request", "orderOnlyInputs": "mustFollow"}
    seen = {}
    for lp in loops:
        init = expr_plain(lp.child("init")) if lp.child("init") is not None else ""
        kind = [k for k in want if k + "_begin()" in init and k + "_end()" in init]
        if not kind:
            continue
        calls = [(c.get("fn") or "").split("::")[-1] for c in f.calls() if any(x is c for x in lp.child("body").walk()) and
                 (c.get("fn") or "").split("::")[-1] in ("request", "requestSingleUse", "mustFollow")]
        seen[kind[0]] = calls
    for k, w in want.items():
        r.check(seen.get(k) == [w], "start|%s" % k, "-> %s" % w, "%s inputs are handled by %s" % (k, seen.get(k)), f)

    r = rep.rule("R-NINJA-VALID", "command validity accepts only a successful value with (non-generator) the same command hash and, for every output, present and "
                                  "unchanged file information; input validity re-stats and compares", floor=5)
    v = ninja_fn(prog, "buildCommandIsResultValid")
    bv = BranchFacts(v, kill="assign")
    trues = [x for x in v.nodes if x.get("k") == "return" and core(x.child("e")).get("v") is True]
    st = bv.at_node(trues[0]) if len(trues) == 1 else frozenset()
    r.check(len(trues) == 1 and any(p and a == "value.isSuccessfulCommand()" for a, p in st), "buildCommandIsResultValid|successful-only", "", "a non-successful stored value can be accepted", v)
    hc = [n for n in v.nodes if n.get("k") == "call" and n.get("op") == "!=" and "getCommandHash()" in expr_plain(n) and "getCommandString()" in expr_plain(n)]
    ok = len(hc) == 1 and any((not p) and "hasGeneratorFlag" in a for a, p in (bv.at_node(hc[0]) or frozenset()))
    r.check(ok, "buildCommandIsResultValid|command-hash", "", "a changed command line is not compared (for non-generator commands)", v)
    loops = [n for n in v.nodes if n.get("k") == "for"]
    ok = len(loops) == 1
    if ok:
        lp = loops[0]
        ivars = {x["n"]: expr_plain(v.nodes[x["init"]]) for d in lp.child("init").walk() if d.get("k") == "decl" for x in d["vars"] if "init" in x}
        ok = ivars.get("i") == "0" and ivars.get("e") == "command.getOutputs().size()" and expr_plain(lp.child("c")) in ("(i != e)", "(i < e)")
        falses = [x for x in lp.walk() if x.get("k") == "return" and core(x.child("e")).get("v") is False]
        ok = ok and len(falses) == 2 and any("info.isMissing()" in a for x in falses for a, p in (bv.at_node(x) or frozenset()) if p) and \
            any(n.get("k") == "call" and n.get("op") == "!=" and "getNthOutputInfo(i)" in expr_plain(n) and "info" in expr_plain(n) for n in lp.walk())
        ok = ok and not any(x.get("k") in ("break", "continue") for x in lp.walk())
        tp = cfg.pos_of(v, trues[0]) if trues else None
        ok = ok and tp is not None and cfg.path_exists(v, cfg.entry_pos(v), lambda p, e: p == tp, avoid=lambda p, e: p == cfg.any_pos(v, lp.child("c"))) is None
    r.check(ok, "buildCommandIsResultValid|every-output-present-and-unchanged", "", "validity does not check every output for presence and unchanged file information", v)
    iv = ninja_fn(prog, "buildInputIsResultValid")
    bi = BranchFacts(iv, kill="assign")
    rets = [x for x in iv.nodes if x.get("k") == "return" and not (core(x.child("e")).get("k") == "bool")]
    ok = len(rets) == 1 and "value.getOutputInfo()" in expr_plain(rets[0]) and "info" in expr_plain(rets[0]) and "==" in expr_plain(rets[0]) and \
        any(p and a == "value.isExistingInput()" for a, p in (bi.at_node(rets[0]) or frozenset())) and any((not p) and a == "info.isMissing()" for a, p in (bi.at_node(rets[0]) or frozenset())) and \
        bool(iv.calls("FileInfo::getInfoForPath"))
    r.check(ok, "buildInputIsResultValid|restat-and-compare", "", "input validity does not compare a fresh stat with the stored information", iv)
    sv = ninja_fn(prog, "selectCompositeIsResultValid")
    bs = BranchFacts(sv, kill="assign")
    trues = [x for x in sv.nodes if x.get("k") == "return" and core(x.child("e")).get("v") is True]
    ok = len(trues) == 1 and any(p and a == "value.isSuccessfulCommand()" for a, p in (bs.at_node(trues[0]) or frozenset())) and \
        any(n.get("k") == "call" and n.get("op") == "!=" and "getCommandHash()" in expr_plain(n) for n in sv.nodes)
    r.check(ok, "selectCompositeIsResultValid|successful-and-same-hash", "", "a selector result is accepted for a failed value / changed command", sv)

    r = rep.rule("R-NINJA-FAIL", "a failed process or dependency parse completes with a failed-command value and forceChange; a command with a failed or missing "
                                 "input does not spawn; the selector forwards failed / skipped results with forceChange", floor=5)
    ex = ninja_fn(prog, "NinjaCommandTask::executeCommand")
    lam = [l for l in prog.lambdas_of(ex, recursive=False) if l.params and "ProcessResult" in l.param_type(0)]
    if len(lam) != 1:
        raise AnalysisBroken("executeCommand: process completion lambda not found")
    l = lam[0]
    bl = BranchFacts(l, kill="assign")
    comps = l.calls("TaskInterface::complete")
    n_fail = 0
    for c in comps:
        st = bl.at_node(c) or frozenset()
        a = arg_nodes(c)
        failed_status = any(p and "Succeeded" in a_ and "!=" in a_ for a_, p in st)
        failed_deps = any((not p) and "processDiscoveredDependencies" in a_ for a_, p in st)
        if failed_status or failed_deps:
            n_fail += 1
            ok = "makeFailedCommand()" in expr_str(a[0]) and len(a) > 1 and core(a[1]).get("v") is True
            r.check(ok, "executeCommand|%s" % ("process-failure" if failed_status else "deps-failure"), "", "failure completes with %s" % expr_plain(c)[:80], l, c)
        else:
            ok = "resultValue" in expr_str(a[0]) and len(a) > 1 and "hasRestatFlag" in expr_str(a[1])
            r.check(ok, "executeCommand|success-value", "", "success completes with %s" % expr_plain(c)[:80], l, c)
    r.check(n_fail == 2, "executeCommand|both-failure-paths", "", "expected a failed completion for process failure and for dependency failure", l)
    ia = ninja_fn(prog, "NinjaCommandTask::inputsAvailable")
    bia = BranchFacts(ia, kill="assign")
    spawners = [c for c in ia.nodes if c.get("k") == "call" and c.get("op") == "()" and "addExecuteJob" in expr_str(c.child("obj"))] + \
        [c for c in ia.calls("SerialQueue::async")]
    ok = bool(spawners) and all(any((not p) and a == "shouldSkip" for a, p in (bia.at_node(c) or frozenset())) for c in spawners)
    r.check(ok, "inputsAvailable|no-spawn-when-skipped", "%d sites" % len(spawners), "a command with a failed/missing input can still be scheduled", ia)
    pv = ninja_fn(prog, "NinjaCommandTask::provideValue")
    bp = BranchFacts(pv, kill="assign")
    sk = [n for n in pv.nodes if n.get("k") == "bin" and n["op"] == "=" and expr_str(n.child("l")) == "shouldSkip"]
    ok = len(sk) == 1 and core(sk[0].child("r")).get("v") is True and any((not p) and a == "value.isExistingInput()" for a, p in (bp.at_node(sk[0]) or frozenset())) and \
        any((not p) and a == "value.isSuccessfulCommand()" for a, p in (bp.at_node(sk[0]) or frozenset()))
    r.check(ok, "provideValue|skip-unless-existing-or-successful", "", "an input that is neither existing nor a successful command does not skip the command", pv)
    ppv = ninja_fn(prog, "NinjaCommandTask::providePriorValue")
    bpp = BranchFacts(ppv, kill="assign")
    sets = [n for n in ppv.nodes if n.get("k") == "bin" and n["op"] == "=" and expr_str(n.child("l")) == "hasPriorResult"]
    ok = len(sets) == 1 and any(p and a == "value.isSuccessfulCommand()" for a, p in (bpp.at_node(sets[0]) or frozenset()))
    r.check(ok, "providePriorValue|prior-result-only-if-successful", "", "a prior value that is not a successful command enables update-if-newer", ppv)
    # update-if-newer: the mtime shortcut is switched off unless a successful prior result with the same command hash exists
    ru = rep.rule("R-NINJA-UPDATE-IF-NEWER", "the bring-up-to-date-without-running shortcut is disabled for a non-generator command that has no successful "
                                             "prior result or whose command hash changed, on every path to the shortcut", floor=3)
    offs = [n for n in ia.nodes if n.get("k") == "bin" and n["op"] == "=" and expr_str(n.child("l")) == "canUpdateIfNewer" and core(n.child("r")).get("v") is False]
    GEN, PRIOR, SAME = "command.hasGeneratorFlag()", "hasPriorResult", "(priorCommandHash == commandHash)"
    guard = None
    for o in offs:
        for a in ia.ancestors(o):
            if a.get("k") == "if" and any(x is o for x in a.child("then").walk()) and "hasGeneratorFlag" in expr_str(a.child("c")):
                guard = (o, a)
                break
    if guard is None:
        ru.violation("inputsAvailable|disable-site", "no assignment canUpdateIfNewer = false guarded by the generator flag / prior result / command hash", ia)
    else:
        o, iff = guard
        need = [({GEN: False, PRIOR: False, SAME: True}, "no successful prior result"), ({GEN: False, PRIOR: False, SAME: False}, "no successful prior result"),
                ({GEN: False, PRIOR: True, SAME: False}, "changed command hash")]
        for env, what in need:
            v = cfg.bool_eval(ia, iff.child("c"), env)
            ru.check(v is True, "inputsAvailable|disabled-when %s (generator=%d prior=%d same-hash=%d)" % (what, env[GEN], env[PRIOR], env[SAME]), "",
                     "the shortcut stays enabled for a non-generator command with %s (guard evaluates to %s)" % (what, v), ia, iff)
        short = [c for c in ia.calls("TaskInterface::complete") if any(p and "canUpdateIfNewerWithResult" in a_ for a_, p in (bia.at_node(c) or frozenset()))]
        ok = len(short) == 1 and any(p and a_ == "canUpdateIfNewer" for a_, p in (bia.at_node(short[0]) or frozenset()))
        if ok:
            gen_call = [c for c in ia.calls() if (c.get("fn") or "").endswith("hasGeneratorFlag") and any(x is c for x in iff.child("c").walk())]
            gp = set(ia.elem_pos().get(c["id"]) for c in gen_call)
            dom, _w = cfg.dominated_by(ia, ia.elem_pos()[short[0]["id"]], lambda p_, e_: p_ in gp)
            ok = bool(gen_call) and dom
            ons = [n for n in ia.nodes if n.get("k") == "bin" and n["op"] == "=" and expr_str(n.child("l")) == "canUpdateIfNewer" and core(n.child("r")).get("v") is not False]
            ok = ok and not ons
        ru.check(ok, "inputsAvailable|shortcut-behind-guard", "", "the shortcut completion is reachable without passing the disabling test, or canUpdateIfNewer is re-enabled", ia)
    # depfile-discovered inputs: every path the depfile names becomes a (value) dependency
    rd = rep.rule("R-NINJA-DEPS", "every dependency the depfile parser reports is recorded with discoveredDependency (the only exit that skips it is a path that "
                                  "could not be normalised); the recorded path derives from the un-escaped word; what the manifest already declares - in "
                                  "particular an order-only input, which by itself never triggers a rebuild - does not suppress it", floor=3)
    da = [f for f in prog.functions.values() if relpath(f.file) == NB and not f.is_lambda and f.name.endswith("DepsActions::actOnRuleDependency")]
    if len(da) != 1:
        raise AnalysisBroken("Ninja DepsActions::actOnRuleDependency: %d found" % len(da))
    da = da[0]
    dd = da.calls("TaskInterface::discoveredDependency")
    okd = len(dd) == 1
    rd.check(okd, "actOnRuleDependency|records-dependency", "", "expected exactly one discoveredDependency call (found %d)" % len(dd), da)
    if okd:
        bfd = BranchFacts(da, kill="assign")
        dpos = cfg.pos_of(da, dd[0])
        legit = set()
        for x in da.nodes:
            if x.get("k") == "return" and any((not p) and "normalize_path" in a for a, p in (bfd.at_node(x) or frozenset())):
                legit.add(cfg.pos_of(da, x))
        w = cfg.path_exists(da, cfg.entry_pos(da), cfg.is_exit, avoid=lambda p, e: p == dpos or p in legit)
        rd.check(w is None, "actOnRuleDependency|no-dependency-dropped", "%d normalisation-failure exit(s)" % len(legit),
                 "a dependency named by the depfile can be skipped without being recorded (exit not caused by a path-normalisation failure)", da, dd[0], path=w)
        from sa.flow import taint_closure, param_did
        t = taint_closure(da, {param_did(da, "unescapedWord")})
        from sa.flow import mentions as _m
        rd.check(_m(arg_nodes(dd[0])[0], t) and not _m(arg_nodes(dd[0])[0], taint_closure(da, {param_did(da, "dependency")}) - t), "actOnRuleDependency|from-unescaped-word", "",
                 "the recorded dependency does not derive from the un-escaped word", da, dd[0])
    # nothing that stays true from build to build forces a change
    rp = rep.rule("R-NINJA-NO-PERPETUAL-FORCE", "forceChange is tied to an event of this build (a failure, a process that really ran, restat); a condition that persists "
                                                "across builds with no external change - such as 'no file is named like this phony target' - must not force a change, "
                                                "or every consumer re-runs in every build", floor=1)
    comps_ia = ia.calls("TaskInterface::complete")
    n_force = 0
    for c in comps_ia:
        a = arg_nodes(c)
        if len(a) < 2 or a[1] is None:
            continue
        fa = core(a[1])
        if fa.get("k") == "bool":
            continue
        n_force += 1
        # where does the flag come from?
        src_txt = expr_plain(a[1])
        writes = [n for n in ia.nodes if n.get("k") == "bin" and n["op"] == "=" and expr_plain(n.child("l")) == src_txt]
        bad = None
        for w_ in writes:
            if core(w_.child("r")).get("v") is True:
                st = bia.at_node(w_) or frozenset()
                if any(p and "isMissing()" in a_ for a_, p in st) and any(p and "getPhonyRule" in a_ for a_, p in (bia.at_node(c) or frozenset())):
                    bad = w_
        rp.check(bad is None, "inputsAvailable|phony-force-change-from-missing-output", "", "the phony completion forces a change whenever no file is named like one of its outputs: "
                 "an alias target (never a file) changes in every build and every command consuming it re-runs", ia, bad or c)
    if n_force == 0:
        raise AnalysisBroken("inputsAvailable: no completion with a computed forceChange found")
    sel = [f for f in prog.functions.values() if relpath(f.file) == NB and not f.is_lambda and f.name.endswith("SelectResultTask::inputsAvailable")]
    if len(sel) != 1:
        raise AnalysisBroken("SelectResultTask::inputsAvailable not found")
    s = sel[0]
    bsel = BranchFacts(s, kill="assign")
    comps = s.calls("TaskInterface::complete")
    okf = False
    for c in comps:
        iff = None
        for a in s.ancestors(c):
            if a.get("k") == "if":
                iff = a
                break
        if iff is not None and any(x is c for x in iff.child("then").walk()):
            names = set((core(d).get("fn") or "").split("::")[-1] for d in disj(iff.child("c")))
            okf = names == {"isFailedCommand", "isSkippedCommand"} and "value.toValue()" in expr_plain(arg_nodes(c)[0]) and core(arg_nodes(c)[1]).get("v") is True
    r.check(okf, "SelectResultTask|failed-or-skipped-forwarded-forced", "", "the selector does not forward failed/skipped composite results with forceChange", s)
    good = [c for c in comps if "getNthOutputInfo(inputIndex)" in expr_plain(c) and "getCommandHash()" in expr_plain(c)]
    r.check(len(good) == 1, "SelectResultTask|selects-own-output", "", "the selector does not return the inputIndex-th output with the command hash", s)


def disj(n):
    n = core(n)
    if n is not None and n.get("k") == "bin" and n["op"] == "||":
        return disj(n.child("l")) + disj(n.child("r"))
    return [n]


VARIANTS = [
    dict(name="depfile-skips-declared-inputs", file=NB,
         old="            StringRef path = absPathTmp;\n            ti.discoveredDependency(path);",
         new="            StringRef path = absPathTmp;\n            if (path.endswith(\".h\") && path.startswith(workingDirectory)) return;\n            ti.discoveredDependency(path);",
         expect=("R-NINJA-DEPS", "no-dependency-dropped")),
    dict(name="no-prior-result-allows-mtime-shortcut", file=NB,
         old="        if (!command->hasGeneratorFlag() &&\n            (!hasPriorResult || priorCommandHash != commandHash))\n          canUpdateIfNewer = false;",
         new="        bool commandChanged = hasPriorResult && priorCommandHash != commandHash;\n        if (!command->hasGeneratorFlag() && commandChanged)\n          canUpdateIfNewer = false;",
         expect=("R-NINJA-UPDATE-IF-NEWER", "no successful prior result")),
    dict(name="benign-update-if-newer-guard-via-local", file=NB,
         old="        if (!command->hasGeneratorFlag() &&\n            (!hasPriorResult || priorCommandHash != commandHash))\n          canUpdateIfNewer = false;",
         new="        bool sameCommand = hasPriorResult && priorCommandHash == commandHash;\n        if (!command->hasGeneratorFlag() && !sameCommand)\n          canUpdateIfNewer = false;",
         expect=None),
    dict(name="order-only-requested-as-value", file=NB, old="        ti.mustFollow((*it)->getCanonicalPath());", new="        ti.request((*it)->getCanonicalPath(), id++);",
         expect=("R-NINJA-ORDERONLY", "orderOnlyInputs")),
    dict(name="implicit-inputs-only-followed", file=NB,
         old="             ie = command->implicitInputs_end(); it != ie; ++it, ++id) {\n        if (!context.strict && isPhony && isImmediatelyCyclicInput(*it))\n          continue;\n\n        ti.request((*it)->getCanonicalPath(), id);",
         new="             ie = command->implicitInputs_end(); it != ie; ++it, ++id) {\n        if (!context.strict && isPhony && isImmediatelyCyclicInput(*it))\n          continue;\n\n        ti.mustFollow((*it)->getCanonicalPath());",
         expect=("R-NINJA-ORDERONLY", "implicitInputs")),
    dict(name="command-hash-not-compared", file=NB,
         old="  if (!command->hasGeneratorFlag()) {\n    if (value.getCommandHash() != CommandSignature(\n          command->getCommandString()))\n      return false;\n  }\n", new="",
         expect=("R-NINJA-VALID", "command-hash")),
    dict(name="only-first-output-checked", file=NB,
         old="    if (value.getNthOutputInfo(i) != info)\n      return false;\n  }\n\n  return true;\n}\n\nstatic bool selectCompositeIsResultValid",
         new="    if (value.getNthOutputInfo(i) != info)\n      return false;\n    break;\n  }\n\n  return true;\n}\n\nstatic bool selectCompositeIsResultValid", expect=("R-NINJA-VALID", "every-output")),
    dict(name="failed-process-not-forced", file=NB,
         old="            return ti.complete(BuildValue::makeFailedCommand().toValue(),\n                               /*ForceChange=*/true);\n          }\n\n          // Otherwise, the command succeeded so process the dependencies.",
         new="            return ti.complete(BuildValue::makeFailedCommand().toValue());\n          }\n\n          // Otherwise, the command succeeded so process the dependencies.", expect=("R-NINJA-FAIL", "process-failure")),
    dict(name="deps-failure-reports-success", file=NB,
         old="          if (!processDiscoveredDependencies(ti)) {\n            context.incrementFailedCommands();\n            return ti.complete(BuildValue::makeFailedCommand().toValue(),\n                               /*ForceChange=*/true);\n          }\n",
         new="          if (!processDiscoveredDependencies(ti)) {\n            context.incrementFailedCommands();\n          }\n", expect=("R-NINJA-FAIL", "both-failure-paths")),
    dict(name="skipped-command-still-spawns", file=NB,
         old="        return ti.complete(BuildValue::makeSkippedCommand().toValue());\n      }\n      assert(!hasMissingInput);", new="        if (hasMissingInput) return ti.complete(BuildValue::makeSkippedCommand().toValue());\n      }\n      assert(!hasMissingInput);",
         expect=("R-NINJA-FAIL", "no-spawn-when-skipped")),
    dict(name="cancelled-job-does-not-complete", file=NB,
         old="      // If the build is cancelled, skip the job.\n      if (context.isCancelled) {\n        return ti.complete(BuildValue::makeSkippedCommand().toValue());\n      }",
         new="      // If the build is cancelled, skip the job.\n      if (context.isCancelled) {\n        return;\n      }", expect=("R-COMPLETE-ONCE", "NinjaCommandTask::inputsAvailable")),
    dict(name="selector-forwards-failure-unforced", file=NB, old="        ti.complete(value.toValue(), /*ForceChange=*/true);", new="        ti.complete(value.toValue());", expect=("R-NINJA-FAIL", "SelectResultTask")),
]
