"""C14 — Stale-file removal deletes exactly the obsolete outputs inside the allowed roots (structural part)."""
from sa.facts import AnalysisBroken, expr_str, qmatch, strip_casts, relpath, core, expr_plain
from sa import cfg
from sa.cfg import BranchFacts
from sa.flow import arg_nodes
from rules import tasks as T
from rules import engine as E

UNITS = ["lib/BuildSystem/BuildSystem.cpp", "lib/Basic/FileSystem.cpp"]
FS = "lib/Basic/FileSystem.cpp"
THOROUGH_ALL_UNITS = False
EXPLANATION = (
    "The only FileSystem::remove of the stale-file-removal command deletes the loop variable ranging over filesToDelete; it is "
    "reachable only with isLocatedUnderRootPath true, which is set only by the `no roots configured` initialiser or under "
    "pathIsPrefixedByPath(file, root) (file first, root second) for some configured root; when roots are configured a path whose "
    "first character is not a separator is skipped before the root test; filesToDelete is written only by "
    "set_difference(prior, expected) over two sorted sets built from the prior value's stale-file list and from expectedOutputs; "
    "every path of execute reports exactly once with makeStaleFileRemoval(expectedOutputs); isResultValid is constantly false.  "
    "The local file system's remove() never follows a symbolic link (lstat/link_status only, directory iteration with FollowSymlinks=false), "
    "removes a directory's entries recursively by their own link type before the directory itself, and touches nothing but the path and "
    "entries enumerated beneath it.")
NOT_DECIDED = ("the input/output behaviour of pathIsPrefixedByPath itself (a value-level predicate over all string pairs: a root "
               "spelled with a trailing separator — see DESIGN note N-1); what the kernel does for unlink/rmdir.")

CMD = "StaleFileRemovalCommand"


def r_remove_tree(prog, rep):
    r = rep.rule("R-REMOVE-TREE", "FileSystem::remove deletes the path itself and, for a directory, exactly the entries enumerated beneath it: no stat()/status() that "
                                  "follows a symbolic link decides what is a directory, iteration does not follow links, every entry is removed through the same "
                                  "routine with its own link type, the directory is removed after its entries, and errors stop the walk", floor=9)
    fs = [f for f in prog.functions.values() if relpath(f.file) == FS]
    rm = [f for f in fs if f.name.endswith("LocalFileSystem::remove")]
    rec = [f for f in fs if f.name.endswith("_remove_all_r")]
    ls = [f for f in fs if f.name.endswith("link_status") and not f.is_lambda]
    tree = [f for f in fs if f.name.endswith("LocalFileSystem::rm_tree")]
    if len(rm) != 1 or len(rec) != 1 or len(ls) != 1 or len(tree) != 1:
        raise AnalysisBroken("FileSystem.cpp: remove/_remove_all_r/link_status/rm_tree not found uniquely")
    rm, rec, ls, tree = rm[0], rec[0], ls[0], tree[0]

    def names(f):
        return [(c.get("fn") or "").split("::")[-1] for c in f.calls() if c.get("k") == "call"]
    follow = {"stat", "status", "is_directory", "is_regular_file", "exists", "real_path", "realpath", "canonical"}
    for f in (rm, rec, ls, tree):
        bad = [c for c in f.calls() if c.get("k") == "call" and (c.get("fn") or "").split("::")[-1] in follow and "(anonymous namespace)" not in (c.get("fn") or "")]
        r.check(not bad, "%s|no-link-following-query" % f.name.split("::")[-1], "", "%s queries the target of a symbolic link: %s" % (f.name, expr_str(bad[0]) if bad else ""), f,
                bad[0] if bad else None)
    # remove(): every system call takes the path itself
    sysc = [c for c in rm.calls() if (c.get("fn") or "").startswith("llbuild::basic::sys::") or (c.get("fn") or "").endswith("rm_tree")]
    ok = len(sysc) >= 4 and all(expr_plain(arg_nodes(c)[0]) == "path.c_str()" for c in sysc) and \
        set((c.get("fn") or "").split("::")[-1] for c in sysc) == {"unlink", "lstat", "rmdir", "rm_tree"}
    r.check(ok, "remove|operates-on-path-only", "%d calls" % len(sysc), "remove() applies a system call to something other than its path argument, or a different call set", rm)
    bfr = BranchFacts(rm, kill="assign")
    for nm in ("rmdir", "rm_tree"):
        cs = [c for c in sysc if (c.get("fn") or "").split("::")[-1] == nm]
        ok = len(cs) == 1 and any(p_ and "S_ISDIR" in a or p_ and "st_mode" in a for a, p_ in (bfr.at_node(cs[0]) or frozenset()))
        r.check(ok, "remove|%s-only-for-directories" % nm, "", "%s reachable for a path whose lstat does not say directory" % nm, rm)
    # link_status uses lstat
    r.check("lstat" in names(ls) and "stat" not in names(ls), "link_status|lstat", "", "link_status does not use lstat", ls)
    # rm_tree starts the walk at its own argument
    c = tree.calls("_remove_all_r")
    r.check(len(c) == 1 and expr_plain(arg_nodes(c[0])[0]) == "path", "rm_tree|starts-at-path", "", "rm_tree walks something other than its argument", tree)
    # the walk
    it = [c for c in rec.nodes if c.get("k") == "construct" and (c.get("fn") or "").endswith("directory_iterator::directory_iterator") and len(arg_nodes(c)) == 3]
    ok = len(it) == 1 and expr_plain(arg_nodes(it[0])[0]) == "path" and core(arg_nodes(it[0])[2]).get("v") is False
    r.check(ok, "_remove_all_r|iterate-path-without-following-links", "", "directory iteration follows symbolic links or iterates another path", rec)
    rc = rec.calls("_remove_all_r")
    ok = len(rc) == 1 and "i->.path()" in expr_plain(arg_nodes(rc[0])[0]) and expr_plain(arg_nodes(rc[0])[1]) == "st.type()"
    lsc = rec.calls("link_status")
    ok = ok and len(lsc) == 1 and "i->.path()" in expr_plain(arg_nodes(lsc[0])[0]) and expr_plain(arg_nodes(lsc[0])[1]) == "st" and \
        rec.elem_pos()[lsc[0]["id"]] is not None and cfg.dominated_by(rec, rec.elem_pos()[rc[0]["id"]], lambda p_, e_: e_ == lsc[0]["id"])[0]
    r.check(ok, "_remove_all_r|entries-by-own-link-type", "", "an entry is not removed recursively by its own (link) type", rec)
    rms = [c for c in rec.calls() if (c.get("fn") or "") == "llvm::sys::fs::remove"]
    ok = len(rms) == 2 and all(expr_plain(arg_nodes(c)[0]) == "path" for c in rms)
    r.check(ok, "_remove_all_r|removes-path-itself", "", "the walk removes something other than the path it was given", rec)
    # directory removed after its entries: the directory-branch remove is not reachable before the loop finished => it is after the for in source order
    loops = [n for n in rec.nodes if n.get("k") == "for"]
    ok = len(loops) == 1 and len(rms) == 2 and min(c["id"] for c in rms) > max(x["id"] for x in loops[0].child("body").walk()) 
    r.check(ok, "_remove_all_r|directory-after-entries", "", "the directory is removed before its entries", rec)
    # every error returns
    bfe = BranchFacts(rec, kill="assign")
    def dropped(f, c):
        n = c
        while True:
            if cfg.is_discarded(f, n):
                return True
            p_ = f.parent_of(n)
            if p_ is None or p_.get("k") not in ("cast", "construct", "other"):
                return False
            n = p_
    errs = [c for c in rec.calls() if c.get("k") == "call" and (c.get("fn") or "").split("::")[-1] in ("link_status", "_remove_all_r", "remove")]
    lost = [c for c in errs if dropped(rec, c)]
    r.check(len(errs) == 4 and not lost, "_remove_all_r|errors-stop-walk", "%d error results consumed" % len(errs),
            "an error result of the walk is dropped: %s" % (expr_str(lost[0])[:60] if lost else "call set changed"), rec, lost[0] if lost else None)
    # each consumed error is returned: the `if (error_code ec = ...)` arms and the `if (ec)` arms return
    ifs = [n for n in rec.nodes if n.get("k") == "if" and ("ec" in expr_str(n.child("c")) or n.get("condvar"))]
    noret = [n for n in ifs if not any(x.get("k") == "return" for x in n.child("then").walk())]
    r.check(len(ifs) >= 6 and not noret, "_remove_all_r|errors-returned", "%d error tests" % len(ifs), "an error test in the walk does not return the error", rec)



def conj(n):
    n = core(n)
    if n is not None and n.get("k") == "bin" and n["op"] == "&&":
        return conj(n.child("l")) + conj(n.child("r"))
    return [n]


def run(ctx):
    prog, rep = ctx.prog, ctx.report
    r_remove_tree(prog, rep)
    f = prog.fn(CMD + "::execute")
    bf = BranchFacts(f, kill="assign")

    r = rep.rule("R-STALE-GUARD", "the command's only remove() deletes an element of filesToDelete and is reachable only for a path accepted by the root "
                                  "test (and, with roots configured, only for absolute paths)", floor=6)
    rm = [c for c in f.calls() if (c.get("fn") or "").endswith("FileSystem::remove")]
    all_rm = [(g, c) for g in prog.functions.values() if g.cls.endswith(CMD) or CMD in (g.parent or "")
              for c in g.calls() if (c.get("fn") or "").split("::")[-1] in ("remove", "unlink", "rmdir", "remove_all")]
    r.check(len(rm) == 1 and len(all_rm) == 1, "execute|single-remove", "", "stale-file removal deletes through %d call sites" % len(all_rm), f)
    if len(rm) != 1:
        return
    rmc = rm[0]
    loop = None
    for a in f.ancestors(rmc):
        if a.get("k") == "forrange":
            loop = a
            break
    ok = loop is not None and expr_str(core(loop.child("range"))) == "filesToDelete" and expr_str(core(arg_nodes(rmc)[0])) == loop.get("var")
    r.check(ok, "execute|removes-loop-element", "", "remove() is given %s, not the element of filesToDelete being examined" % expr_str(arg_nodes(rmc)[0]), f, rmc)
    st = bf.at_node(rmc) or frozenset()
    r.check(("isLocatedUnderRootPath", True) in st, "execute|under-root-established", "", "remove() reachable without isLocatedUnderRootPath", f, rmc)
    # who sets the flag
    sets = []
    for n in f.nodes:
        if n.get("k") == "bin" and n["op"] == "=" and expr_str(n.child("l")) == "isLocatedUnderRootPath":
            sets.append(n)
    decl = [v for d in f.nodes if d.get("k") == "decl" for v in d["vars"] if v["n"] == "isLocatedUnderRootPath" and "init" in v]
    okd = len(decl) == 1
    if okd:
        # true exactly when no roots are configured (any spelling: roots.size() == 0 ? true : false, roots.empty(), !hasRoots ...)
        okd = cfg.norm_bool(f, f.nodes[decl[0]["init"]]) == ("roots.empty()", True)
    r.check(okd, "execute|flag-initialised-by-no-roots", "", "isLocatedUnderRootPath is not initialised as `no roots configured`", f)
    oks = len(sets) >= 1
    for n in sets:
        sn = bf.at_node(n) or frozenset()
        hit = [a for a, p in sn if p and a.startswith("pathIsPrefixedByPath(")]
        if not hit or core(n.child("r")).get("v") is not True:
            oks = False
            continue
        # argument roles: file first, root second, root is the loop variable over `roots`
        calls = [c for c in f.calls("pathIsPrefixedByPath")]
        for c in calls:
            a = [expr_str(core(x)) for x in arg_nodes(c)]
            rl = None
            for an in f.ancestors(c):
                if an.get("k") == "forrange":
                    rl = an
                    break
            if not (a[0] == loop.get("var") and rl is not None and a[1] == rl.get("var") and expr_str(core(rl.child("range"))) == "roots"):
                oks = False
    r.check(oks, "execute|flag-set-only-by-prefix-test", "%d site(s)" % len(sets), "isLocatedUnderRootPath is set other than under pathIsPrefixedByPath(file, root) for a configured root", f)
    # ... and conversely every accepted element is handed to remove(): an iteration that ends without it has established one of the two
    # rejections the property allows (relative path with roots configured; not beneath any root) — nothing else may skip an element
    if loop is not None and "inc" in loop:
        start = cfg.any_pos(f, loop.child("body"))
        head = cfg.any_pos(f, loop.child("inc"))
        rp = cfg.pos_of(f, rmc)

        def rejecting(atom, pol):
            if atom == "isLocatedUnderRootPath":
                return not pol
            if "pathSeparators.find" in atom and "npos" in atom:
                return pol if "==" in atom else not pol
            return False
        w = cfg.path_exists_feasible(f, start, lambda p, e: p == head or e == "EXIT", avoid=lambda p, e: p == rp, infeasible=rejecting) if start and head else []
        why = ""
        if w:
            conds = [expr_str(f.blocks[b].effective_cond())[:70] for b in w if f.blocks[b].effective_cond() is not None]
            why = "an element of filesToDelete that is absolute (or no roots are set) and beneath a root can end its iteration without remove() — skipped through `%s`" % (conds[-1] if conds else "?")
        r.check(w is None, "execute|every-accepted-path-removed", "", why, f, rmc)
        leaves = [x for x in loop.child("body").walk() if x.get("k") in ("break", "return", "goto") and
                  next((a for a in f.ancestors(x) if a.get("k") in ("forrange", "for", "while", "do", "switch")), None) is loop]
        r.check(not leaves, "execute|every-element-visited", "", "the removal loop can be left before filesToDelete is exhausted: the remaining stale paths stay on disk and "
                "are forgotten once the new list is stored", f, leaves[0] if leaves else None)
    # absolute-path test when roots are configured
    blks = [b for b in f.blocks.values() if b.cond() is not None and "pathSeparators.find" in expr_str(b.cond()) and b.term["cls"] == "IfStmt"]
    oka = len(blks) == 1
    if oka:
        cnd = blks[0].cond()
        parts = [cfg.norm_bool(f, x) for x in conj(cnd)]
        v = loop.get("var")
        oka = len(parts) == 2 and ("roots.empty()", False) in parts and \
            any(p_ and a_ is not None and "pathSeparators.find(%s[" % v in a_ and "(0)]" in a_.replace("[0]", "[(0)]") and "npos" in a_ and "==" in a_ for a_, p_ in parts)
        s_true = blks[0].succs[0]
        rp = cfg.pos_of(f, rmc)
        head = cfg.any_pos(f, loop.child("c")) if loop.child("c") is not None else None
        w = cfg.path_exists(f, (s_true, -1), lambda p, e: p == rp, avoid=lambda p, e: head is not None and p == head)
        oka = oka and w is None
        cp = cfg.any_pos(f, cnd)          # first operand of the whole condition (the && evaluates `roots.size() > 0` first)
        oka = oka and cfg.dominated_by(f, rp, lambda p, e: p == cp)[0]
    r.check(oka, "execute|relative-paths-skipped-with-roots", "", "with roots configured a relative path can reach the root test / remove()", f)

    r = rep.rule("R-STALE-CONFIG", "the `roots` and `expectedOutputs` lists of the description reach the command whole: each is stored by a loop over all given values that "
                                   "appends every one, unconditionally — a dropped root shrinks what may be removed, a dropped expected output gets a live file deleted", floor=2)
    ca = [g for g in prog.functions.values() if not g.is_lambda and g.cls.endswith(CMD) and g.name.split("::")[-1] == "configureAttribute" and
          len(g.params) == 3 and "ArrayRef<llvm::StringRef>" in g.db_types[g.params[2]["t"]].replace("StringRef>", "llvm::StringRef>").replace("llvm::llvm::", "llvm::")]
    if len(ca) != 1:
        raise AnalysisBroken("StaleFileRemovalCommand::configureAttribute(list) not found (%d candidates)" % len(ca))
    ca = ca[0]
    vname = ca.params[2]["n"]
    for fld in ("roots", "expectedOutputs"):
        loops = [(lp, en) for lp, en in E.whole_container_loops(ca, vname) if any(
            c.get("k") == "call" and (c.get("fn") or "").split("::")[-1] in ("emplace_back", "push_back") and "obj" in c and expr_str(core(c.child("obj"))).replace("this->", "") == fld
            for c in lp.child("body").walk())]
        ok = len(loops) == 1
        why = "no loop over `%s` appends to %s" % (vname, fld)
        if ok:
            lp, en = loops[0]
            app = [c for c in lp.child("body").walk() if c.get("k") == "call" and (c.get("fn") or "").split("::")[-1] in ("emplace_back", "push_back") and "obj" in c and
                   expr_str(core(c.child("obj"))).replace("this->", "") == fld]
            skips = [x for x in lp.child("body").walk() if x.get("k") in ("continue", "break", "return", "goto")]
            cond = [a for c in app for a in ca.ancestors(c) if a is not lp and a.get("k") in ("if", "cond", "switch") and any(y is a for y in lp.walk())]
            from_elem = all(en is not None and en.strip("()*") in expr_str(arg_nodes(c)[0]) for c in app if arg_nodes(c))
            ok = not skips and not cond and from_elem
            why = "a configured value can be left out of %s (%s)" % (fld, "the loop skips or stops" if skips else "the append is conditional" if cond else "something else than the element is appended")
        r.check(ok, "configureAttribute|%s-stored-whole" % fld, "", why, ca)

    r = rep.rule("R-STALE-DIFF", "filesToDelete is written only as set_difference(prior stale-file list, expected outputs) over sorted sets", floor=3)
    g = prog.fn(CMD + "::computeFilesToDelete")
    writers = set()
    for h in prog.functions.values():
        if h.cls.endswith(CMD):
            for n in h.nodes:
                if n.get("k") == "member" and n.get("n") == "filesToDelete":
                    p = h.parent_of(n)
                    if p is not None and p.get("k") in ("call", "construct") and not (p.get("k") == "call" and p.get("cm")) and \
                            (p.get("fn") or "").split("::")[-1] not in ("begin", "end", "size", "empty"):
                        writers.add(h.name.split("::")[-1])
    r.check(writers == {"computeFilesToDelete"}, "filesToDelete|single-writer", "", "filesToDelete is modified in %s" % sorted(writers), g)
    sd = g.calls("set_difference")
    ok = len(sd) == 1
    if ok:
        a = [expr_str(core(x)) for x in arg_nodes(sd[0])]
        ok = a[0] == "priorNodes.begin()" and a[1] == "priorNodes.end()" and a[2] == "expectedNodes.begin()" and a[3] == "expectedNodes.end()" and "filesToDelete" in a[4]
    r.check(ok, "computeFilesToDelete|prior-minus-expected", "", "difference computed as %s" % ([expr_str(core(x))[:30] for x in arg_nodes(sd[0])] if sd else None), g)
    decls = {v["n"]: (g.db_types[v["ct"]], expr_str(g.nodes[v["init"]]) if "init" in v else "") for d in g.nodes if d.get("k") == "decl" for v in d["vars"]}
    ok = "std::set<" in decls.get("priorNodes", ("", ""))[0] and "priorValueList" in decls.get("priorNodes", ("", ""))[1] and \
        "std::set<" in decls.get("expectedNodes", ("", ""))[0] and "expectedOutputs" in decls.get("expectedNodes", ("", ""))[1] and \
        "priorValue.getStaleFileList()" in decls.get("priorValueList", ("", ""))[1]
    r.check(ok, "computeFilesToDelete|sorted-sets-from-prior-and-expected", "", "operands of the difference are %s" % {k: v[1][:40] for k, v in decls.items()}, g)

    r = rep.rule("R-STALE-PERSIST", "execute reports exactly once, with the current expected outputs as the new stale-file list; the command is "
                                    "never considered up to date; the prior list comes from the stored value", floor=4)
    oc = T.complete_checker(prog)
    pidx = [i for i, p in enumerate(f.params) if p["n"] == "resultFn"]
    res = oc.check_params(f, pidx) if pidx else None
    r.check(res is not None and res.ok and not res.observer, "execute|result-exactly-once", "%s" % (res.sites if res else ""),
            "; ".join(p[1] for p in res.problems)[:200] if res else "resultFn not found", f)
    calls = [c for c in f.nodes if c.get("k") == "call" and c.get("op") == "()" and expr_str(core(c.child("obj"))) == "resultFn"]
    ok = bool(calls) and all("makeStaleFileRemoval(" in expr_str(arg_nodes(c)[0]) and "expectedOutputs" in expr_str(arg_nodes(c)[0]) for c in calls)
    r.check(ok, "execute|persists-expected-outputs", "%d sites" % len(calls), "the recorded list is not the current expectedOutputs", f)
    v = prog.fn(CMD + "::isResultValid")
    rets = [n for n in v.nodes if n.get("k") == "return"]
    r.check(bool(rets) and all(core(x.child("e")).get("v") is False for x in rets), "isResultValid|always-false", "", "stale-file removal can be considered up to date", v)
    pv = prog.fn(CMD + "::providePriorValue")
    ok = any(n.get("k") in ("bin", "call") and n.get("op") == "=" and "priorValue" in expr_str(n.child("l") if n.get("k") == "bin" else n.child("obj")) and "value" in expr_str(n)
             for n in pv.nodes) and any(n.get("k") == "bin" and n["op"] == "=" and expr_str(n.child("l")) == "hasPriorResult" for n in pv.nodes)
    r.check(ok, "providePriorValue|stores-prior", "", "prior value is not kept", pv)
    st0 = [c for c in calls if True]
    first = [c for c in calls if (bf.at_node(c) or frozenset()) and any("hasPriorResult" in a or "isStaleFileRemoval" in a for a, p in bf.at_node(c))]
    r.check(len(calls) == 2, "execute|no-prior-path-deletes-nothing", "", "expected an early report without deletions when there is no prior list", f)


VARIANTS = [
    dict(name="remove-follows-symlink-to-directory", file=FS,
         old="    llbuild::basic::sys::StatStruct statbuf;\n    if (llbuild::basic::sys::lstat(path.c_str(), &statbuf) != 0) {\n      return false;\n    }\n\n    if (S_ISDIR(statbuf.st_mode)) {\n      if (llbuild::basic::sys::rmdir",
         new="    llbuild::basic::sys::StatStruct statbuf;\n    if (llbuild::basic::sys::stat(path.c_str(), &statbuf) != 0) {\n      return false;\n    }\n\n    if (S_ISDIR(statbuf.st_mode)) {\n      if (llbuild::basic::sys::rmdir",
         expect=("R-REMOVE-TREE", "remove|")),
    dict(name="tree-walk-follows-symlinks", file=FS, old="      directory_iterator i(path, ec, /* FollowSymlinks */ false);", new="      directory_iterator i(path, ec, /* FollowSymlinks */ true);",
         expect=("R-REMOVE-TREE", "iterate-path-without-following-links")),
    dict(name="entry-type-through-link-target", file=FS, old="        if (error_code ec = link_status(i->path(), st))", new="        if (error_code ec = status(i->path(), st))",
         expect=("R-REMOVE-TREE", "_remove_all_r|")),
    dict(name="directory-removed-before-entries", file=FS,
         edits=[("      directory_iterator i(path, ec, /* FollowSymlinks */ false);\n", "      if (error_code ec2 = remove(path, false))\n        return ec2;\n      directory_iterator i(path, ec, /* FollowSymlinks */ false);\n")],
         expect=("R-REMOVE-TREE", "_remove_all_r|")),
    dict(name="subdirectory-error-ignored", file=FS, old="        if (error_code ec = _remove_all_r(i->path(), st.type(), count))\n          return ec;", new="        _remove_all_r(i->path(), st.type(), count);",
         expect=("R-REMOVE-TREE", "errors-stop-walk")),
    dict(name="rm-tree-for-non-directory", file=FS, old="    if (S_ISDIR(statbuf.st_mode)) {\n      if (llbuild::basic::sys::rmdir", new="    {\n      if (llbuild::basic::sys::rmdir",
         expect=("R-REMOVE-TREE", "only-for-directories")),
    dict(name="root-test-args-swapped", file="lib/BuildSystem/BuildSystem.cpp", old="        if (pathIsPrefixedByPath(fileToDelete, root)) {", new="        if (pathIsPrefixedByPath(root, fileToDelete)) {",
         expect=("R-STALE-GUARD", "flag-set-only-by-prefix-test")),
    dict(name="outside-root-only-warns", file="lib/BuildSystem/BuildSystem.cpp",
         old="is located outside of the allowed root paths.\\n\");\n        continue;", new="is located outside of the allowed root paths.\\n\");", expect=("R-STALE-GUARD", "under-root-established")),
    dict(name="relative-path-not-skipped", file="lib/BuildSystem/BuildSystem.cpp",
         old="This is invalid in combination with the root path attribute.\\n\");\n        continue;", new="This is invalid in combination with the root path attribute.\\n\");",
         expect=("R-STALE-GUARD", "relative-paths-skipped-with-roots")),
    dict(name="difference-reversed", file="lib/BuildSystem/BuildSystem.cpp",
         old="    std::set_difference(priorNodes.begin(), priorNodes.end(),\n                        expectedNodes.begin(), expectedNodes.end(),",
         new="    std::set_difference(expectedNodes.begin(), expectedNodes.end(),\n                        priorNodes.begin(), priorNodes.end(),", expect=("R-STALE-DIFF", "prior-minus-expected")),
    dict(name="default-allows-when-roots-set", file="lib/BuildSystem/BuildSystem.cpp",
         old="      bool isLocatedUnderRootPath = roots.size() == 0 ? true : false;", new="      bool isLocatedUnderRootPath = true;", expect=("R-STALE-GUARD", "flag-initialised-by-no-roots")),
    dict(name="persists-prior-list", file="lib/BuildSystem/BuildSystem.cpp",
         old="    // Complete with a successful result.\n    resultFn(BuildValue::makeStaleFileRemoval(expectedOutputs));", new="    // Complete with a successful result.\n    resultFn(BuildValue::fromData(priorValue.toData()));",
         expect=("R-STALE-PERSIST", "persists-expected-outputs")),
    dict(name="valid-when-nothing-to-delete", file="lib/BuildSystem/BuildSystem.cpp",
         old="    // Always re-run stale file removal.\n    return false;", new="    // Always re-run stale file removal.\n    return value.isStaleFileRemoval() && value.getStaleFileList().size() == expectedOutputs.size();",
         expect=("R-STALE-PERSIST", "isResultValid|always-false")),
    dict(name="element-skipped-when-it-extends-the-last-removed-path", file="lib/BuildSystem/BuildSystem.cpp",
         edits=[("    for (auto fileToDelete : filesToDelete) {\n      // If no root paths are specified, any path is valid.", "    std::string lastRemoved;\n    for (auto fileToDelete : filesToDelete) {\n      // If no root paths are specified, any path is valid."),
                ("      if (getBuildSystem(ti).getFileSystem().remove(fileToDelete)) {", "      if (!lastRemoved.empty() && StringRef(fileToDelete).startswith(lastRemoved))\n        continue;\n      lastRemoved = fileToDelete;\n      if (getBuildSystem(ti).getFileSystem().remove(fileToDelete)) {")],
         expect=("R-STALE-GUARD", "every-accepted-path-removed")),
    dict(name="removal-stops-at-first-failure", file="lib/BuildSystem/BuildSystem.cpp", old="        // Do not warn if the file has already been deleted.\n        if (errno != ENOENT) {",
         new="        // Do not warn if the file has already been deleted.\n        if (errno == EACCES)\n          break;\n        if (errno != ENOENT) {", expect=("R-STALE-GUARD", "every-element-visited")),
    dict(name="redundant-roots-dropped-with-swapped-prefix-test", file="lib/BuildSystem/BuildSystem.cpp", old="        roots.emplace_back(value.str());",
         new="        auto root = value.str();\n        if (std::any_of(roots.begin(), roots.end(), [&](const std::string& other) { return pathIsPrefixedByPath(other, root); }))\n          continue;\n        roots.emplace_back(std::move(root));",
         expect=("R-STALE-CONFIG", "roots-stored-whole")),
    dict(name="empty-expected-outputs-skipped", file="lib/BuildSystem/BuildSystem.cpp", old="        expectedOutputs.emplace_back(value.str());", new="        if (!value.empty())\n          expectedOutputs.emplace_back(value.str());",
         expect=("R-STALE-CONFIG", "expectedOutputs-stored-whole")),
]
