"""C08 — On-disk outputs after any incremental build equal a clean build's (mechanisms the statement names)."""
from sa.facts import AnalysisBroken, expr_str, qmatch, strip_casts, relpath, core, expr_plain
from sa import cfg
from sa.cfg import BranchFacts
from sa.flow import arg_nodes

UNITS = ["lib/BuildSystem/BuildSystem.cpp", "lib/BuildSystem/ExternalCommand.cpp", "lib/BuildSystem/BuildNode.cpp", "lib/BuildSystem/ShellCommand.cpp", "lib/BuildSystem/BuildFile.cpp",
         "lib/Core/MakefileDepsParser.cpp", "lib/Core/DependencyInfoParser.cpp", "lib/Core/BuildEngine.cpp"]
THOROUGH_ALL_UNITS = False
EXPLANATION = (
    "lookupRule has a case for every build-key kind, and every rule it creates pairs the task class with that class's own "
    "validity predicate (null only for the kinds that are pure functions of their recorded dependencies, constant false only for "
    "the missing-command rule) and takes its signature from the command / node it stands for; BuildNode::getSignature folds the "
    "node type and the name of every producer, losslessly; the rule for an unknown command is never valid and completes with an "
    "invalid value and forceChange; ExternalCommand::isResultValid visits every declared output, skips only virtual ones, compares "
    "stored and current file information (existence only for mutated nodes); input-file validity re-stats and compares.")
NOT_DECIDED = ("file contents after arbitrary histories of edits to sources, outputs and the description (whole-property behaviour); "
               "convergence; commands that are not deterministic functions of their inputs.")

# task class -> validity ('self' = that class's isResultValid, 'null', 'false')
PAIRING = {
    "CommandTask": "self", "MissingCommandTask": "false", "DirectoryContentsTask": "self",
    "FilteredDirectoryContentsTask": "null", "DirectoryTreeSignatureTask": "null", "DirectoryTreeStructureSignatureTask": "null",
    "VirtualInputNodeTask": "self", "DirectoryInputNodeTask": "null", "DirectoryStructureInputNodeTask": "null",
    "FileInputNodeTask": "self", "ProducedDirectoryNodeTask": "self", "ProducedNodeTask": "self", "StatTask": "self", "TargetTask": "self",
}
KIND_TASKS = {
    "Command": {"CommandTask", "MissingCommandTask"}, "CustomTask": {"CommandTask", "MissingCommandTask"},
    "DirectoryContents": {"DirectoryContentsTask"}, "FilteredDirectoryContents": {"FilteredDirectoryContentsTask"},
    "DirectoryTreeSignature": {"DirectoryTreeSignatureTask"}, "DirectoryTreeStructureSignature": {"DirectoryTreeStructureSignatureTask"},
    "Node": {"VirtualInputNodeTask", "DirectoryInputNodeTask", "DirectoryStructureInputNodeTask", "FileInputNodeTask", "ProducedDirectoryNodeTask", "ProducedNodeTask"},
    "Stat": {"StatTask"}, "Target": {"TargetTask"},
}
SIG_SOURCE = {"CommandTask": "command->getSignature()", "MissingCommandTask": "{}", "Node": "node->getSignature()"}


def r_output_compare(prog, rep, with_inputs=True):
    """shared with C09 (a command whose output no longer matches is re-executed)"""
    r = rep.rule("R-OUTPUT-COMPARE", "command validity visits every declared output, skips only virtual ones and compares stored with current file information "
                                     "(existence only for mutated nodes); input-file validity re-stats and compares", floor=5)
    v = prog.fn("ExternalCommand::isResultValid")
    bv = BranchFacts(v, kill="assign")
    loops = [n for n in v.nodes if n.get("k") == "for"]
    ok = len(loops) == 1
    if ok:
        lp = loops[0]
        bound = [x for d in [lp.child("init")] if d is not None for x in d.walk() if x.get("k") == "decl"]
        ivars = {v_["n"]: expr_plain(v.nodes[v_["init"]]) for d_ in lp.child("init").walk() if d_.get("k") == "decl" for v_ in d_["vars"] if "init" in v_} \
            if lp.child("init") is not None else {}
        ok = ivars.get("i") == "0" and ivars.get("e") == "outputs.size()" and expr_plain(lp.child("c")) in ("(i != e)", "(i < e)") and \
            expr_plain(lp.child("inc")) in ("(++i)", "(i++)") and any(expr_plain(x) == "outputs[i]" for x in lp.child("body").walk())
    r.check(ok, "ExternalCommand::isResultValid|all-outputs", "", "the validity loop does not run over all outputs", v)
    conts = [n for n in v.nodes if n.get("k") == "continue"]
    okc = True
    for c_ in conts:
        st = bv.at_node(c_) or frozenset()
        okc = okc and (any(p and a == "node.isVirtual()" for a, p in st) or any(p and a == "node.isMutated()" for a, p in st))
    r.check(okc, "ExternalCommand::isResultValid|skips-only-virtual-or-mutated", "%d continue(s)" % len(conts), "an output is skipped for another reason", v)
    cmp_ = [c for c in v.nodes if c.get("k") == "call" and c.get("op") == "!=" and "getNthOutputInfo(i)" in expr_plain(c) and "info" in expr_plain(c)]
    okv = len(cmp_) == 1
    if okv:
        st = bv.at_node(cmp_[0]) or frozenset()
        okv = any((not p) and a == "node.isMutated()" for a, p in st) and any((not p) and a == "node.isVirtual()" for a, p in st) and \
            not any(a not in ("node.isMutated()", "node.isVirtual()", "alwaysOutOfDate", "value.isSuccessfulCommand()", "(i != e)", "(e != i)", "(i < e)", "(e > i)") for a, p in st)
    r.check(okv, "ExternalCommand::isResultValid|compares-file-info", "",
            "stored and current file information are not compared with != for every output that is neither virtual nor mutated", v)
    info = [x for d in v.nodes if d.get("k") == "decl" for x in d["vars"] if x["n"] == "info" and "init" in x]
    r.check(len(info) == 1 and "node.getFileInfo" in expr_str(v.nodes[info[0]["init"]]), "ExternalCommand::isResultValid|restats-output", "", "current file information is not read from the output node", v)
    mut = [c for c in v.nodes if c.get("k") == "bin" and c["op"] == "!=" and "isMissing()" in expr_str(c)]
    r.check(len(mut) == 1 and "getNthOutputInfo(i)" in expr_plain(mut[0]) and "info.isMissing()" in expr_plain(mut[0]), "ExternalCommand::isResultValid|mutated-existence", "",
            "mutated outputs are not compared by existence", v)
    esc = [n for n in v.nodes if n.get("k") in ("break", "goto")]
    r.check(not esc, "ExternalCommand::isResultValid|loop-not-cut-short", "", "the validity loop can stop before the last output (%s at line %s)" %
            (esc[0]["k"] if esc else "", esc[0].get("ln") if esc else ""), v, esc[0] if esc else None)
    rets = [n for n in v.nodes if n.get("k") == "return" and core(n.child("e")).get("v") is True]
    lp_ids = set(x["id"] for l in [n for n in v.nodes if n.get("k") == "for"] for x in l.walk())
    r.check(len(rets) == 1 and rets[0]["id"] not in lp_ids, "ExternalCommand::isResultValid|valid-only-after-all-outputs", "",
            "`return true` is reachable before every output was looked at", v)
    if not with_inputs:
        return r
    fi = prog.fn("FileInputNodeTask::isResultValid")
    rets = [x for x in fi.nodes if x.get("k") == "return"]
    bfi = BranchFacts(fi, kill="assign")
    ok = len(rets) == 2 and bool(fi.calls("getFileInfo"))
    for x in rets:
        st = bfi.at_node(x) or frozenset()
        if any(p and a == "info.isMissing()" for a, p in st):
            ok = ok and expr_plain(core(x.child("e"))) == "value.isMissingInput()"
        else:
            t = expr_plain(core(x.child("e")))
            ok = ok and "value.isExistingInput()" in t and "value.getOutputInfo()" in t and "info" in t and "==" in t
    r.check(ok, "FileInputNodeTask::isResultValid|restat-and-compare", "", "input-file validity does not compare existence and file information with a fresh stat", fi)
    return r


def r_buildfile_keys(prog, rep):
    r = rep.rule("R-BUILDFILE-KEYS", "the build description's command keys reach the command they describe: `inputs` -> configureInputs, `outputs` -> "
                                     "configureOutputs (and every listed output node records this command as a producer), `description` -> "
                                     "configureDescription; every name in the list becomes a node of that name; nothing is skipped but malformed entries", floor=6)
    fs = [f for f in prog.functions.values() if relpath(f.file) == "lib/BuildSystem/BuildFile.cpp" and not f.is_lambda and f.name.endswith("parseCommandsMapping")]
    if len(fs) != 1:
        raise AnalysisBroken("BuildFile.cpp: parseCommandsMapping not found (%d)" % len(fs))
    f = fs[0]
    want = {"inputs": "configureInputs", "outputs": "configureOutputs", "description": "configureDescription"}

    def key_of(c):
        """literal of the innermost enclosing `if (nodeIsScalarString(key, "..."))` then-arm"""
        for a in f.ancestors(c):
            if a.get("k") == "if" and any(x is c for x in a.child("then").walk()):
                cs = [x for x in a.child("c").walk() if x.get("k") == "call" and (x.get("fn") or "").endswith("nodeIsScalarString")]
                if cs:
                    lits = [y.get("v") for y in cs[0].walk() if y.get("k") == "str"]
                    if lits:
                        return lits[0]
        return None
    for key, meth in sorted(want.items()):
        cs = [c for c in f.calls() if (c.get("fn") or "").split("::")[-1] == meth]
        ok = len(cs) == 1 and key_of(cs[0]) == key
        r.check(ok, "parseCommandsMapping|%s->%s" % (key, meth), "", "%s is called under key %s" % (meth, [key_of(c) for c in cs]), f, cs[0] if cs else None)
        if ok and key in ("inputs", "outputs"):
            a = arg_nodes(cs[0])
            lst = expr_plain(a[1]) if len(a) > 1 else ""
            pbs = [c for c in f.calls("push_back") if expr_plain(c.child("obj")) == lst and key_of(c) == key]
            okn = len(pbs) == 1 and any((x.get("fn") or "").endswith("getOrCreateNode") for x in (list(arg_nodes(pbs[0])[0].walk()) + [
                y for d in f.nodes if d.get("k") == "decl" for v in d.get("vars", []) if "init" in v and v.get("n") == expr_plain(arg_nodes(pbs[0])[0]) for y in f.nodes[v["init"]].walk()]) if x.get("k") == "call")
            loops = [l for l in f.nodes if l.get("k") == "forrange" and pbs and any(x is pbs[0] for x in l.walk())]
            okn = okn and len(loops) >= 1 and not any(x.get("k") in ("break", "return") for x in loops[0].child("body").walk())
            r.check(okn, "parseCommandsMapping|%s-every-name-becomes-a-node" % key, "", "not every listed %s name is turned into a node of the list handed to %s" % (key, meth), f)
    prod = [c for c in f.calls("push_back") if "getProducers()" in expr_str(c.child("obj"))]
    okp = len(prod) == 1 and key_of(prod[0]) == "outputs" and "command" in expr_plain(arg_nodes(prod[0])[0])
    r.check(okp, "parseCommandsMapping|outputs-record-producer", "", "an output node does not record the command as its producer (it would be treated as a source file)", f)
    return r


def r_validity_bodies(prog, rep):
    """what the per-class validity predicates may answer, decided by evaluating each body over its branch structure (cfg.possible_returns),
    not by its spelling."""
    r = rep.rule("R-VALIDITY-BODIES",
                 "a target's and a stat's stored value is never accepted as still valid (a target rule has an empty signature and its value says "
                 "nothing about its node list; a stat value is a snapshot) — they re-run on every build; a produced node's stored value is never "
                 "accepted when it records a failed or missing input", floor=6)
    for cls in ("TargetTask", "StatTask"):
        f = prog.fn(cls + "::isResultValid")
        got = cfg.possible_returns(f, {})
        r.check(got == {False}, "%s::isResultValid|never-valid" % cls, "", "%s::isResultValid can answer %s: an edit of the description that changes only what the "
                "target lists (or a file changed since the stat) is then not looked at" % (cls, sorted("a value-dependent answer" if x is None else str(x).lower() for x in got)), f)
    for cls in ("ProducedNodeTask", "ProducedDirectoryNodeTask"):
        f = prog.fn(cls + "::isResultValid")
        v = f.params[-1]["n"]
        for pred in ("isFailedInput", "isMissingInput"):
            got = cfg.possible_returns(f, {"%s.%s()" % (v, pred): True})
            r.check(got == {False}, "%s::isResultValid|%s-invalid" % (cls, pred), "", "%s::isResultValid can answer %s for a value with %s()" % (
                cls, sorted("a value-dependent answer" if x is None else str(x).lower() for x in got), pred), f)


def r_callbacks_reusable(prog, rep):
    """shared by C08 and C12: the engine keeps a rule object for the life of the build system and calls its callbacks once per build."""
    r = rep.rule("R-CALLBACKS-REUSABLE",
                 "the action / validity / status callbacks handed to a BuildSystemRule are called in every build for as long as the build system lives: "
                 "they read their captures and never consume them (no std::move / swap / clear of a captured variable) — the second task created by a "
                 "callback must see the same path, filters and command as the first", floor=10)
    f = prog.fn("BuildSystemEngineDelegate::lookupRule")
    owners = [f] + [h for c in f.calls() for h in [prog.functions.get(c.get("fk")) if c.get("fk") else None]
                    if h is not None and h is not f and not h.is_lambda and relpath(h.file) == relpath(f.file) and not h.cls]
    n = 0
    for g in owners:
        for cons in g.nodes:
            if cons.get("k") != "construct" or not (cons.get("fn") or "").endswith("BuildSystemRule::BuildSystemRule"):
                continue
            for a in arg_nodes(cons):
                if a is None:
                    continue
                for x in a.walk():
                    if x.get("k") != "lambda":
                        continue
                    lf = prog.lambda_fn(x)
                    if lf is None:
                        continue
                    n += 1
                    own = set(p_["did"] for p_ in lf.params) | set(v["did"] for d in lf.nodes if d.get("k") == "decl" for v in d.get("vars", []))
                    bad = None
                    for c in lf.nodes:
                        if c.get("k") != "call":
                            continue
                        nm = (c.get("fn") or "").split("::")[-1]
                        if nm == "move" and (c.get("fn") or "").startswith("std::"):
                            # std::move is only a cast: the capture is consumed when the result binds to an rvalue-reference parameter
                            # (a move constructor / move assignment / a `T&&` sink); bound to `const T&` or converted to a view it is untouched
                            par, cur = lf.parent_of(c), c
                            while par is not None and par.get("k") in ("cast", "paren", "cleanups", "temporary", "bindtemp"):
                                cur, par = par, lf.parent_of(par)
                            consumed = False
                            if par is not None and par.get("k") in ("call", "construct"):
                                ai = [i_ for i_, a_ in enumerate(par.get("args", [])) if a_ == cur["id"]]
                                pt = par.get("pt") or []
                                if ai and ai[0] < len(pt) and "&&" in lf.db_types[pt[ai[0]]]:
                                    consumed = True
                                if par.get("k") == "call" and par.get("op") == "=" and "obj" not in par and ai:
                                    consumed = True
                            if not consumed:
                                continue
                            args = [y for y in arg_nodes(c) if y is not None]
                        elif nm in ("swap", "exchange") and (c.get("fn") or "").startswith("std::"):
                            args = [y for y in arg_nodes(c) if y is not None]
                        elif nm in ("clear", "swap", "reset", "release", "pop_back", "erase") and "obj" in c:
                            args = [c.child("obj")]
                        else:
                            continue
                        for y in args:
                            for z in y.walk():
                                if z.get("k") == "ref" and z.get("did") is not None and z.get("did") not in own and z.get("dk") not in ("func", "enumconst", "enum", "global", "field"):
                                    bad = (c, z)
                    site = "lookupRule|%s:%s|callback" % (relpath(g.file).split("/")[-1], x.get("ln") or cons.get("ln") or n)
                    r.check(bad is None, "lookupRule|callback#%d" % n, "", "a rule callback consumes its capture `%s` (%s): the next task this rule creates sees an emptied value" % (
                        expr_str(bad[1]) if bad else "", expr_str(bad[0])[:60] if bad else ""), lf, bad[0] if bad else None)
    if n < 10:
        raise AnalysisBroken("R-CALLBACKS-REUSABLE: only %d rule callbacks found" % n)


def r_task_ctor_params(prog, rep):
    """shared by C08 and C12: what a rule's action hands to the task it creates must reach the task."""
    r = rep.rule("R-TASK-CTOR-PARAMS", "every task class the build system creates stores (or uses) each constructor parameter it is given: the path, the filters, the "
                                       "node or the command a rule's action passes in is what the task works on — a parameter the constructor ignores leaves the "
                                       "member default-initialised (an empty filter list, an empty path)", floor=10)
    n = 0
    for f in sorted(prog.functions.values(), key=lambda g: (g.file, g.line)):
        if f.is_lambda or not f.raw.get("ctor") or relpath(f.file) != "lib/BuildSystem/BuildSystem.cpp" or not (f.cls or "").endswith("Task"):
            continue
        for p_ in f.params:
            if not p_.get("n"):
                continue
            n += 1
            used = any(x.get("k") == "ref" and x.get("did") == p_["did"] for x in f.nodes)
            r.check(used, "%s(...)|%s" % ((f.cls or "").split("::")[-1], p_["n"]), "", "constructor parameter `%s` of %s is neither stored nor used: the member it was meant for keeps "
                    "its default value" % (p_["n"], (f.cls or "").split("::")[-1]), f)
    if n < 10:
        raise AnalysisBroken("R-TASK-CTOR-PARAMS: only %d named constructor parameters of task classes found" % n)


def run(ctx):
    prog, rep = ctx.prog, ctx.report
    r_buildfile_keys(prog, rep)
    r_validity_bodies(prog, rep)
    r_callbacks_reusable(prog, rep)
    r_task_ctor_params(prog, rep)
    from rules import C09
    C09.r_sig_fold_all(prog, rep)
    from rules import inputids
    inputids.run_rule(prog, rep)
    from rules import C11
    C11.r_deps_unescaped(prog, rep, min_actions=2)
    from sa.report import run_subset
    run_subset(C11, ctx, {"R-DEPS-ERRORS-FAIL", "R-DEPS-ALL-STYLES"})    # every dependency file is processed, a failed parse fails the command

    r = rep.rule("R-LOOKUP-EXHAUSTIVE", "lookupRule handles every key kind; each rule pairs its task class with that class's own validity predicate and the "
                                        "signature of the command/node it stands for", floor=20)
    f = prog.fn("BuildSystemEngineDelegate::lookupRule")
    bf = BranchFacts(f, kill="assign")
    kinds = [e["n"] for e in prog.enum("buildsystem::BuildKey::Kind")["enumerators"]]
    sw = [b for b in f.blocks.values() if b.term and b.term["cls"] == "SwitchStmt"]
    if len(sw) != 1:
        raise AnalysisBroken("lookupRule: switch not found")
    cases = [c.get("cn", "").split("::")[-1] for c in sw[0].term["cases"] if isinstance(c, dict)]
    r.check(sorted(cases) == sorted(kinds), "lookupRule|all-kinds", "%d kinds" % len(kinds), "switch handles %s of %s" % (sorted(cases), sorted(kinds)), f)
    rules = [(n, n) for n in f.nodes if n.get("k") == "construct" and (n.get("fn") or "").endswith("BuildSystemRule::BuildSystemRule") and len(n.get("args", [])) >= 4]
    # a rule may be built by a small file-static factory called from the case (`return makeMissingCommandRule(keyData);`): it counts at the call site
    for c in f.calls():
        h = prog.functions.get(c.get("fk")) if c.get("fk") else None
        if h is None or h is f or h.is_lambda or relpath(h.file) != relpath(f.file) or h.cls:
            continue
        for n in h.nodes:
            if n.get("k") == "construct" and (n.get("fn") or "").endswith("BuildSystemRule::BuildSystemRule") and len(n.get("args", [])) >= 4:
                rules.append((n, c))
    seen = {}
    for n, site_node in rules:
        st = bf.at_node(site_node) or frozenset()
        kind = [a.split("=")[-1].split("::")[-1] for a, p in st if a.startswith("switch:")]
        kind = kind[0] if kind else "?"
        a = arg_nodes(n)
        task = None
        for x in a[2].walk():
            if x.get("k") == "lambda":
                lf = prog.lambda_fn(x)
                news = [y for y in lf.nodes if y.get("k") == "new"]
                if news:
                    task = news[0].tname("at").split("::")[-1]
        valid = "null"
        for x in a[3].walk():
            if x.get("k") == "lambda":
                lf = prog.lambda_fn(x)
                calls = [c for c in lf.calls() if (c.get("fn") or "").endswith("::isResultValid")]
                rets = [y for y in lf.nodes if y.get("k") == "return"]
                if calls:
                    valid = (calls[0].get("fn") or "").split("::")[-2]
                elif rets and all(core(y.child("e")).get("k") == "bool" and core(y.child("e"))["v"] is False for y in rets):
                    valid = "false"
                else:
                    valid = "other:" + expr_str(rets[0])[:30] if rets else "other"
        k_ = "%s/%s" % (kind, task)
        seen[k_] = seen.get(k_, 0) + 1
        site = "lookupRule|%s%s" % (k_, "#%d" % seen[k_] if seen[k_] > 1 else "")
        want = PAIRING.get(task)
        if want is None:
            r.violation(site, "rule creates an unknown task class %s" % task, f, n)
            continue
        okk = task in KIND_TASKS.get(kind, set())
        okv = (want == "self" and valid == task) or (want == valid)
        r.check(okk and okv, site, "valid=%s" % valid, "kind %s creates %s with validity %s (expected task of %s, validity %s)" % (
            kind, task, valid, sorted(KIND_TASKS.get(kind, [])), task if want == "self" else want), f, n)
        sig = expr_plain(a[1]).replace(" ", "")
        want_sig = SIG_SOURCE.get("Node" if kind == "Node" else task, "{}")
        oks = (want_sig == "{}" and ("getSignature" not in sig)) or (want_sig.replace("->", ".").replace(" ", "") in sig.replace("->", "."))
        r.check(oks, site + "|signature", "", "rule signature is %s, expected %s" % (sig[:40], want_sig), f, n)
    for kind, tasks in KIND_TASKS.items():
        got = set(k.split("/")[1] for k in seen if k.startswith(kind + "/"))
        r.check(got == tasks, "lookupRule|%s-tasks" % kind, "", "kind %s creates %s, expected %s" % (kind, sorted(got), sorted(tasks)), f)
    # the validity callback is actually consulted
    v = prog.fn("BuildSystemRule::isResultValid")
    r.check(any((c.get("op") == "()" and "resultValid" in expr_str(c.child("obj"))) for c in v.nodes if c.get("k") == "call"), "BuildSystemRule|validity-consulted", "",
            "the rule's validity callback is not called", v)

    r = rep.rule("R-NODE-SIG", "BuildNode::getSignature folds the node type and the name of every producer; each argument reaches the hash losslessly", floor=3)
    g = prog.fn("BuildNode::getSignature")
    combs = g.calls("CommandSignature::combine")
    txt = [expr_plain(arg_nodes(c)[0]) for c in combs]
    r.check(any(t == "type" for t in txt), "BuildNode::getSignature|type-folded", "", "node type is not part of the node signature", g)
    # one loop over all producers (range-for, or begin()..end() iterators over the same list), folding each name, never cut short
    loops = [n for n in g.nodes if n.get("k") == "forrange" and "getProducers()" in expr_str(n.child("range"))]
    if not loops:
        import re as _re
        env = {v["n"]: expr_plain(g.nodes[v["init"]]) for d in g.nodes if d.get("k") == "decl" for v in d.get("vars", []) if "init" in v and v.get("n")}

        def subst(t):
            for _ in range(3):
                for nm_, ini_ in env.items():
                    t = _re.sub(r"\b%s\b" % _re.escape(nm_), ini_, t)
            return t
        for n in g.nodes:
            if n.get("k") == "for" and "init" in n and "c" in n and "inc" in n:
                its = [v["n"] for d in n.child("init").walk() if d.get("k") == "decl" for v in d.get("vars", []) if "init" in v and subst(expr_plain(g.nodes[v["init"]])).endswith("getProducers().begin()")]
                cnd = subst(expr_plain(n.child("c")))
                inc = expr_plain(n.child("inc")).strip("()").replace(" ", "")
                if len(its) == 1 and "getProducers().end()" in cnd and ("!=" in cnd) and inc in ("++" + its[0], its[0] + "++"):
                    loops.append(n)
    ok = len(loops) == 1 and any("getName()" in expr_str(c) for c in combs if any(x is c for x in loops[0].walk())) and \
        not any(x.get("k") in ("break", "return", "continue") for x in loops[0].child("body").walk())
    r.check(ok, "BuildNode::getSignature|every-producer-folded", "", "producer names are not all folded", g)
    for c in combs:
        by_value = not c.tname("rt").rstrip().endswith("&")
        if cfg.is_discarded(g, c):
            r.check(not (c.get("cm") or by_value), "BuildNode::getSignature|fold-has-effect(%s)" % expr_plain(arg_nodes(c)[0])[:24], "",
                    "combine() result discarded although combine does not modify the signature in place: nothing is folded", g, c)
        pt = g.db_types[c["pt"][0]].replace("const ", "").replace("&", "").strip()
        origin = arg_nodes(c)[0]
        while origin is not None and origin.get("k") == "cast":
            origin = origin.child("e")
        ot = origin.ctype().replace("const ", "")
        if pt == "bool":
            r.check(ot == "bool", "BuildNode::getSignature|combine(%s)" % expr_str(origin)[:20], "", "value of type '%s' is folded through combine(bool): only zero/non-zero reaches the hash" % ot, g, c)

    r = rep.rule("R-MISSING-CMD", "the rule for an unknown command is never valid and its task completes with an invalid value and forceChange", floor=2)
    mt = prog.fn("MissingCommandTask::inputsAvailable")
    comp = mt.calls("TaskInterface::complete")
    ok = len(comp) == 1 and "makeInvalid()" in expr_str(arg_nodes(comp[0])[0]) and len(arg_nodes(comp[0])) > 1 and core(arg_nodes(comp[0])[1]).get("v") is True
    r.check(ok, "MissingCommandTask|invalid-and-forced", "", "missing command does not complete with (invalid value, forceChange=true)", mt)
    nmiss = sum(v_ for k, v_ in seen.items() if k.endswith("/MissingCommandTask"))
    r.check(nmiss == 2, "lookupRule|missing-command-rules", "%d" % nmiss, "expected a missing-command rule for unknown commands and unknown custom tasks", f)

    r_output_compare(prog, rep)



VARIANTS = [
    dict(name="outputs-do-not-record-producer", file="lib/BuildSystem/BuildFile.cpp",
         old="            // Add this command to the node producer list.\n            node->getProducers().push_back(command.get());\n", new="", expect=("R-BUILDFILE-KEYS", "outputs-record-producer")),
    dict(name="inputs-configured-as-outputs", file="lib/BuildSystem/BuildFile.cpp",
         old="          command->configureInputs(getContext(key), nodes);", new="          command->configureOutputs(getContext(key), nodes);", expect=("R-BUILDFILE-KEYS", "inputs->configureInputs")),
    dict(name="only-first-input-name-used", file="lib/BuildSystem/BuildFile.cpp",
         old="                        static_cast<llvm::yaml::ScalarNode*>(&nodeName)),\n                    /*isImplicit=*/true));\n          }\n\n          command->configureInputs",
         new="                        static_cast<llvm::yaml::ScalarNode*>(&nodeName)),\n                    /*isImplicit=*/true));\n            break;\n          }\n\n          command->configureInputs",
         expect=("R-BUILDFILE-KEYS", "inputs-every-name-becomes-a-node")),
    dict(name="tree-signature-ids-overlap-child-ids", file="lib/BuildSystem/BuildSystem.cpp",
         edits=[("                     /*inputID=*/1 + childResults.size() + index);", "                     /*inputID=*/childResults.size() + index);"),
                ("    auto index = inputID - 1 - childResults.size();\n    assert(index < childResults.size());\n    childResults[index].directorySignatureValue = valueData;", "    auto index = inputID - childResults.size();\n    assert(index < childResults.size());\n    childResults[index].directorySignatureValue = valueData;")],
         expect=("R-INPUT-IDS", "DirectoryTreeSignatureTask")),
    dict(name="tree-signature-decoded-off-by-one", file="lib/BuildSystem/BuildSystem.cpp",
         old="    auto index = inputID - 1 - childResults.size();\n    assert(index < childResults.size());\n    childResults[index].directorySignatureValue = valueData;",
         new="    auto index = inputID - childResults.size();\n    assert(index < childResults.size());\n    childResults[index].directorySignatureValue = valueData;", expect=("R-INPUT-IDS", "DirectoryTreeSignatureTask")),
    dict(name="child-node-ids-start-at-zero", file="lib/BuildSystem/BuildSystem.cpp", old="        ti.request(BuildKey::makeNode(childPath).toData(), /*inputID=*/1 + i);\n      }\n      return;\n    }\n\n    // If the input is a child, add it to the collection and dispatch a\n    // directory request if needed.",
         new="        ti.request(BuildKey::makeNode(childPath).toData(), /*inputID=*/i);\n      }\n      return;\n    }\n\n    // If the input is a child, add it to the collection and dispatch a\n    // directory request if needed.",
         expect=("R-INPUT-IDS", "makeNode")),
    dict(name="validity-loop-stops-at-first-virtual-output", file="lib/BuildSystem/ExternalCommand.cpp", old="    // Ignore virtual outputs.\n    if (node->isVirtual())\n      continue;", new="    // Ignore virtual outputs.\n    if (node->isVirtual())\n      break;",
         expect=("R-OUTPUT-COMPARE", "")),
    dict(name="benign-validity-loop-if-else", file="lib/BuildSystem/ExternalCommand.cpp",
         old="    if (node->isMutated()) {\n      if (value.getNthOutputInfo(i).isMissing() != info.isMissing())\n        return false;\n      continue;\n    }\n\n    if (value.getNthOutputInfo(i) != info)\n      return false;",
         new="    if (node->isMutated()) {\n      if (value.getNthOutputInfo(i).isMissing() != info.isMissing())\n        return false;\n    } else {\n      if (value.getNthOutputInfo(i) != info)\n        return false;\n    }", expect=None),
    dict(name="produced-node-uses-file-input-validity", file="lib/BuildSystem/BuildSystem.cpp",
         old="        return ProducedNodeTask::isResultValid(\n            engine, *node, BuildValue::fromData(value));", new="        return VirtualInputNodeTask::isResultValid(\n            engine, *node, BuildValue::fromData(value));",
         expect=("R-LOOKUP-EXHAUSTIVE", "Node/ProducedNodeTask")),
    dict(name="directory-contents-never-revalidated", file="lib/BuildSystem/BuildSystem.cpp",
         old="      /*IsValid=*/ [path](BuildEngine& engine, const Rule& rule,\n          const ValueType& value) mutable -> bool {\n        return DirectoryContentsTask::isResultValid(\n            engine, path, BuildValue::fromData(value));\n      }",
         new="      /*IsValid=*/ nullptr", expect=("R-LOOKUP-EXHAUSTIVE", "DirectoryContents/DirectoryContentsTask")),
    dict(name="missing-command-valid", file="lib/BuildSystem/BuildSystem.cpp",
         old="          // The cached result for a missing command is never valid.\n          return false;", new="          // The cached result for a missing command is never valid.\n          return true;",
         expect=("R-LOOKUP-EXHAUSTIVE", "Command/MissingCommandTask")),
    dict(name="missing-command-not-forced", file="lib/BuildSystem/BuildSystem.cpp",
         old="    return ti.complete(BuildValue::makeInvalid().toData(),\n                       /*forceChange=*/true);", new="    return ti.complete(BuildValue::makeInvalid().toData());",
         expect=("R-MISSING-CMD", "invalid-and-forced")),
    dict(name="node-rule-without-signature", file="lib/BuildSystem/BuildSystem.cpp",
         old="    return std::unique_ptr<Rule>(new BuildSystemRule(\n      keyData,\n      node->getSignature(),\n      /*Action=*/ [node](BuildEngine& engine) -> Task* {\n        return new ProducedNodeTask(*node);",
         new="    return std::unique_ptr<Rule>(new BuildSystemRule(\n      keyData,\n      /*signature=*/{},\n      /*Action=*/ [node](BuildEngine& engine) -> Task* {\n        return new ProducedNodeTask(*node);",
         expect=("R-LOOKUP-EXHAUSTIVE", "Node/ProducedNodeTask|signature")),
    dict(name="node-sig-first-producer-only", file="lib/BuildSystem/BuildNode.cpp",
         old="  for (auto* producer : getProducers()) {\n    sig.combine(producer->getName());\n  }", new="  for (auto* producer : getProducers()) {\n    sig.combine(producer->getName());\n    break;\n  }",
         expect=("R-NODE-SIG", "every-producer-folded")),
    dict(name="validity-skips-last-output", file="lib/BuildSystem/ExternalCommand.cpp",
         old="  for (unsigned i = 0, e = outputs.size(); i != e; ++i) {\n    auto* node = outputs[i];\n\n    // Ignore virtual outputs.", new="  for (unsigned i = 0, e = outputs.size() - 1; i < e; ++i) {\n    auto* node = outputs[i];\n\n    // Ignore virtual outputs.",
         expect=("R-OUTPUT-COMPARE", "all-outputs")),
    dict(name="validity-ignores-directories", file="lib/BuildSystem/ExternalCommand.cpp",
         old="    // Ignore virtual outputs.\n    if (node->isVirtual())\n      continue;", new="    // Ignore virtual outputs.\n    if (node->isVirtual() || node->isDirectory())\n      continue;",
         expect=("R-OUTPUT-COMPARE", "skips-only-virtual-or-mutated")),
    dict(name="file-input-existence-only", file="lib/BuildSystem/BuildSystem.cpp",
         old="      return value.isExistingInput() && value.getOutputInfo() == info;\n    }\n  }\n};\n\n/// This is the task to \"build\" a file info node", new="      return value.isExistingInput();\n    }\n  }\n};\n\n/// This is the task to \"build\" a file info node",
         expect=("R-OUTPUT-COMPARE", "FileInputNodeTask")),
    dict(name="target-valid-when-stored-value-is-a-target", file="lib/BuildSystem/BuildSystem.cpp", old="  static bool isResultValid(BuildEngine&, Target&, const BuildValue&) {\n    // Always treat target tasks as invalid.\n    return false;",
         new="  static bool isResultValid(BuildEngine&, Target&, const BuildValue& value) {\n    return value.isTarget();", expect=("R-VALIDITY-BODIES", "TargetTask::isResultValid|never-valid")),
    dict(name="stat-valid-when-stored", file="lib/BuildSystem/BuildSystem.cpp", old="  static bool isResultValid(BuildEngine&, const StatNode&, const BuildValue&) {\n    // Always read the stat information\n    return false;",
         new="  static bool isResultValid(BuildEngine&, const StatNode&, const BuildValue& value) {\n    return !value.isInvalid();", expect=("R-VALIDITY-BODIES", "StatTask::isResultValid|never-valid")),
    dict(name="produced-node-valid-after-missing-input", file="lib/BuildSystem/BuildSystem.cpp", old="    if (value.isMissingInput())\n      return false;\n\n    // The produced node result itself doesn't need any synchronization.\n    return true;",
         new="    // The produced node result itself doesn't need any synchronization.\n    return true;", expect=("R-VALIDITY-BODIES", "ProducedNodeTask::isResultValid|isMissingInput-invalid")),
    dict(name="benign-produced-node-validity-as-one-expression", file="lib/BuildSystem/BuildSystem.cpp",
         old="    if (value.isFailedInput())\n      return false;\n\n    // If the result was previously a missing input, it may have been because\n    // we did not previously know how to produce this node. We do now, so\n    // attempt to build it now.\n    if (value.isMissingInput())\n      return false;\n\n    // The produced node result itself doesn't need any synchronization.\n    return true;",
         new="    return !(value.isFailedInput() || value.isMissingInput());", expect=None),
    dict(name="rule-action-moves-its-captured-path", file="lib/BuildSystem/BuildSystem.cpp",
         edits=[("  DirectoryTreeSignatureTask(StringRef path, StringList&& filters)\n      : path(path), filters(std::move(filters)) {}", "  DirectoryTreeSignatureTask(std::string path, StringList&& filters)\n      : path(std::move(path)), filters(std::move(filters)) {}"),
                ("        return new DirectoryTreeSignatureTask(path, StringList(decoder));", "        return new DirectoryTreeSignatureTask(std::move(path), StringList(decoder));")],
         expect=("R-CALLBACKS-REUSABLE", "callback")),
    dict(name="benign-move-of-capture-into-a-view-parameter", file="lib/BuildSystem/BuildSystem.cpp", old="        return new DirectoryTreeSignatureTask(path, StringList(decoder));",
         new="        return new DirectoryTreeSignatureTask(std::move(path), StringList(decoder));", expect=None),
    dict(name="structure-signature-task-ignores-its-filters", file="lib/BuildSystem/BuildSystem.cpp", old="  DirectoryTreeStructureSignatureTask(StringRef path, StringList&& filters) : path(path), filters(std::move(filters)) {}",
         new="  DirectoryTreeStructureSignatureTask(StringRef path, StringList&& filters)\n      : path(path) {}", expect=("R-TASK-CTOR-PARAMS", "DirectoryTreeStructureSignatureTask")),
]
