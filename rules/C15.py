"""C15 — Keys and values encode canonically and decode losslessly (structural part)."""
import re
from sa.facts import AnalysisBroken, expr_str, qmatch, strip_casts, relpath, core
from sa import cfg
from sa.cfg import canon
from sa.flow import arg_nodes
from sa import codec

UNITS = ["lib/BuildSystem/BuildValue.cpp", "lib/BuildSystem/BuildKey.cpp", "lib/Core/BuildEngine.cpp"]
THOROUGH_ALL_UNITS = False
EXPLANATION = (
    "Encoder/decoder shape equality (same fields, same order, same element types, same guards and loop bounds) for BuildValue, "
    "the BinaryCodingTraits of FileInfo, FileTimestamp, FileChecksum, CommandSignature, BuildValue::Kind and StringList; byte "
    "order agreement of the 16/32/64-bit primitives; BuildValue::Kind enumerators pairwise distinct and below 256 (one-byte "
    "tag); identifierForKind / kindForIdentifier mutually inverse bijections on all kinds but Unknown; the has-signature / "
    "has-output-info / has-string-list predicates are functions of the kind alone; the composite key layout written by the "
    "three-argument BuildKey constructor and the offsets used by every accessor agree as linear expressions in nameSize; the "
    "engine decides 'unchanged' by comparing the encoded vectors.")
NOT_DECIDED = ("injectivity over all field values beyond shape (a StringList element containing NUL is excluded only by an assert); "
               "BinaryDecoder has no bounds checks on corrupt input (the property quantifies over encoder output).")

CODERS = {"coder", "decoder", "encoder"}


def traits_pairs(prog):
    pairs = {}
    for f in prog.functions.values():
        head = f.key.split("(")[0]
        if "BinaryCodingTraits<" in head and head.split("::")[-1] in ("encode", "decode"):
            pairs.setdefault(head.rsplit("::", 1)[0], {})[head.split("::")[-1]] = f
    return pairs


def member_qns(f, a):
    """members an argument denotes, looking through local reference aliases (auto& s = value.seconds)."""
    out = set()
    for x in a.walk():
        if x.get("k") == "member" and x.get("qn"):
            out.add(x["qn"])
        elif x.get("k") == "ref" and x.get("did") is not None:
            for d in f.nodes:
                if d.get("k") == "decl":
                    for v in d.get("vars", []):
                        if v.get("did") == x["did"] and "init" in v and "&" in f.db_types[v["t"]]:
                            out |= set(y["qn"] for y in f.nodes[v["init"]].walk() if y.get("k") == "member" and y.get("qn"))
    return out


class AllMembers(object):
    def __contains__(self, x):
        return True


def constrained_by_guard(prog, f, ret):
    """members that the test guarding an early exit talks about (directly or through a method of the record): when the
    skipped member is one of them the test may determine it, and the rule does not judge the arithmetic."""
    out = set()
    for a in f.ancestors(ret):
        if a.get("k") != "if":
            continue
        # decoder: the guarded arm assigns the whole record before leaving
        for x in a.walk():
            lhs = x.child("l") if x.get("k") == "bin" and x.get("op") == "=" else (x.child("obj") if x.get("k") == "call" and x.get("op") == "=" and "obj" in x else None)
            if lhs is not None and strip_casts(lhs).get("k") == "ref" and f.params and strip_casts(lhs).get("did") == f.params[0]["did"] and x["id"] < ret["id"]:
                return AllMembers()
        todo = [a.child("c")]
        # the condition may be a local computed earlier: follow one level of initialisers
        for x in a.child("c").walk():
            if x.get("k") == "ref":
                for dn in f.nodes:
                    if dn.get("k") == "decl":
                        for v in dn.get("vars", []):
                            if v.get("did") == x.get("did") and "init" in v:
                                todo.append(f.nodes[v["init"]])
        for t in todo:
            for x in t.walk():
                if x.get("k") == "member" and x.get("qn"):
                    out.add(x["qn"])
                if x.get("k") == "call" and x.get("fn"):
                    for g in prog.fns(x["fn"]):
                        out |= set(y["qn"] for y in g.nodes if y.get("k") == "member" and y.get("qn"))
    return out


def run(ctx):
    prog, rep = ctx.prog, ctx.report

    r = rep.rule("R-CODEC-SHAPE", "every encoder and its decoder have the same I/O shape: the same fields in the same order with the same element "
                                  "types, under the same guards and loop bounds", floor=7)
    n_pairs = 0
    for cls, d in sorted(traits_pairs(prog).items()):
        short = cls.split("BinaryCodingTraits<")[-1].rstrip(">").split("::")[-1]
        if "decode" not in d:
            r.exempt("Traits<%s>" % short, "encode-only trait (raw bytes); no decoder exists")
            continue
        if "encode" not in d:
            r.violation("Traits<%s>" % short, "decoder without encoder", d["decode"])
            continue
        se, sd = codec.shape(d["encode"], CODERS), codec.shape(d["decode"], CODERS)
        n_pairs += 1
        r.check(se == sd and bool(se), "Traits<%s>" % short, "%d items" % len(se), "encoder shape %s differs from decoder shape %s" % (se, sd), d["encode"])
    # ------------------------------------------------------------------
    rc = rep.rule("R-CODEC-COMPLETE", "a record coder writes (and reads) every data member of the record on every path: no member is skipped under a "
                                      "condition or behind an early return (a skipped member makes two distinct values encode alike), and an array member is "
                                      "covered over its full extent", floor=8)
    for cls, d in sorted(traits_pairs(prog).items()):
        short = cls.split("BinaryCodingTraits<")[-1].rstrip(">")
        rec = [r_ for n_, r_ in prog.records.items() if n_ == short and r_.get("fields")]
        if not rec or "decode" not in d:
            continue
        qns = set(fl["qn"] for fl in rec[0]["fields"])
        if not any(x.get("k") == "member" and x.get("qn") in qns for x in d["encode"].nodes):
            rc.exempt("Traits<%s>" % short.split("::")[-1], "delegates to the record's own encode/decode members (checked by R-CODEC-SHAPE)")
            continue
        for side in ("encode", "decode"):
            f = d[side]
            for fld in rec[0]["fields"]:
                site = "Traits<%s>::%s|%s" % (short.split("::")[-1], side, fld["n"])
                ios = [c for c in f.calls() if "obj" in c and strip_casts(c.child("obj")).get("n") in CODERS and
                       any(fld["qn"] in member_qns(f, a) for a in arg_nodes(c) if a is not None)]
                if not ios:
                    rc.violation(site, "member %s is never %s" % (fld["n"], "written" if side == "encode" else "read"), f)
                    continue
                c = ios[0]
                anc = list(f.ancestors(c))
                cond = [a for a in anc if a.get("k") in ("if", "switch", "cond", "while", "do", "forrange")]
                early = [n for n in f.nodes if n.get("k") in ("return", "break", "continue") and n["id"] < c["id"] and
                         fld["qn"] not in constrained_by_guard(prog, f, n)]
                loops = [a for a in anc if a.get("k") == "for"]
                ok, why = not cond and not early, ""
                if cond:
                    why = "member %s is %s only under a condition (%s at line %s)" % (fld["n"], "written" if side == "encode" else "read", cond[0]["k"], cond[0].get("ln"))
                elif early:
                    why = "an early %s at line %s can skip member %s" % (early[0]["k"], early[0].get("ln"), fld["n"])
                m = re.match(r".*\[(\d+)\]$", fld.get("type", ""))
                if ok and m:
                    ext = int(m.group(1))
                    ok = len(loops) == 1 and canon(loops[0].child("c")) in ("(i < %d)" % ext,) and \
                        expr_str(loops[0].child("init")).replace(" ", "").endswith("i=0") and expr_str(loops[0].child("inc")).strip("()") in ("i++", "++i") and \
                        any(x.get("k") == "index" and expr_str(core(x.child("i"))) == "i" for a in arg_nodes(c) for x in a.walk())
                    why = "array member %s[%d] is not covered element by element over its full extent" % (fld["n"], ext)
                elif ok and loops:
                    ok, why = False, "scalar member %s is coded inside a loop" % fld["n"]
                rc.check(ok, site, "", why, f, c)
    enc = prog.fn("buildsystem::BuildValue::toData")
    dec = [f for f in prog.fns("buildsystem::BuildValue::BuildValue") if len(f.params) == 1 and "BinaryDecoder" in f.param_type(0)]
    if len(dec) != 1:
        raise AnalysisBroken("BuildValue decoder constructor not found")
    se, sd = codec.shape(enc, CODERS), codec.shape(dec[0], CODERS)
    r.check(se == sd and len(se) >= 4, "BuildValue", "%d top-level items" % len(se), "toData shape %s differs from decoder shape %s" % (se, sd), enc)
    senc = prog.fn("basic::StringList::encode")
    sdec = [f for f in prog.fns("basic::StringList::StringList") if len(f.params) == 1 and "BinaryDecoder" in f.param_type(0)]
    if len(sdec) != 1:
        raise AnalysisBroken("StringList decoder constructor not found")
    se, sd = codec.shape(senc, CODERS), codec.shape(sdec[0], CODERS)
    r.check(se == sd and len(se) == 2, "StringList", "", "encode shape %s differs from decoder shape %s" % (se, sd), senc)
    # bytes written/read are `size` long on both sides
    wb = senc.calls("writeBytes")
    rb = sdec[0].calls("readBytes")
    ok = len(wb) == 1 and len(rb) == 1 and "size" in expr_str(arg_nodes(wb[0])[0]) and expr_str(core(arg_nodes(rb[0])[0])) == "size"
    r.check(ok, "StringList|byte-count", "", "string list bytes are not written and read with the same `size`", senc)
    # std::string primitive
    for w, rd in ((prog.fns("BinaryEncoder::write"), prog.fns("BinaryDecoder::read")),):
        ws = [f for f in w if f.params and "basic_string" in f.db_types[f.params[0]["ct"]]]
        rs = [f for f in rd if f.params and "basic_string" in f.db_types[f.params[0]["ct"]]]
        if ws and rs:
            se, sd = codec.shape_self(ws[0]) if hasattr(codec, "shape_self") else None, None
    if n_pairs < 5:
        raise AnalysisBroken("only %d coding-trait pairs found" % n_pairs)

    r = rep.rule("R-BYTE-ORDER", "the 16/32/64-bit integer primitives are split by the encoder and reassembled by the decoder with the same shift "
                                 "constants in the same order", floor=3)
    for bits in (16, 32, 64):
        we = [f for f in prog.fns("BinaryEncoder::write") if f.params and f.db_types[f.params[0]["t"]] == "uint%d_t" % bits]
        rd = prog.fns("BinaryDecoder::read%d" % bits)
        if len(we) != 1 or len(rd) != 1:
            raise AnalysisBroken("u%d primitives not found" % bits)
        es = []
        for c in sorted(we[0].calls("BinaryEncoder::write"), key=lambda c: c["id"]):
            a = core(arg_nodes(c)[0])
            sh = [x for x in arg_nodes(c)[0].walk() if x.get("k") == "bin" and x["op"] == ">>"]
            es.append(core(sh[0].child("r")).get("v") if sh else 0)
        ds = []
        for n in sorted([x for x in rd[0].nodes if x.get("k") in ("decl", "bin")], key=lambda x: x["id"]):
            if n.get("k") == "decl":
                for v in n["vars"]:
                    if "init" in v and "read" in expr_str(rd[0].nodes[v["init"]]):
                        ds.append(0)
            elif n["op"] == "|=":
                sh = [x for x in n.child("r").walk() if x.get("k") == "bin" and x["op"] == "<<"]
                ds.append(core(sh[0].child("r")).get("v") if sh else 0)
        half = bits // 2
        r.check(es == ds == [0, half], "u%d" % bits, "%s" % es, "encoder splits at %s, decoder joins at %s" % (es, ds), we[0])
    for nm, tname in (("write", "bool"), ("read", "bool")):
        pass

    r = rep.rule("R-KIND-TAGS", "BuildValue kind tags are pairwise distinct and fit the one-byte tag; BuildKey identifierForKind and kindForIdentifier "
                                "are mutually inverse bijections on every kind but Unknown; the kind predicates depend on the kind alone", floor=6)
    e = prog.enum("buildsystem::BuildValue::Kind")
    vals = [x["v"] for x in e["enumerators"]]
    r.check(len(set(vals)) == len(vals) and max(vals) < 256 and min(vals) >= 0, "BuildValue::Kind|distinct-one-byte", "%d kinds" % len(vals),
            "kind values %s are not distinct one-byte tags" % vals)
    tk = prog.functions.get([k for k in prog.functions if "BinaryCodingTraits<llbuild::buildsystem::BuildValue::Kind>::encode" in k][0])
    w = tk.calls("BinaryEncoder::write")
    r.check(len(w) == 1 and prog_type(tk, w[0]) == "uint8_t", "BuildValue::Kind|tag-width", "", "kind is not written as one byte", tk)
    ik = codec.return_table(prog.fn("BuildKey::identifierForKind"))
    ki = codec.return_table(prog.fn("BuildKey::kindForIdentifier"))
    if ik is None or ki is None:
        raise AnalysisBroken("BuildKey kind tables have an unexpected shape")
    kinds = [x["n"] for x in prog.enum("buildsystem::BuildKey::Kind")["enumerators"]]
    for kname in kinds:
        site = "BuildKey|%s" % kname
        if kname == "Unknown":
            r.check(ki.get("default") == "Unknown", site, "", "unrecognised identifiers do not map to Unknown", prog.fn("BuildKey::kindForIdentifier"))
            continue
        ident = ik.get(kname)
        back = ki.get(ident)
        r.check(ident is not None and back == kname, site, "'%s'" % (chr(ident) if isinstance(ident, int) else ident),
                "identifierForKind(%s)=%r but kindForIdentifier(%r)=%s" % (kname, ident, ident, back), prog.fn("BuildKey::identifierForKind"))
    idents = [v for k, v in ik.items() if k not in ("Unknown", "default")]
    r.check(len(set(idents)) == len(idents) and ik.get("Unknown") not in idents, "BuildKey|identifiers-distinct", "", "identifiers %s collide" % idents,
            prog.fn("BuildKey::identifierForKind"))
    extra = set(k for k in ki if k != "default") - set(idents)
    r.check(not extra, "BuildKey|no-stray-identifiers", "", "kindForIdentifier accepts identifiers %s that no kind produces" % sorted(extra),
            prog.fn("BuildKey::kindForIdentifier"))
    bv = prog.record("buildsystem::BuildValue")
    own = set(fl["n"] for fl in bv["fields"])
    for pred in ("kindHasSignature", "kindHasOutputInfo", "kindHasStringList"):
        f = prog.fn("BuildValue::" + pred)
        read = set()
        work = [f]
        seen = set()
        while work:
            g = work.pop()
            if g.key in seen:
                continue
            seen.add(g.key)
            for n in g.nodes:
                if n.get("k") == "member" and n.get("n") in own and not n.get("method"):
                    read.add(n["n"])
                if n.get("k") == "call" and n.get("fk") in prog.functions and "BuildValue" in (n.get("fn") or ""):
                    work.append(prog.functions[n["fk"]])
        r.check(read == {"kind"}, "BuildValue::%s|kind-only" % pred, "", "predicate reads %s" % sorted(read), f)

    # ---- which kinds carry which payload: the factories against the three `kindHas…` predicates the coder is guarded by
    rk = rep.rule("R-KIND-PAYLOAD", "every BuildValue factory that is given a payload (signature, output infos, string list) creates a kind for which the "
                                    "predicate guarding that payload in toData() and in the decoding constructor is true — otherwise the payload is silently "
                                    "left out of the encoding and distinct values encode alike", floor=8)

    def kind_pred(f, K, depth=0):
        """truth of the kind-only predicate f for kind K — whatever its form (|| chain, isX() helpers, switch (kind), named booleans): the body is
        walked with every `kind == Enumerator` test fixed (cfg.possible_returns).  None if the answer is not determined by the kind."""
        env = {}
        for k2 in KINDS:
            for subj in ("kind", "this->kind"):
                env["(%s == %s)" % (subj, k2)] = (k2 == K)
                env["(%s == %s)" % (k2, subj)] = (k2 == K)
        got = cfg.possible_returns(f, env)
        if got == {True}:
            return True
        if got == {False}:
            return False
        return None

    KINDS = set(x["n"] for x in prog.enum("buildsystem::BuildValue::Kind")["enumerators"])
    PAYLOAD = (("CommandSignature", "kindHasSignature"), ("FileInfo", "kindHasOutputInfo"), ("basic_string", "kindHasStringList"), ("std::string", "kindHasStringList"))
    n_fact = 0
    for f in sorted(prog.fns_in_class("buildsystem::BuildValue") if hasattr(prog, "fns_in_class") else
                    [g for g in prog.functions.values() if qmatch(g.cls or "", "buildsystem::BuildValue") and not g.is_lambda], key=lambda g: g.name):
        short = f.name.split("::")[-1]
        if not short.startswith("make"):
            continue
        cons = [n for n in f.nodes if n.get("k") == "construct" and (n.get("fn") or "").endswith("BuildValue::BuildValue") and n.get("args")]
        cons = [n for n in cons if expr_str(core(arg_nodes(n)[0])).split("::")[-1] in KINDS and "Kind" in f.db_types[(n.get("pt") or [0])[0]]]
        if len(cons) != 1:
            continue
        n_fact += 1
        K = expr_str(core(arg_nodes(cons[0])[0])).split("::")[-1]
        pts = [f.db_types[p_["t"]] for p_ in f.params]        # what the factory itself is given (the constructor's defaulted parameters do not count)
        needs = []
        for t in pts:
            for frag, pred in PAYLOAD:
                if frag in t and pred not in needs:
                    needs.append(pred)
        for pred in needs:
            v = kind_pred(prog.fn("BuildValue::" + pred), K)
            if v is None:
                raise AnalysisBroken("BuildValue::%s is not a boolean combination of kind tests" % pred)
            rk.check(v, "%s|%s" % (short, pred), "kind %s" % K, "%s passes a payload guarded by %s(), which is false for kind %s: the payload is never encoded" % (short, pred, K), f, cons[0])
        if not needs:
            rk.ok("%s|no-payload" % short, "kind %s" % K, f)
    if n_fact < 15:
        raise AnalysisBroken("only %d BuildValue factories found" % n_fact)

    r = rep.rule("R-KEY-LAYOUT", "the composite key layout [kind:1][nameSize:4][name][payload] written by the three-argument constructor and the "
                                 "offsets used by the accessors agree (as linear expressions in nameSize)", floor=6)
    ctors = [f for f in prog.fns("BuildKey::BuildKey") if len(f.params) == 3]
    if not ctors:
        raise AnalysisBroken("three-argument BuildKey constructor not instantiated")
    c3 = ctors[0]
    env = {"pos": {1: 0}}
    writes = []
    order = sorted([n for n in c3.nodes if n.get("k") in ("bin", "call")], key=lambda n: (n.line, n["id"]))
    for n in order:
        if n.get("k") == "bin" and n["op"] == "+=" and expr_str(n.child("l")) == "pos":
            d = codec.linear(n.child("r"), env)
            cur = dict(env["pos"])
            for s, cf in (d or {}).items():
                cur[s] = cur.get(s, 0) + cf
            env["pos"] = cur
        elif n.get("k") == "call" and (n.get("fn") or "") == "memcpy":
            a = arg_nodes(n)
            writes.append((codec.norm_linear(env["pos"]), expr_str(core(a[1]))[:30], codec.norm_linear(codec.linear(a[2], env))))
        elif n.get("k") == "call" and n.get("op") == "()" and "obj" in n and core(n.child("obj")) is not None and core(n.child("obj")).get("k") == "ref":
            # `appendBytes(ptr, len)`: a local lambda that copies to encodedKey[pos] and advances pos by the length it was given
            lam = None
            for d in c3.nodes:
                if d.get("k") == "decl":
                    for v in d.get("vars", []):
                        if v.get("did") == core(n.child("obj")).get("did") and "init" in v:
                            for x in c3.nodes[v["init"]].walk():
                                if x.get("k") == "lambda":
                                    lam = prog.lambda_fn(x)
            a = arg_nodes(n)
            if lam is not None and len(lam.params) == 2 and len(a) == 2:
                mc_ = lam.calls("memcpy")
                adv = [x for x in lam.nodes if x.get("k") == "bin" and x["op"] == "+=" and expr_str(x.child("l")) == "pos" and expr_str(core(x.child("r"))) == lam.params[1]["n"]]
                if len(mc_) == 1 and adv and "encodedKey[" in expr_str(arg_nodes(mc_[0])[0]) and "pos" in expr_str(arg_nodes(mc_[0])[0]) and \
                        expr_str(core(arg_nodes(mc_[0])[1])) == lam.params[0]["n"] and expr_str(core(arg_nodes(mc_[0])[2])) == lam.params[1]["n"]:
                    ln_ = codec.linear(a[1], env)
                    writes.append((codec.norm_linear(env["pos"]), expr_str(core(a[0]))[:30], codec.norm_linear(ln_)))
                    cur = dict(env["pos"])
                    for s_, cf in (ln_ or {}).items():
                        cur[s_] = cur.get(s_, 0) + cf
                    env["pos"] = cur
        elif n.get("k") == "bin" and n["op"] == "=" and "encodedKey[" in expr_str(n.child("l")).replace(" ", "") and "kindCode" in expr_str(n.child("r")):
            writes.append((codec.norm_linear(env["pos"]), "kindCode", (("1", 1),)))
        elif n.get("k") == "bin" and n["op"] == "=" and "encodedKey[" in expr_str(n.child("l")).replace(" ", "") and "nameSize" in expr_str(n.child("r")) and ">>" in expr_str(n.child("r")):
            # the prefix written byte by byte: for (i = 0; i != 4; ++i) encodedKey[pos + i] = char(nameSize >> (8 * i))
            lp = next((a_ for a_ in c3.ancestors(n) if a_.get("k") == "for"), None)
            bound = None
            if lp is not None and "c" in lp:
                cc = core(lp.child("c"))
                if cc is not None and cc.get("k") == "bin" and cc.get("op") in ("!=", "<"):
                    bound = (codec.linear(cc.child("r")) or {}).get(1)
            plain = lambda t_: re.sub(r"\((\w+)\)", r"\1", re.sub(r"cast<[^<>]*(<[^<>]*>)?[^<>]*>", "", t_))
            shift_ok = "8 * i" in plain(expr_str(n.child("r"))) or "i * 8" in plain(expr_str(n.child("r")))
            idx_ok = "pos + i" in plain(expr_str(n.child("l"))) or "i + pos" in plain(expr_str(n.child("l")))
            if bound == 4 and shift_ok and idx_ok:
                writes.append((codec.norm_linear(env["pos"]), "(&nameSize)", (("1", 4),)))
            else:
                writes.append((codec.norm_linear(env["pos"]), "bytes of nameSize (bound %s)" % bound, None))
    want = [((), "kindCode", (("1", 1),)), ((("1", 1),), "(&nameSize)", (("1", 4),)), ((("1", 5),), "name.data()", (("nameSize", 1),)),
            ((("1", 5), ("nameSize", 1)), None, (("dataSize", 1),))]
    ok = len(writes) == 4 and all(w[0] == x[0] and (x[1] is None or w[1] == x[1]) and w[2] == x[2] for w, x in zip(writes, want))
    r.check(ok, "BuildKey(kind,name,data)|layout", "%s" % [w[0] for w in writes], "constructor writes %s" % writes, c3)
    # the payload of a two-part key is read back raw (everything after the name): what the constructor writes for a byte-string payload must be
    # the bytes alone.  Which `write` overload `encoder.write(data)` resolves to decides that — a new non-template overload that adds a length
    # prefix silently wins over the generic template.
    from sa.callgraph import CallGraph
    cg15 = CallGraph(prog)
    for c3x in ctors:
        ptype = c3x.db_types[c3x.params[2]["t"]]
        if "StringRef" not in ptype and "basic_string" not in ptype:
            continue
        wc = [c for c in c3x.calls() if (c.get("fn") or "").endswith("BinaryEncoder::write") and c.get("fk")]
        if len(wc) != 1:
            raise AnalysisBroken("BuildKey(kind,name,%s): %d encoder.write calls" % (ptype, len(wc)))
        reach = cg15.reachable_from(wc[0]["fk"])
        prefixed = [k_ for k_ in reach if k_ in prog.functions and prog.functions[k_].name.endswith("BinaryEncoder::write") and prog.functions[k_].params and
                    prog.functions[k_].db_types[prog.functions[k_].params[0]["ct"]] in ("unsigned int", "unsigned long", "unsigned short", "unsigned char") and k_ != wc[0]["fk"]]
        raw = [k_ for k_ in reach if k_ in prog.functions and prog.functions[k_].name.endswith("BinaryEncoder::writeBytes")]
        r.check(bool(raw) and not prefixed, "BuildKey(kind,name,%s)|payload-raw" % ptype.replace("const ", "").replace(" &", ""), "", "the byte-string payload of a two-part key is written "
                "through %s, which also writes %s: the accessor reads the payload back raw, so it now starts with the prefix" % (
                    wc[0]["fk"].split("(")[0].split("::")[-1] + "(" + wc[0]["fk"].split("(", 1)[1][:40], "an integer (a length prefix)" if prefixed else "no bytes at all"), c3x, wc[0])
    name_acc = ["getCustomTaskName", "getDirectoryTreeSignaturePath", "getFilteredDirectoryPath"]
    data_acc = ["getCustomTaskData", "getContentExclusionPatterns"]
    for nm in name_acc + data_acc:
        f = prog.fn("BuildKey::" + nm)
        mc = f.calls("memcpy")
        okm = len(mc) == 1 and "key.data()[1]" in expr_str(arg_nodes(mc[0])[1]).replace("cast<unsigned long>", "") and core(arg_nodes(mc[0])[2]).get("v") == 4
        if not mc:
            # the prefix read through a member helper (`uint32_t nameSize = getNameSize();`): the helper reads 4 bytes from key.data() + 1,
            # byte i shifted by 8*i (whether each byte is zero-extended is R-BYTE-ASSEMBLY's business)
            for d in f.nodes:
                if d.get("k") == "decl":
                    for v in d["vars"]:
                        if v["n"] == "nameSize" and "init" in v:
                            hc = core(f.nodes[v["init"]])
                            h = prog.functions.get(hc.get("fk")) if hc is not None and hc.get("k") == "call" and hc.get("fk") else None
                            if h is not None and h.cls == f.cls:
                                txt = re.sub(r"\((\w+)\)", r"\1", re.sub(r"cast<[^<>]*(<[^<>]*>)?[^<>]*>", "", " ".join(expr_str(x) for x in h.nodes if x.get("k") in ("decl", "bin"))))
                                loops = [x for x in h.nodes if x.get("k") == "for" and "c" in x]
                                b4 = any((codec.linear(core(x.child("c")).child("r")) or {}).get(1) == 4 for x in loops if core(x.child("c")) is not None and core(x.child("c")).get("k") == "bin")
                                okm = ("key.data() + 1" in txt or "key.data()[1" in txt) and ("8 * i" in txt or "i * 8" in txt) and b4
                                hm = h.calls("memcpy")
                                if len(hm) == 1 and "key.data()[1]" in expr_str(arg_nodes(hm[0])[1]).replace("cast<unsigned long>", "") and core(arg_nodes(hm[0])[2]).get("v") == 4:
                                    okm = True       # the same memcpy, moved into the helper
        ret = [n for n in f.nodes if n.get("k") == "return"][0]
        cons = [x for x in ret.walk() if x.get("k") == "construct" and len(x.get("args", [])) == 2]
        off = ln = None
        if cons:
            a = arg_nodes(cons[0])
            idx = [x for x in a[0].walk() if x.get("k") in ("index",) or (x.get("k") == "call" and x.get("op") == "[]")]
            if idx:
                i0 = idx[0]
                off = codec.norm_linear(codec.linear(i0.child("i") if i0.get("k") == "index" else arg_nodes(i0)[0]))
            lv = core(a[1])
            env2 = {}
            if lv.get("k") == "ref":
                for d in f.nodes:
                    if d.get("k") == "decl":
                        for v in d["vars"]:
                            if v["did"] == lv.get("did") and "init" in v:
                                env2[v["n"]] = codec.linear(f.nodes[v["init"]]) or {v["n"]: 1}
            ln = codec.norm_linear(codec.linear(a[1], env2))
        if nm in name_acc:
            okk = okm and off == (("1", 5),) and ln == (("nameSize", 1),)
        else:
            okk = okm and off == (("1", 5), ("nameSize", 1)) and ln == (("1", -5), ("key.size()", 1), ("nameSize", -1))
        r.check(okk, "BuildKey::%s|offsets" % nm, "", "accessor reads nameSize ok=%s, offset %s, length %s" % (okm, off, ln), f)
    # simple keys: [kind][rest]
    for nm in ("getCommandName", "getNodeName", "getTargetName", "getStatName", "getDirectoryPath"):
        f = prog.fn("BuildKey::" + nm)
        ret = [n for n in f.nodes if n.get("k") == "return"][0]
        cons = [x for x in ret.walk() if x.get("k") == "construct" and len(x.get("args", [])) == 2]
        okk = False
        desc = ""
        if cons:
            a = arg_nodes(cons[0])
            p0 = core(a[0])
            off = None
            if p0.get("k") == "bin" and p0["op"] == "+" and expr_str(core(p0.child("l"))) == "key.data()":
                off = core(p0.child("r")).get("v")
            ln = codec.norm_linear(codec.linear(a[1]))
            okk = off == 1 and ln == (("1", -1), ("key.size()", 1))
            desc = "offset %s length %s" % (off, ln)
        r.check(okk, "BuildKey::%s|offsets" % nm, "", "simple key name read with %s" % desc, f)

    rs = rep.rule("R-STRINGLIST-SIZE", "StringList's packed length is the sum over the given strings of (length + 1) and nothing else: in the list constructors `size` is "
                                       "written only by `size += s.size() + 1` inside the loop over all strings (or set to value.size() + 1 for one string) — the "
                                       "length is what encode() writes and getValues() walks, so any other adjustment turns [] into [\"\"] or drops a string", floor=2)
    n_ct = 0
    for f in prog.functions.values():
        if f.is_lambda or not (f.cls or "").endswith("basic::StringList") or not f.raw.get("ctor") or not f.params:
            continue
        pt = f.db_types[f.params[0]["t"]]
        if "StringList" in pt:
            continue                                    # move constructor
        n_ct += 1
        writes = [n for n in f.nodes if (n.get("k") == "bin" and n.get("op", "").endswith("=") and n["op"] not in ("==", "!=", "<=", ">=") and
                                         expr_str(core(n.child("l"))).replace("this->", "") == "size") or
                  (n.get("k") == "un" and ("++" in n.get("op", "") or "--" in n.get("op", "")) and expr_str(core(n.child("e"))).replace("this->", "") == "size")]
        site = "StringList(%s)|size" % pt.replace("const ", "")[:40]
        bad = None
        if "ArrayRef" in pt:
            loops = dict((lp["id"], en) for lp, en in E_loops(f, f.params[0]["n"]))
            for w in writes:
                lp = next((a for a in f.ancestors(w) if a.get("k") in ("forrange", "for", "while")), None)
                lin = codec.linear(w.child("r")) if w.get("k") == "bin" else None
                en = loops.get(lp["id"]) if lp is not None else None
                ok = w.get("k") == "bin" and w["op"] == "+=" and lp is not None and en is not None and lin is not None and \
                    lin.get(1) == 1 and {k_: v_ for k_, v_ in lin.items() if k_ != 1} == {"%s.size()" % en: 1}
                if not ok:
                    bad = w
            if not writes:
                bad = f.nodes[0]
        else:
            for w in writes:
                lin = codec.linear(w.child("r")) if w.get("k") == "bin" and w["op"] == "=" else None
                if lin is None or lin.get(1) != 1 or {k_: v_ for k_, v_ in lin.items() if k_ != 1} != {"%s.size()" % f.params[0]["n"]: 1}:
                    bad = w
        rs.check(bad is None, site, "%d write(s)" % len(writes), "`size` is also written by `%s`: the packed length no longer equals the sum of (length + 1) over the strings" % (
            expr_str(bad)[:60] if bad is not None else ""), f, bad)
    if n_ct < 2:
        raise AnalysisBroken("R-STRINGLIST-SIZE: only %d StringList constructors instantiated" % n_ct)

    rb = rep.rule("R-BYTE-ASSEMBLY", "where a wider integer is assembled from the bytes of a buffer (`x |= T(p[i]) << k`, `+`), every byte is zero-extended: it "
                                     "goes through unsigned char / uint8_t before it is widened — a plain `char` sign-extends, and any byte >= 0x80 then sets all higher bits", floor=1)
    n_asm = 0
    for f in prog.functions.values():
        if f.is_lambda or not relpath(f.file).startswith(("include/llbuild/", "lib/")):
            continue
        for n in f.nodes:
            if n.get("k") != "bin" or n.get("op") != "<<":
                continue
            l = n.child("l")
            # the operand being shifted: look through parentheses and widening casts down to the byte that is read
            chain = []
            x = l
            while x is not None and x.get("k") in ("cast", "paren", "construct"):
                chain.append(x)
                x = x.child("e") if x.get("k") != "construct" else (arg_nodes(x)[0] if arg_nodes(x) else None)
            if x is None or x.get("k") not in ("index", "un", "call") or not chain:
                continue
            src_t = (x.ctype() or "")
            if src_t.replace("const ", "") not in ("char", "signed char", "unsigned char", "uint8_t"):
                continue
            if "ostream" in (n.ctype() or "") or "raw_" in (n.ctype() or ""):
                continue
            n_asm += 1
            signed_src = src_t.replace("const ", "") in ("char", "signed char")
            through_unsigned = any((c_.ctype() or "").replace("const ", "") in ("unsigned char", "uint8_t") for c_ in chain)
            site = "%s|%s" % (f.name.split("::")[-1] if not f.cls else f.cls.split("::")[-1] + "::" + f.name.split("::")[-1], expr_str(x)[:30])
            rb.check(not signed_src or through_unsigned, site, "", "byte `%s` of type %s is widened to %s without going through unsigned char: a byte >= 0x80 sign-extends into the "
                     "assembled value" % (expr_str(x)[:40], src_t, (chain[0].ctype() or "?")), f, n)
    if n_asm < 1:
        raise AnalysisBroken("R-BYTE-ASSEMBLY: no byte-assembly site found (BinaryDecoder::read16 is expected)")

    rw = rep.rule("R-CODEC-WIDTH", "no coder narrows what it codes: the integer type handed to write()/read() is at least as wide as the member it stands for "
                                   "(an enumeration may be narrowed to a type that holds all its enumerators); a count written through a narrower local loses "
                                   "its high bits on both sides alike, so encoder and decoder still agree", floor=6)
    WIDTH = {"bool": 1, "char": 1, "signed char": 1, "unsigned char": 1, "short": 2, "unsigned short": 2, "int": 4, "unsigned int": 4, "long": 8, "unsigned long": 8,
             "long long": 8, "unsigned long long": 8, "uint8_t": 1, "uint16_t": 2, "uint32_t": 4, "uint64_t": 8, "int8_t": 1, "int16_t": 2, "int32_t": 4, "int64_t": 8, "size_t": 8}

    def width(t):
        t = (t or "").replace("const ", "").replace("&", "").replace("volatile ", "").strip()
        return WIDTH.get(t)

    def enum_fits(t, w):
        t = (t or "").replace("const ", "").replace("&", "").strip()
        for nm, e in prog.enums.items():
            if nm == t or nm.endswith("::" + t.split("::")[-1]) and t.split("::")[-1] == nm.split("::")[-1]:
                vals = [x["v"] for x in e["enumerators"]]
                return bool(vals) and min(vals) >= 0 and max(vals) < 2 ** (8 * w)
        return None
    coders = [prog.fn("buildsystem::BuildValue::toData")] + dec + [senc] + sdec + [d_[k_] for d_ in traits_pairs(prog).values() for k_ in ("encode", "decode") if k_ in d_]
    n_w = 0
    for f in coders:
        env = {}
        for d_ in f.nodes:
            if d_.get("k") == "decl":
                for v in d_.get("vars", []):
                    env[v.get("did")] = v
        for c in f.calls():
            nm = (c.get("fn") or "").split("::")[-1]
            if c.get("k") != "call" or nm not in ("write", "read") or "obj" not in c or strip_casts(c.child("obj")).get("n") not in CODERS:
                continue
            a = arg_nodes(c)[0]
            a0 = strip_casts(a)
            tw = width(f.db_types[c["pt"][0]]) if c.get("pt") else None
            if tw is None or a0 is None:
                continue
            # what the coded local stands for: writer -> its initialiser; reader -> the member it is assigned to afterwards
            srcs = []
            if a0.get("k") == "ref" and a0.get("did") in env:
                v = env[a0["did"]]
                if nm == "write" and "init" in v:
                    srcs = [x for x in f.nodes[v["init"]].walk() if x.get("k") == "member" and x.get("qn")]
                if nm == "read":
                    for n2 in f.nodes:
                        if n2.get("k") == "bin" and n2["op"] == "=" and any(y.get("k") == "ref" and y.get("did") == a0["did"] for y in n2.child("r").walk()):
                            srcs += [x for x in n2.child("l").walk() if x.get("k") == "member" and x.get("qn")]
            elif a0.get("k") == "member":
                srcs = [a0]
            for src in srcs:
                st = src.ctype()
                sw = width(st)
                n_w += 1
                site = "%s|%s %s as %s" % (f.name.split("::")[-1] if f.cls else f.name, nm, src.get("n"), (f.db_types[c["pt"][0]]).replace("const ", "").replace(" &", ""))
                if sw is None:
                    fits = enum_fits(st, tw)
                    if fits is None:
                        n_w -= 1
                        continue
                    rw.check(fits, site, "enum fits", "enumeration %s does not fit the %d-byte type it is coded as" % (st, tw), f, c)
                else:
                    rw.check(sw <= tw, site, "%d <= %d bytes" % (sw, tw), "member %s (%s, %d bytes) is coded as a %d-byte integer: values of 2^%d and above are truncated on both sides" % (
                        src.get("n"), st, sw, tw, 8 * tw), f, c)
    if n_w < 6:
        raise AnalysisBroken("R-CODEC-WIDTH: only %d coded integer members found" % n_w)

    rn = rep.rule("R-CODEC-NUL-SAFE", "inside the key / value / string-list / binary-coding classes no byte string is rebuilt from a bare `const char*` "
                                      "(a C-string constructor, assignment or append stops at the first NUL byte): the only C-string sources are string literals", floor=1)
    STRY = ("basic_string", "StringRef", "KeyType", "SmallString", "Twine", "SmallVector")
    n_sites = 0
    n_lit = 0
    nul_ord = {}
    for f in prog.functions.values():
        if f.is_lambda or not any(f.cls.endswith(c) for c in ("BuildKey", "BuildValue", "StringList", "BinaryEncoder", "BinaryDecoder", "KeyType")) and \
                "BinaryCodingTraits<" not in f.cls:
            continue
        for n in f.nodes:
            if n.get("k") not in ("call", "construct"):
                continue
            fn_ = n.get("fn") or ""
            if not any(t in fn_ for t in STRY):
                continue
            pts = [f.db_types[t] for t in n.get("pt", [])]
            # single `const char *` parameter (two pointers = iterator range: carries its own end)
            cptr = [i for i, t in enumerate(pts) if t.replace(" ", "") in ("constchar*", "constchar*const")]
            if len(cptr) != 1 or len([t for t in pts if "char*" in t.replace(" ", "")]) != 1:
                continue
            if len(pts) >= 2 and any(("size_t" in t or "unsigned long" in t or "size_type" in t) for t in pts):
                continue            # (pointer, length) overload
            nm = fn_.split("::")[-1]
            if nm in ("push_back",) :
                continue
            a = arg_nodes(n)[cptr[0]] if cptr[0] < len(arg_nodes(n)) else None
            if a is None:
                continue
            if f.cls.endswith("KeyType") and f.raw.get("ctor") and f.params and len(f.params) == 1:
                rn.exempt("KeyType(const char*)|definition", "the C-string convenience overload itself; the rule inspects its uses inside the coding classes", f, n)
                continue
            n_sites += 1
            lit = core(a) is not None and core(a).get("k") == "str"
            n_lit += 1 if lit else 0
            # site key without local variable names (stable under renaming): class::function | callee # ordinal within the function
            owner = "%s::%s" % (f.cls.split("::")[-1], f.name.split("::")[-1]) if f.cls else f.name
            ordn = nul_ord.get((f.key, nm), 0)
            nul_ord[(f.key, nm)] = ordn + 1
            site = "%s|%s#%d" % (owner, nm, ordn)
            rn.check(lit, site, "literal", "%s rebuilds a byte string from the C string %s: bytes after an embedded NUL are lost" % (f.name, expr_str(a)[:50]), f, n)
    if n_sites == 0:
        rn.ok("no C-string conversions in the coding classes", "")

    from rules import engine as E_
    E_.r_value_compare(prog, rep)


def E_loops(f, what):
    from rules import engine as E_
    return E_.whole_container_loops(f, what)


def prog_type(f, call):
    pts = call.get("pt", [])
    return f.db_types[pts[0]].replace("const ", "").replace("&", "").strip() if pts else ""


VARIANTS = [
    dict(name="output-count-coded-in-one-byte", file="include/llbuild/BuildSystem/BuildValue.h",
         edits=[("    coder.read(numOutputInfos);\n", "    uint8_t count;\n    coder.read(count);\n    numOutputInfos = count;\n"),
                ("    coder.write(numOutputInfos);\n", "    uint8_t count = uint8_t(numOutputInfos);\n    coder.write(count);\n")],
         expect=("R-CODEC-WIDTH", "numOutputInfos")),
    dict(name="file-size-coded-in-32-bits", file="include/llbuild/Basic/FileInfo.h",
         edits=[("    coder.write(value.size);\n", "    uint32_t sz = uint32_t(value.size);\n    coder.write(sz);\n"), ("    coder.read(value.size);\n", "    uint32_t sz;\n    coder.read(sz);\n    value.size = sz;\n")],
         expect=("R-CODEC-WIDTH", "size")),
    dict(name="fileinfo-missing-sentinel-compact-encoding", file="include/llbuild/Basic/FileInfo.h",
         edits=[("    coder.write(value.device);\n", "    bool isMissing = value.isMissing();\n    coder.write(isMissing);\n    if (isMissing)\n      return;\n    coder.write(value.device);\n"),
                ("    coder.read(value.device);\n", "    bool isMissing;\n    coder.read(isMissing);\n    if (isMissing) {\n      value = FileInfo{};\n      return;\n    }\n    coder.read(value.device);\n")],
         expect=("R-CODEC-COMPLETE", "encode|checksum")),
    dict(name="checksum-half-coded", file="include/llbuild/Basic/FileInfo.h",
         edits=[("    for(int i=0; i<32; i++) {\n      coder.write(value.bytes[i]);", "    for(int i=0; i<16; i++) {\n      coder.write(value.bytes[i]);"),
                ("    for(int i=0; i<32; i++) {\n      coder.read(value.bytes[i]);", "    for(int i=0; i<16; i++) {\n      coder.read(value.bytes[i]);")],
         expect=("R-CODEC-COMPLETE", "bytes")),
    dict(name="modtime-coded-only-when-nonzero-size", file="include/llbuild/Basic/FileInfo.h",
         edits=[("    coder.write(value.modTime);\n", "    if (value.size) coder.write(value.modTime);\n"),
                ("    coder.read(value.modTime);\n", "    if (value.size) coder.read(value.modTime);\n")],
         expect=("R-CODEC-COMPLETE", "modTime")),
    dict(name="fileinfo-decode-order-swapped", file="include/llbuild/Basic/FileInfo.h",
         old="    coder.read(value.device);\n    coder.read(value.inode);", new="    coder.read(value.inode);\n    coder.read(value.device);", expect=("R-CODEC-SHAPE", "Traits<FileInfo>")),
    dict(name="fileinfo-encode-drops-checksum", file="include/llbuild/Basic/FileInfo.h",
         old="    coder.write(value.modTime);\n    coder.write(value.checksum);\n  }", new="    coder.write(value.modTime);\n  }", expect=("R-CODEC-SHAPE", "Traits<FileInfo>")),
    dict(name="value-decoder-signature-guard", file="include/llbuild/BuildSystem/BuildValue.h",
         old="  coder.read(kind);\n  if (kindHasSignature())\n    coder.read(signature);", new="  coder.read(kind);\n  if (kindHasSignature() || kindHasStringList())\n    coder.read(signature);",
         expect=("R-CODEC-SHAPE", "BuildValue")),
    dict(name="value-encoder-count-after-infos", file="include/llbuild/BuildSystem/BuildValue.h",
         old="    coder.write(numOutputInfos);\n    for (uint32_t i = 0; i != numOutputInfos; ++i) {\n      coder.write(getNthOutputInfo(i));\n    }",
         new="    for (uint32_t i = 0; i != numOutputInfos; ++i) {\n      coder.write(getNthOutputInfo(i));\n    }\n    coder.write(numOutputInfos);", expect=("R-CODEC-SHAPE", "BuildValue")),
    dict(name="kind-tag-two-bytes-on-write", file="include/llbuild/BuildSystem/BuildValue.h",
         old="    uint8_t tmp = uint8_t(value);\n    assert(value == Kind(tmp));\n    coder.write(tmp);", new="    uint16_t tmp = uint16_t(value);\n    coder.write(tmp);", expect=("R-CODEC-SHAPE", "Traits<Kind>")),
    dict(name="u32-big-endian-decode", file="include/llbuild/Basic/BinaryCoding.h",
         old="    uint32_t result = read16();\n    result |= uint32_t(read16()) << 16;", new="    uint32_t result = uint32_t(read16()) << 16;\n    result |= read16();", expect=("R-BYTE-ORDER", "u32")),
    dict(name="key-identifier-collision", file="include/llbuild/BuildSystem/BuildKey.h", old="    case Kind::Stat: return 'I';", new="    case Kind::Stat: return 'S';", expect=("R-KIND-TAGS", "BuildKey|")),
    dict(name="key-reverse-map-swapped", file="include/llbuild/BuildSystem/BuildKey.h",
         old="    case 'S': return Kind::DirectoryTreeSignature;\n    case 's': return Kind::DirectoryTreeStructureSignature;",
         new="    case 's': return Kind::DirectoryTreeSignature;\n    case 'S': return Kind::DirectoryTreeStructureSignature;", expect=("R-KIND-TAGS", "BuildKey|DirectoryTreeS")),
    dict(name="key-accessor-offset", file="include/llbuild/BuildSystem/BuildKey.h",
         old="    uint32_t dataSize = key.size() - 1 - sizeof(uint32_t) - nameSize;\n    return StringRef(&key.data()[1 + sizeof(uint32_t) + nameSize], dataSize);\n  }\n  \n  basic::StringList",
         new="    uint32_t dataSize = key.size() - 1 - sizeof(uint32_t) - nameSize;\n    return StringRef(&key.data()[sizeof(uint32_t) + nameSize], dataSize);\n  }\n  \n  basic::StringList",
         expect=("R-KEY-LAYOUT", "getContentExclusionPatterns")),
    dict(name="stringlist-size-32bit-on-read", file="include/llbuild/Basic/StringList.h",
         old="  StringList(basic::BinaryDecoder& decoder) {\n    decoder.read(size);", new="  StringList(basic::BinaryDecoder& decoder) {\n    uint32_t size32;\n    decoder.read(size32);\n    size = size32;",
         expect=("R-CODEC-SHAPE", "StringList")),
    dict(name="benign-timestamp-locals", file="include/llbuild/Basic/FileInfo.h",
         old="    coder.read(value.seconds);\n    coder.read(value.nanoseconds);", new="    auto& s = value.seconds;\n    coder.read(s);\n    coder.read(value.nanoseconds);", expect=None),
    dict(name="structure-signature-kind-out-of-payload-predicate", file="include/llbuild/BuildSystem/BuildValue.h", old="    return isDirectoryTreeSignature() || isDirectoryTreeStructureSignature() ||\n        kind == Kind::SuccessfulCommandWithOutputSignature;",
         new="    return isDirectoryTreeSignature() ||\n        kind == Kind::SuccessfulCommandWithOutputSignature;", expect=("R-KIND-PAYLOAD", "makeDirectoryTreeStructureSignature")),
    dict(name="filtered-contents-out-of-string-list-predicate", file="include/llbuild/BuildSystem/BuildValue.h", old="    return isDirectoryContents() || isFilteredDirectoryContents() || isStaleFileRemoval();",
         new="    return isDirectoryContents() || isStaleFileRemoval();", expect=("R-KIND-PAYLOAD", "makeFilteredDirectoryContents")),
    dict(name="benign-payload-predicate-by-kind-compare", file="include/llbuild/BuildSystem/BuildValue.h", old="    return isDirectoryTreeSignature() || isDirectoryTreeStructureSignature() ||\n        kind == Kind::SuccessfulCommandWithOutputSignature;",
         new="    return kind == Kind::DirectoryTreeSignature || kind == Kind::DirectoryTreeStructureSignature ||\n        kind == Kind::SuccessfulCommandWithOutputSignature;", expect=None),
    dict(name="key-length-prefix-read-with-sign-extension", file="include/llbuild/BuildSystem/BuildKey.h", old="  StringRef getCustomTaskName() const {\n    assert(isCustomTask());\n    uint32_t nameSize;\n    memcpy(&nameSize, &key.data()[1], sizeof(uint32_t));",
         new="  StringRef getCustomTaskName() const {\n    assert(isCustomTask());\n    uint32_t nameSize = 0;\n    for (unsigned i = 0; i != sizeof(uint32_t); ++i)\n      nameSize |= uint32_t(key.data()[1 + i]) << (8 * i);",
         expect=("R-BYTE-ASSEMBLY", "getCustomTaskName")),
    dict(name="empty-list-gets-length-one", file="include/llbuild/Basic/StringList.h", old="    // Make sure to allocate at least 1 byte.\n    char* p = nullptr;\n    contents = p = new char[size + 1];",
         new="    // Make sure to allocate at least 1 byte.\n    if (size == 0)\n      size = 1;\n    char* p = nullptr;\n    contents = p = new char[size + 1];", expect=("R-STRINGLIST-SIZE", "size")),
    dict(name="benign-allocation-size-named", file="include/llbuild/Basic/StringList.h", old="    char* p = nullptr;\n    contents = p = new char[size + 1];", new="    const uint64_t allocated = size + 1;\n    char* p = nullptr;\n    contents = p = new char[allocated];", expect=None),
    dict(name="length-prefixing-write-overload-for-string-refs", file="include/llbuild/Basic/BinaryCoding.h", old="  void write(const std::string& value) {\n    uint32_t size = uint32_t(value.size());\n    assert(size == value.size());\n    write(size);\n    writeBytes(StringRef(value));\n  }",
         new="  void write(const std::string& value) {\n    write(StringRef(value));\n  }\n\n  void write(StringRef value) {\n    uint32_t size = uint32_t(value.size());\n    assert(size == value.size());\n    write(size);\n    writeBytes(value);\n  }",
         expect=("R-KEY-LAYOUT", "payload-raw")),
]
