"""C10 — A failed or cancelled command never feeds dependents and is always retried (structural part)."""
from sa.facts import AnalysisBroken, expr_str, qmatch, strip_casts, relpath, core, expr_plain
from sa import cfg
from sa.cfg import BranchFacts
from sa.flow import arg_nodes

UNITS = ["lib/BuildSystem/ExternalCommand.cpp", "lib/BuildSystem/BuildSystem.cpp", "lib/BuildSystem/ShellCommand.cpp",
         "lib/Commands/BuildSystemCommand.cpp", "products/libllbuild/BuildSystem-C-API.cpp", "lib/BuildSystem/BuildSystemFrontend.cpp",
         "lib/Basic/Subprocess.cpp"]
THOROUGH_ALL_UNITS = False
EXPLANATION = (
    "Sibling cross-check of every Command::getResultForOutput override: failed, propagated-failure and cancelled values map to "
    "a failed input before anything else (delegation to the inherited implementation and the documented phony exception are the "
    "only other shapes); the input-skip decision of ExternalCommand maps a failed input (and a missing input unless allowed) to a "
    "propagated failure and ends in unreachable for anything unlisted; a command with a skip value neither starts nor executes and "
    "reports that value; the process-status switch maps Failed / Cancelled / Succeeded to failed / cancelled / computed results and "
    "nothing else; every Command::isResultValid override rejects a value that is not a successful command before it consults the "
    "file system (or is constantly false, or delegates); produced-node validity rejects failed and missing inputs; a failed result "
    "is reported through hadCommandFailure before the task completes.")
NOT_DECIDED = "transitive non-execution of consumers in a concrete build; convergence after the cause is removed."

FAIL_PREDS = {"isFailedCommand", "isPropagatedFailureCommand", "isCancelledCommand"}
RESULT_EXEMPT = {
    "ParseDummyCommand": "parse-only dummy command of `llbuild buildsystem parse`: never built",
    "CAPIExternalCommand": "",
}


def disjuncts(n):
    n = core(n)
    if n is not None and n.get("k") == "bin" and n["op"] == "||":
        return disjuncts(n.child("l")) + disjuncts(n.child("r"))
    return [n]


def pred_name(n, param):
    n = core(n)
    if n is not None and n.get("k") == "call" and "obj" in n and expr_str(core(n.child("obj"))) == param:
        return (n.get("fn") or "").split("::")[-1]
    return None


def run(ctx):
    prog, rep = ctx.prog, ctx.report

    r = rep.rule("R-FAIL-MAP", "every Command::getResultForOutput override maps failed / propagated-failure / cancelled command values to a failed "
                               "input before anything else, or delegates to an implementation that does", floor=5)
    ovs = [f for f in prog.overriders("Command::getResultForOutput") if f.name.split("::")[-1] == "getResultForOutput"]
    base = [f for f in prog.fns("ExternalCommand::getResultForOutput")]
    for f in sorted(set(ovs + base), key=lambda f: (f.file, f.line)):
        cls = f.cls.split("::")[-1]
        site = "%s::getResultForOutput" % cls
        vparam = f.params[1]["n"] if len(f.params) > 1 else "value"
        rets = [n for n in f.nodes if n.get("k") == "return"]
        # shape (c): stub that is never called / never built
        if any(n.get("k") == "call" and n.get("noret") for n in f.nodes) and not f.calls("makeFailedInput"):
            r.exempt(site, "body is llvm_unreachable: getResultForOutput is never called on this command kind", f)
            continue
        if relpath(f.file) == "lib/Commands/BuildSystemCommand.cpp":
            r.exempt(site, "parse-only dummy command of `llbuild buildsystem parse`: never built", f)
            continue
        # shape (a): whatever else is tested and in whatever form, a value for which one of the three failure predicates holds can only be
        # answered with makeFailedInput() — every `return` reachable with that predicate true (cfg.returns_under) is that one
        if f.calls("makeFailedInput") and not [c for c in f.calls() if c.get("qualified") and (c.get("fn") or "").endswith("::getResultForOutput")]:
            bad = None
            for pred in sorted(FAIL_PREDS):
                env = {"%s.%s()" % (vparam, pred): True}
                for x in cfg.returns_under(f, env):
                    if "makeFailedInput" not in expr_str(x):
                        bad = (pred, x)
                        break
                if bad:
                    break
            r.check(bad is None, site, "failed/propagated/cancelled -> FailedInput first",
                    "a value with %s() can be answered with `%s`" % (bad[0], expr_str(bad[1])[:60]) if bad else "", f, bad[1] if bad else None)
            continue
        # shape (b): delegation to the inherited implementation, with only listed exceptions before it
        deleg = [c for c in f.calls() if c.get("qualified") and (c.get("fn") or "").endswith("::getResultForOutput")]
        if deleg:
            extra = [x for x in rets if not any(y is deleg[0] for y in x.walk())]
            if cls == "PhonyCommand":
                bf = BranchFacts(f, kill="assign")
                ok = all("makeVirtualInput" in expr_str(x) and any(p and "isVirtual" in a for a, p in (bf.at_node(x) or frozenset())) for x in extra)
                r.check(ok, site, "delegates; virtual outputs of phony commands are ordering-only (documented exception)",
                        "phony command returns something else than the inherited result / the virtual-output exception", f)
            else:
                r.check(not extra, site, "delegates", "override returns a value of its own before delegating", f)
            continue
        r.violation(site, "override neither maps failed/propagated/cancelled values to a failed input nor delegates", f)

    r = rep.rule("R-SKIP-MAP", "the input-skip decision maps a failed input to a propagated failure, a missing input too unless allowed, lets the "
                               "listed healthy kinds through and is unreachable for anything else", floor=4)
    pv = prog.fn("ExternalCommand::provideValue")
    lams = [l for l in prog.lambdas_of(pv)]
    dec = [l for l in lams if "Optional<" in l.ret_type() and "BuildValue" in l.ret_type()]
    if len(dec) != 1:
        raise AnalysisBroken("ExternalCommand::provideValue: skip decision lambda not found")
    d = dec[0]
    bf = BranchFacts(d, kill="assign")
    rets = [n for n in d.nodes if n.get("k") == "return"]
    prop = [x for x in rets if "makePropagatedFailureCommand" in expr_str(x)]
    ok_failed = any(any(p and a == "value.isFailedInput()" for a, p in (bf.at_node(x) or frozenset())) for x in prop)
    ok_missing = any(any(p and a == "value.isMissingInput()" for a, p in (bf.at_node(x) or frozenset())) and
                     any((not p) and a == "allowMissingInputs" for a, p in (bf.at_node(x) or frozenset())) for x in prop)
    r.check(ok_failed, "provideValue|failed-input-propagates", "", "a failed input does not make the command skip with a propagated failure", d)
    r.check(ok_missing, "provideValue|missing-input-propagates-unless-allowed", "", "a missing input is not handled as (allowMissingInputs ? run : propagated failure)", d)
    for x in prop:
        st = bf.at_node(x) or frozenset()
        ok = any(p and a in ("value.isFailedInput()", "value.isMissingInput()") for a, p in st)
        r.check(ok, "provideValue|propagated-only-for-failed-or-missing@%s" % nth(d, x), "", "propagated failure returned for another kind of input", d, x)
    none_rets = [x for x in rets if x not in prop]
    healthy = {"isDirectoryTreeSignature", "isDirectoryTreeStructureSignature", "isExistingInput", "isVirtualInput", "isStaleFileRemoval",
               "isMissingOutput", "isMissingInput", "isSkippedCommand"}
    okn = True
    for x in none_rets:
        st = bf.at_node(x) or frozenset()
        pos_atoms = [a for a, p in st if p and a.startswith("value.is")]
        # returned under a positive kind test (the || of several is decomposed by the CFG: the last disjunct decides)
        guarded = any(a[len("value."):-2] in healthy for a in pos_atoms) or any(True for b in d.blocks.values() if False)
        if not guarded:
            # `if (a || b || c) return None`: facts are not derivable from a disjunction; accept when the enclosing if's disjuncts are all healthy kinds
            iff = None
            for a in d.ancestors(x):
                if a.get("k") == "if":
                    iff = a
                    break
            names = set(pred_name(z, "value") for z in disjuncts(iff.child("c"))) if iff is not None else {None}
            guarded = None not in names and names <= healthy
        okn = okn and guarded
    r.check(okn, "provideValue|run-only-for-healthy-kinds", "", "the command is allowed to run for an input kind outside the healthy list", d)
    r.check(any(n.get("k") == "call" and n.get("noret") for n in d.nodes) or any(b.noreturn for b in d.blocks.values()), "provideValue|unlisted-kinds-unreachable", "",
            "an unlisted input kind falls through the skip decision", d)
    st_sk = [n for n in pv.nodes if n.get("k") in ("bin", "call") and n.get("op") == "=" and expr_str(n.child("l") if n.get("k") == "bin" else n.child("obj")) == "skipValue"]
    bfp = BranchFacts(pv, kill="assign")
    r.check(len(st_sk) == 1 and any(p and "hasValue" in a for a, p in (bfp.at_node(st_sk[0]) or frozenset())), "provideValue|skip-value-recorded", "",
            "skipValue is not assigned exactly when the delivered input demands a skip (an unguarded assignment lets a healthy input delivered after a failed one clear the skip)", pv)

    r = rep.rule("R-NO-RUN-WHEN-SKIPPED", "a command holding a skip value reports that value and neither announces a start nor executes", floor=3)
    ex = prog.fn("ExternalCommand::execute")
    bfx = BranchFacts(ex, kill="assign")
    for nm in ("executeExternalCommand", "commandStarted"):
        cs = ex.calls(nm)
        ok = bool(cs) and all(any((not p) and a == "skipValue.hasValue()" for a, p in (bfx.at_node(c) or frozenset())) for c in cs)
        r.check(ok, "execute|%s-not-when-skipped" % nm, "", "%s reachable while a skip value is set" % nm, ex)
    skip_rets = [c for c in ex.nodes if c.get("k") == "call" and c.get("op") == "()" and expr_str(core(c.child("obj"))) == "resultFn" and
                 any(p and a == "skipValue.hasValue()" for a, p in (bfx.at_node(c) or frozenset()))]
    r.check(len(skip_rets) == 1 and "skipValue" in expr_str(arg_nodes(skip_rets[0])[0]), "execute|skip-value-reported", "", "the skipped command does not report its skip value", ex)
    st = ex.nodes
    sp = prog.fn("ExternalCommand::start")
    r.check(any(n.get("k") in ("bin", "call") and n.get("op") == "=" and "skipValue" in expr_str(n) and "None" in expr_str(n) for n in sp.nodes),
            "start|skip-value-reset", "", "skip value of a previous build is not cleared when the command starts", sp)

    r = rep.rule("R-PRIOR-SUCCESS-ONLY", "only a successful prior result enables the update-without-running shortcut (a recorded failure must be retried)", floor=2)
    pp = prog.fn("ExternalCommand::providePriorValue")
    bpp = BranchFacts(pp, kill="assign")
    sets = [n for n in pp.nodes if n.get("k") == "bin" and n["op"] == "=" and expr_str(n.child("l")) == "hasPriorResult"]
    ok = len(sets) == 1 and core(sets[0].child("r")).get("v") is True and any(p and a == "value.isSuccessfulCommand()" for a, p in (bpp.at_node(sets[0]) or frozenset()))
    r.check(ok, "providePriorValue|prior-result-only-if-successful", "", "hasPriorResult is set for a prior value that is not a successful command", pp)
    sc = [b for b in ex.blocks.values() if b.cond() is not None and "hasPriorResult" in expr_str(b.cond())]
    upd = [c for c in ex.nodes if c.get("k") == "call" and c.get("op") == "()" and expr_str(core(c.child("obj"))) == "resultFn" and
           any(p and a == "hasPriorResult" for a, p in (bfx.at_node(c) or frozenset()))]
    ok = len(upd) == 1 and any(p and a == "canUpdateIfNewer" for a, p in (bfx.at_node(upd[0]) or frozenset())) and \
        any(p and "canUpdateIfNewerWithResult" in a for a, p in (bfx.at_node(upd[0]) or frozenset()))
    r.check(ok, "execute|shortcut-needs-prior-success", "", "the update-without-running shortcut is not guarded by canUpdateIfNewer && hasPriorResult && canUpdateIfNewerWithResult", ex)
    writers = set()
    for g_ in prog.functions.values():
        if g_.cls.endswith("ExternalCommand"):
            for n in g_.nodes:
                if n.get("k") == "bin" and n["op"] == "=" and expr_str(n.child("l")) == "hasPriorResult" and core(n.child("r")).get("v") is True:
                    writers.add(g_.name.split("::")[-1])
    r.check(writers == {"providePriorValue"}, "hasPriorResult|single-writer", "", "hasPriorResult is set to true in %s" % sorted(writers))

    from rules import C16
    C16.r_status_decode(prog, rep)       # exit status / signal -> ProcessStatus: the stage before the map below

    r = rep.rule("R-STATUS-MAP", "the process status maps Failed -> failed command, Cancelled -> cancelled command, Succeeded -> computed result; nothing "
                                 "else reports a result", floor=3)
    lam = [l for l in prog.lambdas_of(ex) if l.params and "ProcessResult" in l.param_type(0)]
    if len(lam) != 1:
        raise AnalysisBroken("ExternalCommand::execute: status continuation not found")
    l = lam[0]
    bfl = BranchFacts(l, kill="assign")
    want = {"Failed": "makeFailedCommand", "Cancelled": "makeCancelledCommand", "Succeeded": "computeCommandResult"}
    seen = {}
    for c in l.nodes:
        if c.get("k") == "call" and c.get("op") == "()" and expr_str(core(c.child("obj"))) == "resultFn":
            st = bfl.at_node(c) or frozenset()
            cases = cfg.established_cases(st, want)
            val = expr_str(arg_nodes(c)[0])
            for cs in cases or ["?"]:
                seen[cs] = val
    for status, maker in want.items():
        r.check(status in seen and maker in seen[status], "execute|status %s" % status, "-> %s" % maker, "status %s reports %s" % (status, seen.get(status)), l)
    r.check(set(seen) == set(want), "execute|no-other-status-reports", "", "results are reported for statuses %s" % sorted(seen), l)

    r = rep.rule("R-VALID-REJECTS", "every Command::isResultValid override returns false for a value that is not a successful command before it looks at "
                                    "the file system (or is constantly false, or delegates); produced-node validity rejects failed and missing inputs", floor=6)
    vovs = [f for f in prog.overriders("Command::isResultValid") if f.name.split("::")[-1] == "isResultValid"]
    vovs += prog.fns("ExternalCommand::isResultValid")
    for f in sorted(set(vovs), key=lambda f: (f.file, f.line)):
        cls = f.cls.split("::")[-1]
        site = "%s::isResultValid" % cls
        rets = [n for n in f.nodes if n.get("k") == "return"]
        if rets and all(core(x.child("e")).get("k") == "bool" and core(x.child("e"))["v"] is False for x in rets):
            r.ok(site, "constantly false (always re-run)", f)
            continue
        if cls == "CAPIExternalCommand":
            r.exempt(site, "decision delegated to the client's is_result_valid callbacks, falling back to ExternalCommand::isResultValid", f)
            continue
        vparam = [p["n"] for p in f.params if "BuildValue" in f.db_types[p["t"]]]
        vp = vparam[0] if vparam else "value"
        fs = [c for c in f.calls() if (c.get("fn") or "").split("::")[-1] in ("getFileInfo", "getLinkInfo", "getFileSystem")]
        # with a stored value that is not a successful command the only possible answer is false, and no file-system read is reachable
        # (walk of the body with that predicate fixed; form-independent)
        env = {"%s.isSuccessfulCommand()" % vp: False}
        got = cfg.possible_returns(f, env)
        fsp = set(cfg.pos_of(f, c) for c in fs)
        w = cfg.reach_under(f, env, lambda p, e: p in fsp, lambda p, e: False) if fsp else None
        ok = got == {False} and w is None
        r.check(ok, site, "%d file-system reads, all after the success test" % len(fs), "the stored value can be accepted (or the file system consulted) without value.isSuccessfulCommand()", f)
    for t in ("ProducedNodeTask", "ProducedDirectoryNodeTask"):
        f = prog.fn(t + "::isResultValid")
        vp = f.params[-1]["n"]
        ok = all(cfg.possible_returns(f, {"%s.%s()" % (vp, pred): True}) == {False} for pred in ("isFailedInput", "isMissingInput"))
        r.check(ok, "%s::isResultValid" % t, "", "a failed or missing input can be considered up to date", f)

    r = rep.rule("R-FAIL-REPORT", "a failed command result reaches hadCommandFailure before the task completes; the frontend counts it, resets the count only at build start, answers build() from the counts, and the command line tool turns a failed build into a non-zero exit", floor=6)
    ct = prog.fn("CommandTask::inputsAvailable")
    found = False
    for l in prog.lambdas_of(ct):
        hf = l.calls("hadCommandFailure")
        comp = l.calls("TaskInterface::complete")
        if hf and comp and l.params:
            rv0 = l.params[-1]["n"]
            hfp0 = set(cfg.pos_of(l, c) for c in hf)
            cps0 = set(cfg.pos_of(l, c) for c in comp)
            # with a failed result, complete() is not reachable without passing the report (whatever else the condition mentions)
            found = cfg.reach_under(l, {"%s.isFailedCommand()" % rv0: True}, lambda p, e: p in cps0, lambda p, e: p in hfp0) is None
            if found:
                break
    r.check(found, "CommandTask|failure-reported-before-complete", "", "a failed command completes without hadCommandFailure", ct)
    # ... and so does a command that ended `cancelled` while the build itself was not being cancelled (its process was killed from outside —
    # the out-of-memory killer, `kill -9`): it did not do its work, its consumers are skipped, and build() answers from the failure count alone
    killed = None
    for l in prog.lambdas_of(ct):
        comp = l.calls("TaskInterface::complete")
        if not comp or not l.params:
            continue
        rv = l.params[-1]["n"]
        tiname = "ti"
        hfp = set(cfg.pos_of(l, c) for c in l.calls("hadCommandFailure"))
        cps = set(cfg.pos_of(l, c) for c in comp)
        env = {"%s.isFailedCommand()" % rv: False, "%s.isCancelledCommand()" % rv: True, "%s.isCancelled()" % tiname: False,
               "%s.isSuccessfulCommand()" % rv: False, "%s.isSkippedCommand()" % rv: False, "%s.isPropagatedFailureCommand()" % rv: False}
        w = cfg.reach_under(l, env, lambda p, e: p in cps, lambda p, e: p in hfp)
        killed = (l, w, comp[0])
        # the same walk must find the report for a plain failure: otherwise the environment's spelling does not match this lambda
        env_f = dict(env); env_f["%s.isFailedCommand()" % rv] = True; env_f["%s.isCancelledCommand()" % rv] = False
        if cfg.reach_under(l, env_f, lambda p, e: p in cps, lambda p, e: p in hfp) is not None:
            killed = None
            continue
        break
    if killed is None and found:
        raise AnalysisBroken("CommandTask::inputsAvailable: completion lambda with complete()/hadCommandFailure() not recognised")
    if killed is None:
        killed = (ct, [0], None)      # nothing is reported at all (already a violation above): the killed command is not reported either
    r.check(killed[1] is None, "CommandTask|killed-command-reported", "", "a command whose process ended `cancelled` while the build was not cancelled completes without "
            "hadCommandFailure: its consumers are skipped and the build is declared successful", killed[0], killed[2])
    # the frontend counts the failure, resets the count only when a build starts, and both build() flavours answer from the counts
    FE = "lib/BuildSystem/BuildSystemFrontend.cpp"
    hcf = [f for f in prog.functions.values() if relpath(f.file) == FE and f.name.endswith("BuildSystemFrontendDelegate::hadCommandFailure")]
    def is_inc(n):
        return n is not None and "numFailedCommands" in expr_str(n) and (
            (n.get("k") == "un" and "++" in n.get("op", "")) or (n.get("k") == "call" and ((n.get("fn") or "").endswith("operator++") or (n.get("fn") or "").endswith("fetch_add"))) or
            (n.get("k") in ("bin", "call") and n.get("op") == "+="))
    ok = len(hcf) == 1 and cfg.must_pass_through(hcf[0], cfg.entry_pos(hcf[0]), lambda p, e: is_inc(cfg.elem_node(hcf[0], e)))[0]
    r.check(ok, "hadCommandFailure|counts", "", "hadCommandFailure does not unconditionally increment the failed-command count", hcf[0] if hcf else None)
    getter = [f for f in prog.functions.values() if relpath(f.file) == FE and f.name.endswith("BuildSystemFrontendDelegate::getNumFailedCommands")]
    okg = len(getter) == 1 and any(x.get("k") == "return" and "numFailedCommands" in expr_str(x) for x in getter[0].nodes)
    r.check(okg, "getNumFailedCommands|returns-count", "", "getNumFailedCommands does not return the count", getter[0] if getter else None)
    writers = []
    for f in prog.functions.values():
        if relpath(f.file) != FE:
            continue
        for n in f.nodes:
            if n.get("k") in ("bin", "call") and n.get("op") == "=" and "numFailedCommands" in expr_str(n.child("l") if n.get("k") == "bin" else n.child("obj")):
                writers.append(f.name.split("::")[-1])
    r.check(sorted(set(writers)) in (["initialize"], ["resetForBuild"], ["initialize", "resetForBuild"]) or len(set(writers)) == 1, "numFailedCommands|reset-only-at-build-start",
            "%s" % sorted(set(writers)), "the failed-command count is reset in %s" % sorted(set(writers)))
    builds = [f for f in prog.functions.values() if relpath(f.file) == FE and not f.is_lambda and f.name.endswith("BuildSystemFrontendImpl::build")]
    n_b = 0
    for f in builds:
        rets = [x for x in f.nodes if x.get("k") == "return"]
        bfb = BranchFacts(f, kill="assign")
        from sa.cfg import cond_atoms
        okb = bool(rets)
        n_true = 0
        for x in rets:
            e_ = x.child("e")
            if core(e_).get("v") is False:
                continue
            n_true += 1
            # whatever this return can yield as `true`, it is established (by the path or by the returned expression itself) that no command
            # failed and no error was reported
            atoms = set(a for a, p in (bfb.at_node(x) or frozenset()) if p) | set(a for a, p in cond_atoms(e_, True) if p)
            nf = any("getNumFailedCommands()" in a and "==" in a and "0" in a for a in atoms)
            ne = any("getNumErrors()" in a and "==" in a and "0" in a for a in atoms)
            okb = okb and nf and ne
        okb = okb and n_true >= 1
        n_b += 1
        r.check(okb, "frontend build(%s)|success-needs-zero-failures" % (f.params[0]["n"] if f.params else ""), "",
                "BuildSystemFrontend::build can return true although a command failed or an error was reported", f)
    if n_b < 1:
        raise AnalysisBroken("BuildSystemFrontendImpl::build not found")
    cli = [f for f in prog.functions.values() if relpath(f.file) == "lib/Commands/BuildSystemCommand.cpp" and not f.is_lambda and any(
        (c.get("fn") or "").endswith("BuildSystemFrontend::build") for c in f.calls())]
    okc = False
    for f in cli:
        bf_ = BranchFacts(f, kill="assign")
        for x in f.nodes:
            if x.get("k") == "return" and core(x.child("e")).get("k") == "int" and core(x.child("e")).get("v") != 0 and \
                    any((not p) and "frontend.build" in a for a, p in (bf_.at_node(x) or frozenset())):
                okc = True
    r.check(okc, "llbuild buildsystem build|non-zero-exit-on-failure", "", "the command line tool does not exit non-zero when BuildSystemFrontend::build fails", cli[0] if cli else None)


def nth(f, n):
    same = [x for x in f.nodes if x.get("k") == n.get("k") and expr_str(x) == expr_str(n)]
    same.sort(key=lambda x: x["id"])
    return same.index(n)


VARIANTS = [
    dict(name="frontend-ignores-failed-commands", file="lib/BuildSystem/BuildSystemFrontend.cpp",
         old="    return !cancelled && delegate.getNumFailedCommands() == 0\n        && delegate.getNumErrors() == 0;", new="    return !cancelled && delegate.getNumErrors() == 0;",
         expect=("R-FAIL-REPORT", "success-needs-zero-failures")),
    dict(name="failure-counted-only-when-not-cancelled", file="lib/BuildSystem/BuildSystemFrontend.cpp",
         old="  // Increment the failed command count.\n  ++impl->numFailedCommands;", new="  // Increment the failed command count.\n  if (impl->numErrors == 0) ++impl->numFailedCommands;",
         expect=("R-FAIL-REPORT", "hadCommandFailure|counts")),
    dict(name="cli-exits-zero-on-failed-build", file="lib/Commands/BuildSystemCommand.cpp", old="                     \" command failures\");\n    }\n\n    return 1;", new="                     \" command failures\");\n    }\n\n    return 0;",
         expect=("R-FAIL-REPORT", "non-zero-exit-on-failure")),
    dict(name="prior-failure-enables-shortcut", file="lib/BuildSystem/ExternalCommand.cpp", old="  if (value.isSuccessfulCommand()) {\n    hasPriorResult = true;",
         new="  if (!value.isInvalid()) {\n    hasPriorResult = true;", expect=("R-PRIOR-SUCCESS-ONLY", "prior-result-only-if-successful")),
    dict(name="symlink-cancelled-not-failed-input", file="lib/BuildSystem/BuildSystem.cpp",
         old="    // If the value was a failed command, propagate the failure.\n    if (value.isFailedCommand() || value.isPropagatedFailureCommand() ||\n        value.isCancelledCommand())\n      return BuildValue::makeFailedInput();\n    if (value.isSkippedCommand())\n      return BuildValue::makeSkippedCommand();\n\n    // Otherwise, we should have a successful command -- return the actual\n    // result for the output.\n    assert(value.isSuccessfulCommand());\n\n    auto info = value.getOutputInfo();",
         new="    // If the value was a failed command, propagate the failure.\n    if (value.isFailedCommand() || value.isPropagatedFailureCommand())\n      return BuildValue::makeFailedInput();\n    if (value.isSkippedCommand())\n      return BuildValue::makeSkippedCommand();\n\n    // Otherwise, we should have a successful command -- return the actual\n    // result for the output.\n    assert(value.isSuccessfulCommand());\n\n    auto info = value.getOutputInfo();",
         expect=("R-FAIL-MAP", "SymlinkCommand")),
    dict(name="external-virtual-before-failure-test", file="lib/BuildSystem/ExternalCommand.cpp",
         edits=[("  auto buildNode = static_cast<BuildNode*>(node);\n  if (buildNode->isVirtual() && !buildNode->isCommandTimestamp()) {\n    return BuildValue::makeVirtualInput();\n  }\n    \n  // Find the index", "  // Find the index"),
                ("  // If the value was a failed or cancelled command, propagate the failure.\n  if (value.isFailedCommand()", "  auto buildNode = static_cast<BuildNode*>(node);\n  if (buildNode->isVirtual() && !buildNode->isCommandTimestamp()) {\n    return BuildValue::makeVirtualInput();\n  }\n  if (value.isFailedCommand()")],
         expect=("R-FAIL-MAP", "ExternalCommand")),
    dict(name="failed-input-does-not-skip", file="lib/BuildSystem/ExternalCommand.cpp",
         old="    // Propagate failure.\n    if (value.isFailedInput())\n      return BuildValue::makePropagatedFailureCommand();", new="    // Propagate failure.\n    if (value.isFailedInput())\n      return llvm::None;",
         expect=("R-SKIP-MAP", "failed-input-propagates")),
    dict(name="missing-input-always-allowed", file="lib/BuildSystem/ExternalCommand.cpp",
         old="      if (allowMissingInputs)\n        return llvm::None;\n      else\n        return BuildValue::makePropagatedFailureCommand();", new="      return llvm::None;",
         expect=("R-SKIP-MAP", "missing-input-propagates-unless-allowed")),
    dict(name="skipped-command-still-starts", file="lib/BuildSystem/ExternalCommand.cpp",
         edits=[("  // Invoke the external command.\n  system.getDelegate().commandStarted(this);\n", "  // Invoke the external command.\n"),
                ("  // If this command should be skipped, do nothing.\n  if (skipValue.hasValue()) {", "  system.getDelegate().commandStarted(this);\n  if (skipValue.hasValue()) {")],
         expect=("R-NO-RUN-WHEN-SKIPPED", "commandStarted-not-when-skipped")),
    dict(name="cancelled-status-as-success", file="lib/BuildSystem/ExternalCommand.cpp",
         old="    case ProcessStatus::Cancelled:\n      resultFn(BuildValue::makeCancelledCommand());", new="    case ProcessStatus::Cancelled:\n      resultFn(computeCommandResult(system, ti));",
         expect=("R-STATUS-MAP", "status Cancelled")),
    dict(name="external-valid-ignores-kind", file="lib/BuildSystem/ExternalCommand.cpp",
         old="  // If the prior value wasn't for a successful command, recompute.\n  if (!value.isSuccessfulCommand())\n    return false;\n    \n  // Check the timestamps", new="  // Check the timestamps",
         expect=("R-VALID-REJECTS", "ExternalCommand::isResultValid")),
    dict(name="produced-node-accepts-failed-input", file="lib/BuildSystem/BuildSystem.cpp",
         old="    if (value.isFailedInput())\n      return false;\n\n    // If the result was previously a missing input, it may have been because\n    // we did not previously know how to produce this node. We do now, so\n    // attempt to build it now.\n    if (value.isMissingInput())\n      return false;\n\n    // The produced node result itself doesn't need any synchronization.\n    return true;",
         new="    if (value.isMissingInput())\n      return false;\n\n    // The produced node result itself doesn't need any synchronization.\n    return true;",
         expect=("R-VALID-REJECTS", "ProducedNodeTask")),
    dict(name="failure-not-counted", file="lib/BuildSystem/BuildSystem.cpp",
         old="        if (result.isFailedCommand() ||\n            (result.isCancelledCommand() && !ti.isCancelled())) {\n          getBuildSystem(ti).getDelegate().hadCommandFailure();\n        }\n        ti.complete(result.toData());", new="        ti.complete(result.toData());",
         expect=("R-FAIL-REPORT", "CommandTask")),
    dict(name="killed-command-not-counted", file="lib/BuildSystem/BuildSystem.cpp", old="        if (result.isFailedCommand() ||\n            (result.isCancelledCommand() && !ti.isCancelled())) {", new="        if (result.isFailedCommand()) {",
         expect=("R-FAIL-REPORT", "killed-command-reported")),
    dict(name="benign-failure-report-as-two-ifs", file="lib/BuildSystem/BuildSystem.cpp", old="        if (result.isFailedCommand() ||\n            (result.isCancelledCommand() && !ti.isCancelled())) {\n          getBuildSystem(ti).getDelegate().hadCommandFailure();\n        }",
         new="        const bool killed = result.isCancelledCommand() && !ti.isCancelled();\n        if (result.isFailedCommand()) {\n          getBuildSystem(ti).getDelegate().hadCommandFailure();\n        } else if (killed) {\n          getBuildSystem(ti).getDelegate().hadCommandFailure();\n        }", expect=None),
]
