"""R-INPUT-IDS — a task's input IDs are a private code between its request() calls and its provideValue():
every ID expression a task passes to request() lands in exactly one branch of provideValue's dispatch on inputID (for every
value of its loop variable and every list size), and the index that branch recovers from inputID is the variable the request
was built from.  Two requests whose ID ranges can meet deliver one input's value into another input's slot.

Linear forms over: integer constants, one list size N (all `.size()` symbols of a class are identified: the lists grow in
step), one range variable v in [0, N).  A comparison is decided always / never / sometimes by interval reasoning on
p + q*N (N >= 1); nothing is executed and no solver is involved."""
from sa.facts import AnalysisBroken, expr_str, core, relpath, expr_plain, strip_casts
from sa.codec import linear
from sa.flow import arg_nodes

ALWAYS, NEVER, SOMETIMES = "always", "never", "sometimes"


def _norm(form):
    """{sym: coef} -> (a, b, c, vname, unknown) for a + b*N + c*v"""
    a = form.get(1, 0)
    b = 0
    c = 0
    vname = None
    unknown = []
    for s, k in form.items():
        if s == 1 or k == 0:
            continue
        if isinstance(s, str) and s.endswith(".size()"):
            b += k
        elif vname is None or vname == s:
            vname = s
            c += k
        else:
            unknown.append(s)
    return a, b, c, vname, unknown


def _min_max_sign(d):
    """d = a + bN + cv, N>=1, 0<=v<=N-1.  returns (min>=0 always?, max<0 always?, identically zero?)"""
    a, b, c, _v, unknown = _norm(d)
    if unknown:
        return None
    # minimise over v
    if c >= 0:
        pmin, qmin = a, b            # v = 0
        pmax, qmax = a - c, b + c    # v = N-1
    else:
        pmin, qmin = a - c, b + c
        pmax, qmax = a, b
    nonneg = qmin >= 0 and pmin + qmin >= 0          # min over N>=1 of pmin + qmin*N  >= 0
    neg = qmax <= 0 and pmax + qmax < 0              # max over N>=1 < 0
    zero = a == 0 and b == 0 and c == 0
    return nonneg, neg, zero


def _sub(x, y):
    out = dict(x)
    for s, k in y.items():
        out[s] = out.get(s, 0) - k
    return out


def decide_cmp(op, lhs, rhs):
    """truth of `lhs op rhs` for all admissible N, v"""
    if lhs is None or rhs is None:
        return SOMETIMES
    if op in (">=", "<"):
        r = _min_max_sign(_sub(lhs, rhs))       # lhs - rhs >= 0 ?
        if r is None:
            return SOMETIMES
        nonneg, neg, _z = r
        t = ALWAYS if nonneg else (NEVER if neg else SOMETIMES)
        return t if op == ">=" else {ALWAYS: NEVER, NEVER: ALWAYS, SOMETIMES: SOMETIMES}[t]
    if op in ("<=", ">"):
        return decide_cmp(">=" if op == "<=" else "<", rhs, lhs)
    if op in ("==", "!="):
        r = _min_max_sign(_sub(lhs, rhs))
        r2 = _min_max_sign(_sub(rhs, lhs))
        if r is None or r2 is None:
            return SOMETIMES
        if r[2]:
            t = ALWAYS
        elif r[1] or r2[1]:      # lhs-rhs < 0 always, or rhs-lhs < 0 always
            t = NEVER
        else:
            t = SOMETIMES
        return t if op == "==" else {ALWAYS: NEVER, NEVER: ALWAYS, SOMETIMES: SOMETIMES}[t]
    return SOMETIMES


def decide(fn, cond, idform):
    """truth of a dispatch condition when inputID := idform"""
    n = core(cond)
    if n is None:
        return SOMETIMES
    k = n.get("k")
    if k == "un" and n.get("op") == "!":
        return {ALWAYS: NEVER, NEVER: ALWAYS, SOMETIMES: SOMETIMES}[decide(fn, n.child("e"), idform)]
    if k == "bin" and n.get("op") in ("&&", "||"):
        a, b = decide(fn, n.child("l"), idform), decide(fn, n.child("r"), idform)
        if n["op"] == "&&":
            if NEVER in (a, b):
                return NEVER
            return ALWAYS if a == b == ALWAYS else SOMETIMES
        if ALWAYS in (a, b):
            return ALWAYS
        return NEVER if a == b == NEVER else SOMETIMES
    if k == "bin" and n.get("op") in ("==", "!=", "<", "<=", ">", ">="):
        env = {"inputID": idform}
        return decide_cmp(n["op"], linear(n.child("l"), env), linear(n.child("r"), env))
    return SOMETIMES


def mentions_id(n):
    return n is not None and any(x.get("k") == "ref" and x.get("n") == "inputID" for x in n.walk())


def regions_of(fn):
    """dispatch regions of provideValue: [(guards, nodes)] where guards = [(cond node, polarity)] in order of evaluation."""
    out = []

    def ends_with_return(n):
        if n is None:
            return False
        if n.get("k") == "return":
            return True
        if n.get("k") == "compound" and n.get("ch"):
            return ends_with_return(fn.nodes[n["ch"][-1]])
        return False

    def walk_stmts(stmts, guards):
        region_nodes = []
        i = 0
        while i < len(stmts):
            st = stmts[i]
            if st.get("k") == "switch" and mentions_id(st.child("c")) and strip_casts(st.child("c")) is not None and strip_casts(st.child("c")).get("n") == "inputID":
                # switch (inputID) { case K: ...; default: ... }  -- each case is a region `inputID == K`, the default the negation of all of them
                body = st.child("body")
                kids = [fn.nodes[c] for c in body.get("ch", [])] if body is not None and body.get("k") == "compound" else []
                vals, groups, cur = [], [], None
                for kid in kids:
                    k2 = kid
                    labels = []
                    while k2 is not None and k2.get("k") in ("case", "default"):
                        labels.append(("default", None) if k2.get("k") == "default" else ("case", k2.get("v")))
                        k2 = k2.child("sub")
                    if labels:
                        cur = {"labels": labels, "stmts": []}
                        groups.append(cur)
                        vals += [v for t_, v in labels if t_ == "case"]
                    if cur is not None and k2 is not None and k2.get("k") != "break":
                        cur["stmts"].append(k2)
                for gq in groups:
                    for t_, v in gq["labels"]:
                        g2 = guards + ([("eq", v, True)] if t_ == "case" else [("eq", v2, False) for v2 in vals])
                        sub = []
                        for s2 in gq["stmts"]:
                            sub += [fn.nodes[c] for c in s2.get("ch", [])] if s2.get("k") == "compound" else [s2]
                        walk_stmts([x for x in sub if x.get("k") != "break"], g2)
            elif st.get("k") == "if" and mentions_id(st.child("c")):
                c = st.child("c")
                walk_block(st.child("then"), guards + [(c, True)])
                if "else" in st and st.child("else") is not None:
                    walk_block(st.child("else"), guards + [(c, False)])
                    if ends_with_return(st.child("then")) and ends_with_return(st.child("else")):
                        return
                    if ends_with_return(st.child("then")):
                        guards = guards + [(c, False)]
                elif ends_with_return(st.child("then")):
                    # flush what was collected under the old guards, continue under the negated guard
                    if region_nodes:
                        out.append((list(guards), region_nodes))
                        region_nodes = []
                    guards = guards + [(c, False)]
            else:
                region_nodes.append(st)
            i += 1
        if region_nodes:
            out.append((list(guards), region_nodes))

    def walk_block(n, guards):
        if n is None:
            return
        if n.get("k") == "compound":
            walk_stmts([fn.nodes[c] for c in n.get("ch", [])], guards)
        else:
            walk_stmts([n], guards)
    walk_block(fn.body, [])
    return out


def decode_offsets(fn, nodes):
    """how a region turns inputID into an index: list of linear offsets `off` with index = inputID - off (bare use: off 0)"""
    offs = []
    for st in nodes:
        for x in st.walk():
            if x.get("k") == "ref" and x.get("n") == "inputID":
                # climb while the parent is +/- arithmetic or a cast
                cur = x
                while True:
                    p = fn.parent_of(cur)
                    if p is not None and (p.get("k") == "cast" or (p.get("k") == "bin" and p.get("op") in ("+", "-"))):
                        cur = p
                    else:
                        break
                form = linear(cur, {"inputID": {"inputID": 1}})
                if form is None or form.get("inputID") != 1:
                    offs.append(None)
                    continue
                off = {s: -k for s, k in form.items() if s != "inputID"}
                offs.append(off)
    return offs


def run_rule(prog, rep, unit="lib/BuildSystem/BuildSystem.cpp", floor=6):
    r = rep.rule("R-INPUT-IDS", "within a task, every ID passed to request() selects exactly one branch of provideValue's dispatch on inputID for every list "
                                "size and loop index, and that branch recovers the index the request was built from (ID ranges of different "
                                "requests never meet)", floor=floor)
    classes = {}
    for f in prog.functions.values():
        if relpath(f.file) == unit and not f.is_lambda and f.name.split("::")[-1] == "provideValue" and f.cls and f.params:
            pn = [p["n"] for p in f.params]
            if "inputID" in pn and any(x.get("k") == "ref" and x.get("n") == "inputID" for x in f.nodes):
                classes[f.cls] = f
    n_checked = 0
    for cls, pv in sorted(classes.items()):
        short = cls.split("::")[-1]
        meths = [f for f in prog.functions.values() if f.cls == cls and not f.is_lambda]
        reqs = []
        for m in meths:
            for c in m.calls("TaskInterface::request"):
                a = arg_nodes(c)
                if len(a) >= 2 and a[1] is not None:
                    kind = [x.get("fn").split("::")[-1] for x in a[0].walk() if x.get("k") == "call" and (x.get("fn") or "").split("::")[-1].startswith("make")]
                    reqs.append((m, c, kind[0] if kind else "?", linear(a[1])))
        if not reqs:
            continue
        regs = regions_of(pv)
        for m, c, kind, form in reqs:
            site = "%s|%s(%s) id=%s" % (short, kind, m.name.split("::")[-1], expr_plain(arg_nodes(c)[1]))
            if form is None or _norm(form)[4] or any(isinstance(s, str) and not s.endswith(".size()") and s not in ("i", "index", "id") for s in form if s != 1):
                r.exempt(site, "ID is a running counter / non-linear expression: not modelled by the interval reasoning", m, c)
                continue
            n_checked += 1
            landing = []
            bad = None
            for gi, (guards, nodes) in enumerate(regs):
                verdicts = []
                for gd in guards:
                    if len(gd) == 3:
                        _tag, cv, pol = gd
                        v = decide_cmp("==", form, {1: cv})
                    else:
                        cond, pol = gd
                        v = decide(pv, cond, form)
                    if not pol:
                        v = {ALWAYS: NEVER, NEVER: ALWAYS, SOMETIMES: SOMETIMES}[v]
                    verdicts.append(v)
                if NEVER in verdicts:
                    continue
                if SOMETIMES in verdicts:
                    bad = "for some list sizes / indices the ID also satisfies the test at line %s of provideValue (ranges overlap)" % \
                        [(g[0].get("ln") if len(g) == 2 else "switch") for g, v in zip(guards, verdicts) if v == SOMETIMES][0]
                    break
                landing.append((guards, nodes))
            if bad:
                r.violation(site, bad, m, c)
                continue
            if not landing:
                r.ok(site, "no branch consumes this input's value (dependency only)", m, c)
                continue
            # decode agreement in the landing region(s)
            offs = [o for _g, nodes in landing for o in decode_offsets(pv, nodes)]
            a, b, cc, vname, _u = _norm(form)
            ok = True
            why = ""
            for off in offs:
                if off is None:
                    continue
                d = _sub(form, off)
                da, db, dc, dv, du = _norm(d)
                if vname is None:
                    # constant ID: any decode would be meaningless, but none is expected
                    ok, why = False, "constant ID is decoded as an index (inputID - %s)" % off
                elif not (da == 0 and db == 0 and dc == 1 and not du):
                    ok, why = False, "the branch recovers index = inputID - (%s), which is not the %s the ID was built from" % (
                        " + ".join("%s*%s" % (k, s) if s != 1 else str(k) for s, k in sorted(off.items(), key=str)) or "0", vname)
            r.check(ok, site, "lands in one branch; index recovered exactly", why, m, c)
    if n_checked < 4:
        raise AnalysisBroken("R-INPUT-IDS: only %d request sites modelled" % n_checked)
    return r
