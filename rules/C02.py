"""C02 — Work happens at most once per build and only for a true, reported reason."""
from rules import engine as E

UNITS = ["lib/Core/BuildEngine.cpp", "lib/Core/SQLiteBuildDB.cpp"]
THOROUGH_ALL_UNITS = False
EXPLANATION = ("Decides: single guarded call site of Rule::createTask followed by the in-progress transition; the frozen "
               "state-transition table of RuleInfo::state; pairing of every reported run reason with the branch condition "
               "that holds at the report (and of InputRebuilt with the input's rule); order-only requests never reach the "
               "staleness comparison; strict staleness comparison and unchanged-value rule for computedAt.")
NOT_DECIDED = ("over-building on concrete graphs; that the reported reason is true of the actual history beyond the local "
               "pairing of reason and guard.")


def run(ctx):
    prog, rep = ctx.prog, ctx.report
    E.r_create_once(prog, rep)
    E.r_reason_table(prog, rep)
    E.r_orderonly_guard(prog, rep)
    E.r_dep_record(prog, rep)
    E.r_request_flags(prog, rep)
    E.r_singleuse_bits(prog, rep)
    E.r_value_compare(prog, rep)
    E.r_deps_reset(prog, rep)
    E.r_epoch_cmp(prog, rep)
    E.r_epoch_writes(prog, rep)
    E.r_scan_guards(prog, rep)
    E.r_state_order(prog, rep)
    E.r_parallel_vectors(prog, rep)
    E.r_scan_waits(prog, rep)
    E.run_all(prog, rep)        # every other engine rule: this property is anchored in the whole engine
    from rules import C03
    C03.r_sql_columns(prog, rep)


from rules.engine_variants import C02 as VARIANTS  # noqa: E402
