"""C01 — Incremental build result equals a from-scratch build (engine bookkeeping invariants)."""
from rules import engine as E

UNITS = ["lib/Core/BuildEngine.cpp", "lib/Core/SQLiteBuildDB.cpp", "products/libllbuild/BuildDB-C-API.cpp"]
THOROUGH_ALL_UNITS = False
EXPLANATION = ("Decides the epoch / dependency bookkeeping invariants every history relies on: the guards of the "
               "up-to-date verdict, the frozen table of epoch comparisons (strict staleness test with checked operand "
               "roles), who may write builtAt / computedAt / currentEpoch and with what, recording of every requested and "
               "discovered dependency with its flags, FIFO use of the request queues, provenance of every value handed "
               "to a task, single-use clean-up and flag-bit agreement, and the invalid-result window opened by task creation.")
NOT_DECIDED = ("that these invariants suffice for equality with a clean build over all graphs and histories (an inductive "
               "argument over executions); value-dependent dynamic re-wiring; anything about client rules.")


def run(ctx):
    prog, rep = ctx.prog, ctx.report
    E.r_scan_guards(prog, rep)
    E.r_epoch_cmp(prog, rep)
    E.r_epoch_writes(prog, rep)
    E.r_dep_record(prog, rep)
    E.r_discovered_append(prog, rep)
    E.r_fifo(prog, rep)
    E.r_fresh_value(prog, rep)
    E.r_singleuse_bits(prog, rep)
    E.r_request_flags(prog, rep)
    E.r_invalid_window(prog, rep)
    E.r_cancel_clears(prog, rep)      # what a cancelled build leaves in memory is what the next build on this engine starts from
    E.r_cancel_on_exit(prog, rep)
    E.r_prior_value_guard(prog, rep)
    E.r_value_compare(prog, rep)
    E.r_deps_reset(prog, rep)
    E.r_queue_ops(prog, rep)
    from sa.report import run_subset
    from rules import C03
    run_subset(C03, ctx, {"R-DEPBLOB-BITS", "R-DB-LOOKUP-ON-ADD", "R-SQL-LENGTHS", "R-SQL-AFFINITY", "R-DB-VERSION"})     # the stored dependency list is read back as written; stored results are consulted
    E.r_epoch_persist(prog, rep)
    E.r_state_order(prog, rep)
    E.r_parallel_vectors(prog, rep)
    E.r_scan_waits(prog, rep)
    from rules import C03
    C03.r_sql_columns(prog, rep)
    E.r_discovered_demanded(prog, rep)
    E.run_all(prog, rep)        # every other engine rule: this property is anchored in the whole engine


from rules.engine_variants import C01 as VARIANTS  # noqa: E402
