"""C19 — No input file can crash, hang or over-read a parser (structural part)."""
from sa.facts import AnalysisBroken, expr_str, qmatch, strip_casts, relpath
from sa import cfg
from sa.cfg import BranchFacts
from sa.cursor import CursorSpec, analyse
from sa.callgraph import CallGraph

UNITS = ["lib/Ninja/Lexer.cpp", "lib/Ninja/Parser.cpp", "lib/Ninja/ManifestLoader.cpp",
         "lib/Core/MakefileDepsParser.cpp", "lib/Core/DependencyInfoParser.cpp",
         "lib/BuildSystem/BuildFile.cpp"]
THOROUGH_ALL_UNITS = False

EXPLANATION = (
    "Cursor-bounds abstract interpretation (lower bound of limit-cursor in {0,1,2,3+}, refined only by real branch "
    "conditions; asserts are compiled out) over every raw character cursor of the Ninja lexer, the Makefile-deps "
    "parser, the dependency-info parser and the Ninja string evaluator: every *p / p[k] / ++p needs a proven bound. "
    "End-of-file sentinel -1 must not be producible by sign-extending a byte. Input-driven recursion in the manifest "
    "loader must carry a bound. Every loop over a cursor advances on every path back to its head. Every "
    "static_cast to a YAML node class is dominated by the matching kind test on the same expression, and every "
    "YAML iterator dereference by an end test. Every token returned by Lexer::lex has its start set before its "
    "length is computed.")
NOT_DECIDED = ("termination as a run-time fact; memory safety beyond the listed cursor/iterator/cast idioms "
               "(LLVM's YAML parser and StringRef are trusted).")

CURSOR_FILES = ["lib/Ninja/Lexer.cpp", "lib/Core/MakefileDepsParser.cpp", "lib/Core/DependencyInfoParser.cpp"]
CURSOR_EXTRA_FUNCS = ["evalString"]      # in ManifestLoader.cpp


def is_char_ptr(t):
    t = t.replace("const ", "").replace(" ", "")
    return t in ("char*", "char*&", "unsignedchar*", "unsignedchar*&")


def find_cursors(fn):
    """cursor lvalues (canonical string) advanced in fn -> set of limit strings it is compared with"""
    cursors = {}
    for n in fn.nodes:
        tgt = None
        if n.get("k") == "un" and n.get("op") in ("++",):
            tgt = n.child("e")
        elif n.get("k") == "bin" and n.get("op") == "+=":
            tgt = n.child("l")
        if tgt is None:
            continue
        t = strip_casts(tgt)
        if t is not None and t.get("k") in ("ref", "member") and is_char_ptr(t.ctype()):
            cursors.setdefault(expr_str(t), set())
    for cur in list(cursors):
        spec = CursorSpec(cur, None)
        for n in fn.nodes:
            if n.get("k") == "bin" and n.get("op") in ("==", "!=", "<", ">", "<=", ">="):
                l, r = n.child("l"), n.child("r")
                if spec.cursor_plus(l) is not None and is_char_ptr(strip_casts(r).ctype() if strip_casts(r) is not None else ""):
                    cursors[cur].add(expr_str(strip_casts(r)))
                elif spec.cursor_plus(r) is not None and is_char_ptr(strip_casts(l).ctype() if strip_casts(l) is not None else ""):
                    cursors[cur].add(expr_str(strip_casts(l)))
    # a variable initialised from the cursor itself (e.g. wordStart = cur) is a mark, not a limit
    marks = set()
    for n in fn.nodes:
        if n.get("k") == "decl":
            for v in n.get("vars", []):
                if "init" in v and expr_str(strip_casts(fn.nodes[v["init"]])) in cursors:
                    marks.add(v["n"])
    for cur in cursors:
        cursors[cur] -= marks
    return cursors


def member_writers(prog, cls_suffix, member):
    """methods of cls that may modify `member` (directly or through a callee of the same class)."""
    methods = [f for f in prog.functions.values() if qmatch(f.cls, cls_suffix)]
    direct = set()
    for f in methods:
        for n in f.nodes:
            tgt = None
            if n.get("k") == "un" and n.get("op") in ("++", "--"):
                tgt = n.child("e")
            elif n.get("k") == "bin" and n.get("op") in ("=", "+=", "-="):
                tgt = n.child("l")
            if tgt is not None and tgt.get("k") == "member" and tgt.get("n") == member:
                direct.add(f.key)
    changed = True
    while changed:
        changed = False
        for f in methods:
            if f.key in direct:
                continue
            for c in f.calls():
                if c.get("fk") in direct:
                    direct.add(f.key)
                    changed = True
                    break
    return direct



def r_eof_true_end(prog, rep, rule_id="R-EOF-TRUE-END"):
    # ---------------------------------------------------------------- char fetch
    r = rep.rule(rule_id,
                 "a character-fetch function that returns int with -1 as end sentinel never returns a sign-extended "
                 "char (byte 0xFF would read as end-of-file)", floor=2)
    END_EQ = ("(buffer.end() == bufferPos)", "(bufferPos == buffer.end())")

    def leaves(f, e, guards=(), depth=0):
        """the expressions a returned value can come from: arms of ?: (with the condition and arm taken), a local that is initialised
        once and never reassigned (through its initialiser)."""
        e0 = e
        while e0 is not None and e0.get("k") in ("paren", "cleanups"):
            e0 = e0.child("e")
        if e0 is None:
            return []
        inner = strip_casts(e0)
        if inner is not None and inner.get("k") == "cond":
            # an implicit conversion applied to the whole ?: applies to each arm
            out = []
            for arm, pol in (("a", True), ("b", False)):
                for leaf, g in leaves(f, inner.child(arm), guards + ((inner.child("c"), pol),), depth):
                    out.append((leaf if inner is e0 else ("outer-cast", e0, leaf), g))
            return out
        if inner is not None and inner.get("k") == "ref" and inner.get("did") is not None and depth < 3:
            inits = [f.nodes[v["init"]] for d in f.nodes if d.get("k") == "decl" for v in d.get("vars", []) if v.get("did") == inner["did"] and "init" in v]
            writes = [n for n in f.nodes if n.get("k") == "bin" and n.get("op", "").endswith("=") and n["op"] not in ("==", "!=", "<=", ">=") and
                      strip_casts(n.child("l")) is not None and strip_casts(n.child("l")).get("did") == inner["did"]]
            if len(inits) == 1 and not writes and f.db_types[inner["ct"]] == "int" if "ct" in inner else False:
                return leaves(f, inits[0], guards, depth + 1)
        return [(e0, guards)]

    def sign_extends(leaf):
        if isinstance(leaf, tuple):
            _tag, outer, inner = leaf
            return (outer.get("k") == "cast" and outer.get("ck") == "IntegralCast" and outer.tname("fromct") in ("char", "signed char")) or sign_extends(inner)
        return leaf.get("k") == "cast" and leaf.get("ck") == "IntegralCast" and leaf.tname("fromct") in ("char", "signed char")

    def is_sentinel(leaf):
        return not isinstance(leaf, tuple) and is_minus_one(leaf)

    fetchers = 0
    for f in prog.functions.values():
        if not qmatch(f.cls, "llbuild::ninja::Lexer") or f.ret_type() != "int" or f.is_lambda:
            continue
        rets = [n for n in f.nodes if n.get("k") == "return" and "e" in n]
        lv = [(x, leaf, g) for x in rets for leaf, g in leaves(f, x.child("e"))]
        if not any(is_sentinel(leaf) for _x, leaf, _g in lv):
            continue
        fetchers += 1
        bad = [x for x, leaf, _g in lv if sign_extends(leaf)]
        short = f.name.split("::")[-1]
        site = "%s|return" % short
        if bad:
            r.violation(site, "returns a plain char converted to int beside the -1 sentinel: %s" % expr_str(bad[0]), f, bad[0])
        else:
            r.ok(site, "%d returns, %d value sources" % (len(rets), len(lv)), f)
        # the -1 itself is returned only where bufferPos == buffer.end() is established (by a branch, or by the ?: that selects it)
        if short in ("peekNextChar", "getNextChar"):
            bf = BranchFacts(f)
            for x, leaf, g in lv:
                if not is_sentinel(leaf):
                    continue
                st = set(bf.at_node(x) or frozenset())
                for c, pol in g:
                    st |= set(cfg.cond_atoms(c, pol))
                ok = any(a in END_EQ and p for a, p in st) or any(a in ("(buffer.end() != bufferPos)", "(bufferPos != buffer.end())") and not p for a, p in st)
                r.check(ok, "%s|eof-only-at-end" % short, "", "-1 returned on a path where bufferPos == buffer.end() is not established", f, x)
    if fetchers < 2:
        raise AnalysisBroken("R-EOF-TRUE-END: only %d character-fetch functions with a -1 sentinel found (2 confirmed by reading)" % fetchers)




def run(ctx):
    prog, rep = ctx.prog, ctx.report

    # ---------------------------------------------------------------- cursors
    r = rep.rule("R-CURSOR-BOUNDS",
                 "every dereference of a character cursor at offset k is reached only with limit-cursor > k proven by "
                 "branch conditions; every advance with limit-cursor >= step", floor=10)
    targets = []
    for f in prog.functions.values():
        rp = relpath(f.file)
        if rp in CURSOR_FILES or (rp == "lib/Ninja/ManifestLoader.cpp" and f.name.split("::")[-1] in CURSOR_EXTRA_FUNCS):
            targets.append(f)
    lexer_writers = member_writers(prog, "llbuild::ninja::Lexer", "bufferPos")
    total = {"derefs": 0, "increments": 0, "functions": 0}
    rep.extra["cursor_functions"] = []
    for f in sorted(targets, key=lambda f: (f.file, f.line)):
        cursors = find_cursors(f)
        # member cursor of the Lexer is also read in functions that never advance it
        if qmatch(f.cls, "llbuild::ninja::Lexer") and any(n.get("k") == "member" and n.get("n") == "bufferPos" for n in f.nodes):
            cursors.setdefault("bufferPos", set()).add("buffer.end()")
        for cur, limits in sorted(cursors.items()):
            fname = f.name.split("::")[-1] if not f.is_lambda else f.key
            site0 = "%s|%s" % (fname, cur)
            if cur == "bufferPos":
                limits = {"buffer.end()"}
            if len(limits) == 0:
                r.violation(site0 + "|no-limit", "cursor '%s' is advanced but never compared with a limit" % cur, f)
                continue
            if len(limits) > 1:
                raise AnalysisBroken("cursor %s in %s compared with several limits %s" % (cur, f.key, sorted(limits)))
            limit = next(iter(limits))
            sentinel = False
            if fname == "parse" and "DependencyInfoParser" in f.name:
                sentinel = has_nul_sentinel_prologue(f)
            spec = CursorSpec(cur, limit, sentinel)
            mod = None
            if cur == "bufferPos":
                def mod(n, _w=lexer_writers):
                    return n.get("fk") in _w
            findings, stats = analyse(f, spec, modifies_cursor=mod)
            total["functions"] += 1
            total["derefs"] += stats["derefs"]
            total["increments"] += stats["increments"]
            rep.extra["cursor_functions"].append({"function": f.key, "cursor": cur, "limit": limit, "sentinel": sentinel, **stats})
            if not findings:
                r.ok(site0, "%d derefs, %d advances, all bounded" % (stats["derefs"], stats["increments"]), f)
            seen = set()
            for fd in findings:
                # semantic site: function | cursor | kind of access | rendered expression
                site = "%s|%s" % (site0, expr_str(fd.node))
                if site in seen:
                    continue
                seen.add(site)
                r.violation(site, "%s needs limit-cursor >= %s but only >= %d is established on some path" % (
                    fd.what, fd.need, fd.have), f, fd.node)
    rep.extra["cursor_totals"] = total
    if total["derefs"] < 15 or total["increments"] < 15:
        raise AnalysisBroken("cursor analysis saw only %s" % total)

    r_eof_true_end(prog, rep)

    # ---------------------------------------------------------------- recursion
    r = rep.rule("R-RECURSION-BOUND",
                 "every input-driven call-graph cycle of the manifest loader carries a bound (depth counter or visited "
                 "set tested on the cycle)", floor=1)
    cg = CallGraph(prog)
    n_cycles = 0
    for comp in cg.recursive_sccs():
        fns = [prog.functions[k] for k in comp]
        if not any(relpath(f.file).startswith("lib/Ninja/") for f in fns):
            continue
        names = sorted(set(f.name.split("::")[-1] for f in fns if not f.is_lambda))
        kind = None
        if any("evalString" == n_ for n_ in names) and any(n_.startswith("lookupBuildParameter") for n_ in names):
            kind = "variable-expansion"
        elif any(n_ in ("actOnIncludeDecl", "enterFile") for n_ in names):
            kind = "include-nesting"
        else:
            kind = "other:" + ",".join(names)[:60]
        n_cycles += 1
        site = "ninja-loader|%s" % kind
        if kind == "include-nesting":
            r.exempt(site, "each level opens the included file through the delegate; nesting is bounded by the process "
                           "descriptor limit and failure is reported through error(); not claimed as unbounded")
            continue
        bounded = cycle_has_bound(prog, fns)
        if bounded:
            r.ok(site, "bound: %s" % bounded, fns[0])
        else:
            f0 = [f for f in fns if "lookupBuildParameterImpl" in f.name] or fns
            r.violation(site, "recursion cycle {%s} has no depth counter or visited set" % ", ".join(names), f0[0])
    if n_cycles == 0:
        raise AnalysisBroken("no recursive cycle found in the Ninja loader (call graph lost the evalString/lookup cycle)")

    # ---------------------------------------------------------------- progress
    r = rep.rule("R-PROGRESS",
                 "in the cursor functions every cycle of a loop whose exit depends on the cursor passes an advancing "
                 "operation (increment, advancing call) on every path back to the loop head", floor=10)
    for f in sorted(targets, key=lambda f: (f.file, f.line)):
        cursors = find_cursors(f)
        is_lexer = qmatch(f.cls, "llbuild::ninja::Lexer")
        if not cursors and not is_lexer:
            continue
        names = set(cursors) | ({"bufferPos"} if is_lexer else set())

        def advancing(pos, e, f=f, names=names):
            n = cfg.elem_node(f, e)
            if n is None:
                return False
            k = n.get("k")
            if k == "un" and n.get("op") == "++" and expr_str(n.child("e")) in names:
                return True
            if k == "bin" and n.get("op") == "+=" and expr_str(n.child("l")) in names:
                return True
            if k == "call":
                if n.get("fk") in lexer_writers:
                    return True
                pts = n.get("pt", [])
                for i, a in enumerate(n.get("args", [])):
                    if a >= 0 and expr_str(f.nodes[a]) in names and i < len(pts) and "&" in f.db_types[pts[i]]:
                        return True
            return False
        loops = [n for n in f.nodes if n.get("k") in ("while", "for", "do")]
        for lp in loops:
            body = lp.child("body")
            # loop head = first CFG position of the body
            first = first_elem_pos(f, body)
            if first is None:
                continue
            fname = f.name.split("::")[-1]
            site = "%s|loop@%s" % (fname, loop_key(f, lp))
            # exit must depend on the cursor: condition mentions it, or `while(true)`/`for(;;)`
            cond = lp.child("c")
            if cond is not None and cond.get("k") != "bool" and not any(expr_str(x) in names for x in cond.walk()) \
                    and not any(x.get("k") == "call" and x.get("fk") in lexer_writers | {k_ for k_ in prog.functions if k_.endswith("peekNextChar()")} for x in cond.walk()):
                continue
            w = cfg.path_exists(f, (first[0], first[1] - 1), lambda p, e, first=first: p == first, avoid=advancing, include_src=False) \
                if False else cycle_without(f, first, advancing)
            if w is None:
                r.ok(site, "", f, lp)
            else:
                r.violation(site, "a path returns to the loop head without advancing the cursor", f, lp, path=w)

    # ---------------------------------------------------------------- the lexer's loops end at end of input
    r = rep.rule("R-EOF-EXIT", "the lexer's character fetch saturates at the end of the buffer (it returns -1 and does not move), so `getNextChar()` is progress only "
                               "before the end: every lexer loop, walked with the fetched character fixed to the end marker (== -1 true, every other character "
                               "comparison and character-class test false), leaves — otherwise a file that ends inside the construct never finishes loading", floor=6)
    n_loops = 0
    for f in sorted(targets, key=lambda f: (f.file, f.line)):
        if not qmatch(f.cls, "llbuild::ninja::Lexer"):
            continue
        for lp in [n for n in f.nodes if n.get("k") in ("while", "for", "do")]:
            if not any(c.get("k") == "call" and c.get("fk") in lexer_writers for c in lp.walk()):
                continue
            body = lp.child("body")
            first = first_elem_pos(f, body)
            if first is None:
                continue
            env = {}
            scan = list(lp.walk())
            # a character test may sit in a small predicate of the lexer (`isPathStringTerminator(c)`): its comparisons are fixed the same way
            # and the call itself is then evaluated by walking the predicate, not assumed false
            helpers = set()
            for x in lp.walk():
                if x.get("k") == "call" and x.get("fk") in prog.functions and x.get("fk") not in lexer_writers and len(x.get("args", [])) == 1:
                    h_ = prog.functions[x["fk"]]
                    # (a predicate that never mentions the end marker is a plain character class: the marker is not in it)
                    if not h_.is_lambda and len(h_.nodes) < 120 and "peekNextChar" not in h_.name and any(is_minus_one(y) for y in h_.nodes if y.get("k") in ("un", "cast")):
                        helpers.add(h_.key)
                        scan += [y for y in h_.nodes]
            for x in scan:
                if x.get("k") == "bin" and x.get("op") in ("==", "!="):
                    l_, r_ = x.child("l"), x.child("r")
                    for a_, b_ in ((l_, r_), (r_, l_)):
                        sb = strip_casts(b_)
                        if sb is None:
                            continue
                        val = None
                        if is_minus_one(b_):
                            val = True
                        elif sb.get("k") in ("char", "int"):
                            val = False
                        elif "buffer.end()" in expr_str(sb) and "bufferPos" in expr_str(a_):
                            val = True
                        if val is not None:
                            env["(%s == %s)" % (cfg.canon(a_), cfg.canon(b_))] = val
                            env["(%s == %s)" % (cfg.canon(b_), cfg.canon(a_))] = val
                if x.get("k") == "call" and len(x.get("args", [])) == 1 and ((x.get("fn") or "").split("::")[-1].startswith("is")) and x.get("fk") not in helpers:
                    env[cfg.canon(x)] = False        # the end marker is in no character class
            n_loops += 1
            w = cfg.cycle_under(f, first, env)
            site = "%s|loop@%s" % (f.name.split("::")[-1], loop_key(f, lp))
            r.check(w is None, site, "", "with the end marker fetched the loop can go round again: a buffer that ends here is never finished", f, lp)
    if n_loops < 6:
        raise AnalysisBroken("R-EOF-EXIT: only %d consuming loops found in the lexer" % n_loops)

    # ---------------------------------------------------------------- the two whitespace classes agree
    r = rep.rule("R-WS-AGREE", "a string token ends at any isspace() character, so whatever is in that class — and is not a line end — must be skipped between tokens: the "
                               "predicate lex() skips blanks with answers true for a character that is isspace() and is neither '\\n' nor '\\r' nor any character it names "
                               "(form feed, vertical tab).  Otherwise lex() hands such a byte to the string lexer, which stops at once: an empty token, no progress", floor=1)
    wsf = [g for g in prog.functions.values() if g.name.split("::")[-1] == "isNonNewlineSpace" and not g.is_lambda]
    if len(wsf) != 1:
        raise AnalysisBroken("isNonNewlineSpace not found (%d)" % len(wsf))
    wsf = wsf[0]
    env = {}
    for x in wsf.nodes:
        if x.get("k") == "bin" and x.get("op") in ("==", "!="):
            l_, r_ = x.child("l"), x.child("r")
            env["(%s == %s)" % (cfg.canon(l_), cfg.canon(r_))] = False
            env["(%s == %s)" % (cfg.canon(r_), cfg.canon(l_))] = False
        if x.get("k") == "call" and (x.get("fn") or "").split("::")[-1] == "isspace":
            env[cfg.canon(x)] = True
    got = cfg.possible_returns(wsf, env)
    uses = [g for g in prog.functions.values() if qmatch(g.cls, "llbuild::ninja::Lexer") and any((c.get("fn") or "").split("::")[-1] == "isspace" for c in g.calls())]
    r.check(got == {True}, "isNonNewlineSpace|covers-isspace", "%d lexer functions end tokens on isspace()" % len(uses), "for a character that is isspace() but none of the characters "
            "the predicate names, the predicate answers %s: such a byte ends a string token but is not skipped between tokens" % sorted("value-dependent" if v is None else str(v).lower() for v in got), wsf)

    # ---------------------------------------------------------------- token tiling
    r = rep.rule("R-TOKEN-TILING",
                 "every token Lexer::lex returns gets its start assigned before its kind/length is set; length is "
                 "bufferPos - start", floor=5)
    f = prog.fn("Lexer::lex")
    res_did = f.params[0]["did"]

    def sets_start(pos, e):
        n = cfg.elem_node(f, e)
        return n is not None and n.get("k") == "bin" and n["op"] == "=" and n.child("l").get("k") == "member" \
            and n.child("l").get("n") == "start" and expr_str(n.child("r")) == "bufferPos"
    finishers = ("setTokenKind", "lexIdentifier", "lexPathString", "lexVariableString", "setIdentifierTokenKind")
    for c in f.calls():
        nm = (c.get("fn") or "").split("::")[-1]
        if nm not in finishers:
            continue
        p = cfg.pos_of(f, c)
        ok, w = cfg.dominated_by(f, p, sets_start)
        r.check(ok, "lex|%s@%s" % (nm, arg_key(c)), "", "token finished on a path where result.start was not set", f, c, path=w)
    rets = [n for n in f.nodes if n.get("k") == "return"]
    for x in rets:
        e = x.child("e")
        ok = e is not None and e.get("k") == "call" and (e.get("fn") or "").split("::")[-1] in finishers
        r.check(ok, "lex|return@%s" % expr_str(e)[:50], "", "lex returns a token not produced by setTokenKind", f, x)
    stk = prog.fn("Lexer::setTokenKind")
    asg = [n for n in stk.nodes if n.get("k") == "bin" and n["op"] == "=" and n.child("l").get("n") == "length"]
    ok = len(asg) == 1 and expr_str(asg[0].child("r")).replace("cast<unsigned int>", "").strip("()") == "bufferPos - result.start"
    r.check(ok, "setTokenKind|length", "", "token length is not bufferPos - result.start: %s" % (expr_str(asg[0].child("r")) if asg else "none"), stk)

    # ---------------------------------------------------------------- YAML
    yaml_rules(prog, rep)


def arg_key(c):
    a = [expr_str(c.fn.nodes[x]) for x in c.get("args", []) if x >= 0]
    return ",".join(a)[:60]


def loop_key(f, lp):
    """position-free key of a loop: its kind, condition and ordinal among equal ones."""
    k = "%s(%s)" % (lp["k"], expr_str(lp.child("c")) if lp.child("c") is not None else "")
    same = [n for n in f.nodes if n.get("k") == lp["k"] and
            (expr_str(n.child("c")) if n.child("c") is not None else "") == (expr_str(lp.child("c")) if lp.child("c") is not None else "")]
    same.sort(key=lambda n: n.line)
    return "%s#%d" % (k, same.index(lp))


def first_elem_pos(f, stmt):
    pos = f.elem_pos()
    best = None
    for x in stmt.walk():
        p = pos.get(x["id"])
        if p is not None:
            # smallest line / earliest in block order: use (−block id, index) since clang numbers blocks in reverse
            key = (-p[0], p[1])
            if best is None or key < best[0]:
                best = (key, p)
    return best[1] if best else None


def cycle_without(f, head, avoid):
    """path from head back to head that crosses no `avoid` element; None if none."""
    # start after head element
    start = head
    n0 = f.blocks[head[0]].raw_elems[head[1]]
    if avoid(head, n0):
        return None
    return cfg.path_exists(f, start, lambda p, e: p == head, avoid=avoid)


def is_minus_one(n):
    n = strip_casts(n)
    return n is not None and n.get("k") == "un" and n.get("op") == "-" and strip_casts(n.child("e")).get("v") == 1


def has_nul_sentinel_prologue(f):
    """`if (!data.endswith(StringRef("\\0",1))) { …; return; }` dominates the parsing loop."""
    bf = BranchFacts(f, kill="assign")
    loops = [n for n in f.nodes if n.get("k") == "while"]
    if not loops:
        return False
    st = bf.at_node(loops[0].child("c"))
    if st is None:
        return False
    for atom, pol in st:
        if "endswith" in atom and pol:
            # the literal must be the one-byte NUL string
            for n in f.nodes:
                if n.get("k") == "call" and (n.get("fn") or "").endswith("endswith"):
                    for x in n.walk():
                        if x.get("k") == "str" and x.get("len") == 1:
                            return True
    return False


def cycle_has_bound(prog, fns):
    """A recursion bound is *state that outlives one activation* (a field reached
    through a pointer/reference parameter, `this`, or a global — never a local
    of the recursive function) which (1) some function of the cycle grows
    (++, push_back, insert, emplace) and (2) a branch in the same function
    tests, with (3) an arm of that branch leaving the function before the
    recursive call.  Locals such as the scan cursor do not qualify: they are
    fresh in every activation."""
    keys = set(f.key for f in fns)

    def persistent_name(x):
        # member expression whose base is not a by-value local
        x = strip_casts(x)
        if x is None or x.get("k") != "member":
            return None
        b = strip_casts(x.child("b"))
        if b is None:
            return None
        if b.get("k") == "this":
            return x.get("qn")
        if b.get("k") == "ref" and (b.get("dk") == "param" or b.get("dk") == "global"):
            t = b.ctype()
            if t.endswith("*") or t.endswith("&") or b.get("dk") == "global":
                return x.get("qn")
        if b.get("k") == "member":
            return persistent_name(b) and x.get("qn")
        return None

    for f in fns:
        grown = {}
        for n in f.nodes:
            if n.get("k") == "un" and n.get("op") == "++":
                q = persistent_name(n.child("e"))
                if q:
                    grown[q] = n
            if n.get("k") == "call" and (n.get("fn") or "").split("::")[-1] in ("insert", "push_back", "emplace", "emplace_back") and "obj" in n:
                q = persistent_name(n.child("obj"))
                if q:
                    grown[q] = n
        if not grown:
            continue
        rec_calls = [c for c in f.nodes if c.get("k") == "call" and (
            c.get("fk") in keys or any(a >= 0 and any(x.get("k") == "ref" and x.get("fk") in keys for x in f.nodes[a].walk())
                                       for a in c.get("args", [])))]
        for b in f.blocks.values():
            c = b.cond()
            if c is None or len(b.succs) != 2:
                continue
            tested = [q for q in grown if any(x.get("k") == "member" and x.get("qn") == q for x in c.walk())]
            # a container that records the active set bounds the recursion only if the test looks at ALL of it (membership: find / count /
            # contains over the whole container, or its size against a limit); peeking at one element (back(), front(), [i]) or empty() does not
            def whole(q):
                if grown[q].get("k") == "un":
                    return True            # depth counter: any comparison is a bound
                for x in c.walk():
                    if x.get("k") == "call" and "obj" in x and any(y.get("k") == "member" and y.get("qn") == q for y in x.child("obj").walk()):
                        nm = (x.get("fn") or "").split("::")[-1]
                        if nm in ("count", "find", "contains", "size"):
                            return True
                    if x.get("k") == "call" and (x.get("fn") or "").split("::")[-1] in ("find", "count", "any_of", "find_if", "binary_search", "is_contained") and "obj" not in x and \
                            any(y.get("k") == "member" and y.get("qn") == q for a_ in x.get("args", []) if a_ >= 0 for y in f.nodes[a_].walk()):
                        return True
                return False
            tested = [q for q in tested if whole(q)]
            if not tested:
                continue
            # one arm must be able to leave without reaching a recursive call
            for rc in rec_calls:
                rp = cfg.pos_of(f, rc)
                w = cfg.path_exists(f, cfg.term_pos(f, b.id), cfg.is_exit, avoid=lambda p, e, rp=rp: p == rp)
                if w is not None:
                    return tested[0]
        # `for (x : container) if (x == name) return;` — the test is on an element of the grown container
        for fr in f.nodes:
            if fr.get("k") == "forrange":
                q = persistent_name(fr.child("range"))
                if q in grown and any(x.get("k") == "return" for x in fr.child("body").walk()):
                    return q
    return None


# ----------------------------------------------------------------------------
YAML_KINDS = {"ScalarNode": "NK_Scalar", "MappingNode": "NK_Mapping", "SequenceNode": "NK_Sequence",
              "KeyValueNode": "NK_KeyValue", "BlockScalarNode": "NK_BlockScalar"}


def pointee_str(e):
    e = strip_casts(e)
    if e is not None and e.get("k") == "un" and e.get("op") == "&":
        return expr_str(e.child("e"))
    return expr_str(e)


def yaml_rules(prog, rep):
    r = rep.rule("R-YAML-CHECKED-CAST",
                 "every static_cast to an llvm::yaml node class is dominated by a getType() test of the same "
                 "expression against the matching NK_* kind", floor=40)
    r2 = rep.rule("R-YAML-ITER",
                  "every dereference of a YAML mapping/sequence iterator obtained from begin() is dominated by a "
                  "comparison with end() since its last change", floor=8)
    fns = [f for f in prog.functions.values() if relpath(f.file) == "lib/BuildSystem/BuildFile.cpp"]
    for f in sorted(fns, key=lambda f: f.line):
        casts = [n for n in f.nodes if n.get("k") == "cast" and n.get("explicit") and "llvm::yaml::" in n.ctype()
                 and n.get("ck") == "BaseToDerived"]
        iters = iterator_vars(f)
        if not casts and not iters:
            continue
        bf = BranchFacts(f, kill="assign")
        fname = f.name.split("::")[-1] if not f.is_lambda else f.key.split("::")[-2] + "::lambda"
        ordinal = {}
        for cst in casts:
            cls = cst.ctype().replace("llvm::yaml::", "").replace("*", "").strip()
            nk = YAML_KINDS.get(cls)
            if nk is None:
                continue
            base = pointee_str(cst.child("e"))
            key = "%s|%s<-%s" % (fname, cls, base)
            ordinal[key] = ordinal.get(key, 0) + 1
            site = "%s#%d" % (key, ordinal[key])
            st = bf.at_node(cst)
            if st is None:
                r.ok(site, "unreachable", f, cst)
                continue
            want = "(%s == %s)" % tuple(sorted([base + ".getType()", nk]))
            if (want, True) in st:
                r.ok(site, "guarded by %s" % want, f, cst)
            else:
                r.violation(site, "cast of '%s' to %s is not dominated by a getType() == %s test" % (base, cls, nk), f, cst)
        for var, decl in iters:
            for n in f.nodes:
                # it->  /  *it   (operator-> / operator* on the iterator variable)
                if n.get("k") == "call" and n.get("ck") == "operator" and n.get("op") in ("->", "*") and "obj" in n:
                    o = n.child("obj")
                    if o.get("k") == "ref" and o.get("did") == var["did"]:
                        st = bf.at_node(n)
                        key = "%s|%s%s" % (fname, n.get("op"), var["n"])
                        ordinal[key] = ordinal.get(key, 0) + 1
                        site = "%s#%d" % (key, ordinal[key])
                        if st is None:
                            continue
                        ok = any(p and a.startswith("(") and " != " in a and var["n"] in a and "end()" in a for a, p in st)
                        if ok:
                            r2.ok(site, "", f, n)
                        else:
                            r2.violation(site, "iterator '%s' dereferenced without a dominating != end() test" % var["n"], f, n)


def iterator_vars(f):
    out = []
    for n in f.nodes:
        if n.get("k") != "decl":
            continue
        for v in n.get("vars", []):
            t = f.db_types[v["ct"]]
            if "llvm::yaml::basic_collection_iterator" in t and not v["n"].startswith("__"):
                out.append((v, n))
    return out


# ----------------------------------------------------------------------------
# Seeded variants (thorough tier): each re-introduces one defect of the class the
# rule is about, or is a behaviour-preserving rewrite that must stay silent.
VARIANTS = [
    dict(name="rule-variable-guard-checks-innermost-only", file="lib/Ninja/ManifestLoader.cpp",
         old="      for (const auto& active: context->activeRuleVariables) {\n        if (active == name) {\n          error(\"cycle in rule variables involving '\" + name.str() + \"'\",\n                context->startTok);\n          return;\n        }\n      }",
         new="      if (!context->activeRuleVariables.empty() &&\n          context->activeRuleVariables.back() == name) {\n        error(\"cycle in rule variables involving '\" + name.str() + \"'\",\n              context->startTok);\n        return;\n      }",
         expect=("R-RECURSION-BOUND", "variable-expansion")),
    dict(name="benign-rule-variable-guard-with-std-find", file="lib/Ninja/ManifestLoader.cpp",
         old="      for (const auto& active: context->activeRuleVariables) {\n        if (active == name) {\n          error(\"cycle in rule variables involving '\" + name.str() + \"'\",\n                context->startTok);\n          return;\n        }\n      }",
         new="      if (std::find(context->activeRuleVariables.begin(), context->activeRuleVariables.end(), name) != context->activeRuleVariables.end()) {\n        error(\"cycle in rule variables involving '\" + name.str() + \"'\",\n              context->startTok);\n        return;\n      }",
         expect=None),
    dict(name="lexer-sign-extended-peek", file="lib/Ninja/Lexer.cpp",
         old="  return static_cast<unsigned char>(*bufferPos);", new="  return *bufferPos;",
         expect=("R-EOF-TRUE-END", "peekNextChar")),
    dict(name="lexer-dollar-lookahead-ptr-compare", file="lib/Ninja/Lexer.cpp",
         old="(buffer.end() - bufferPos > 2 && bufferPos[1] == '\\r' &&",
         new="(bufferPos + 2 != buffer.end() && bufferPos[1] == '\\r' &&",
         expect=("R-CURSOR-BOUNDS", "lex|bufferPos")),
    dict(name="lexer-crlf-unchecked", file="lib/Ninja/Lexer.cpp",
         old="if (bufferPos != buffer.end() && *bufferPos == ('\\n' + '\\r' - result))",
         new="if (*bufferPos == ('\\n' + '\\r' - result))",
         expect=("R-CURSOR-BOUNDS", "getNextChar|bufferPos")),
    dict(name="lexer-eof-dropped-guard", file="lib/Ninja/Lexer.cpp",
         old="int Lexer::peekNextChar() {\n  if (bufferPos == buffer.end())\n    return -1;",
         new="int Lexer::peekNextChar() {\n  if (bufferPos >= buffer.end() - 1)\n    return -1;",
         expect=("R-EOF-TRUE-END", "peekNextChar|eof-only-at-end")),
    dict(name="lexer-pathstring-no-advance", file="lib/Ninja/Lexer.cpp",
         old="    if (isspace(c) || c == ':' || c == '|' || c == -1)\n      break;\n\n    getNextChar();",
         new="    if (isspace(c) || c == ':' || c == '|' || c == -1)\n      break;\n",
         expect=("R-PROGRESS", "lexPathString")),
    dict(name="lexer-token-start-after-kind", file="lib/Ninja/Lexer.cpp",
         old="  // Initialize the token position.\n  result.start = bufferPos;\n  result.line = lineNumber;",
         new="  // Initialize the token position.\n  result.line = lineNumber;",
         expect=("R-TOKEN-TILING", "lex|")),
    dict(name="makefile-trailing-backslash", file="lib/Core/MakefileDepsParser.cpp",
         old="      if (cur == end) {\n        unescapedWord.push_back('\\\\');\n        break;\n      }\n",
         new="", expect=("R-CURSOR-BOUNDS", "lexWord|cur")),
    dict(name="makefile-dollar-lookahead", file="lib/Core/MakefileDepsParser.cpp",
         old="} else if (c == '$' && cur + 1 != end && cur[1] == '$') {",
         new="} else if (c == '$' && cur[1] == '$') {",
         expect=("R-CURSOR-BOUNDS", "lexWord|cur")),
    dict(name="makefile-crlf-off-by-one", file="lib/Core/MakefileDepsParser.cpp",
         old="if (c == '\\\\' && cur + 2 < end && cur[1] == '\\r' && cur[2] == '\\n') {",
         new="if (c == '\\\\' && cur + 1 < end && cur[1] == '\\r' && cur[2] == '\\n') {",
         expect=("R-CURSOR-BOUNDS", "skipNonNewlineWhitespace|cur")),
    dict(name="makefile-colon-unchecked", file="lib/Core/MakefileDepsParser.cpp",
         old="    if (cur == end || *cur != ':') {", new="    if (*cur != ':') {",
         expect=("R-CURSOR-BOUNDS", "parse|cur")),
    dict(name="depinfo-missing-operand-check", file="lib/Core/DependencyInfoParser.cpp",
         old="    if (cur == end) {\n      actions.error(\"missing operand\", opcodeStart - data.data());\n      break;\n    }\n",
         new="", expect=("R-CURSOR-BOUNDS", "parse|cur")),
    dict(name="depinfo-no-terminator-check", file="lib/Core/DependencyInfoParser.cpp",
         old="  if (!data.endswith(StringRef(\"\\0\", 1))) {\n    actions.error(\"missing null terminator\", data.size());\n    return;\n  }",
         new="  if (data.empty()) {\n    actions.error(\"missing null terminator\", data.size());\n    return;\n  }",
         expect=("R-CURSOR-BOUNDS", "parse|cur")),
    dict(name="evalstring-dollar-at-end", file="lib/Ninja/ManifestLoader.cpp",
         old="      ++pos;\n      if (pos == end) {\n        error(\"invalid '$'-escape at end of string\");\n        break;\n      }\n",
         new="      ++pos;\n", expect=("R-CURSOR-BOUNDS", "evalString|pos")),
    dict(name="loader-recursion-guard-removed", file="lib/Ninja/ManifestLoader.cpp",
         old="      context->activeRuleVariables.push_back(name);\n", new="",
         expect=("R-RECURSION-BOUND", "variable-expansion")),
    dict(name="yaml-empty-root-mapping", file="lib/BuildSystem/BuildFile.cpp",
         old="    if (it == mapping->end()) {\n      error(node, \"expected initial mapping key 'client'\");\n      return false;\n    }\n",
         new="", expect=("R-YAML-ITER", "parseRootNode")),
    dict(name="yaml-cast-wrong-kind", file="lib/BuildSystem/BuildFile.cpp",
         old="      if (it->getValue()->getType() != llvm::yaml::Node::NK_Mapping) {\n        error(it->getValue(), \"unexpected 'nodes' value (expected map)\");",
         new="      if (it->getValue()->getType() != llvm::yaml::Node::NK_Sequence) {\n        error(it->getValue(), \"unexpected 'nodes' value (expected map)\");",
         expect=("R-YAML-CHECKED-CAST", "parseRootNode")),
    dict(name="yaml-check-continue-dropped", file="lib/BuildSystem/BuildFile.cpp",
         old="        error(entry.getKey(), \"invalid key type in 'targets' map\");\n        continue;",
         new="        error(entry.getKey(), \"invalid key type in 'targets' map\");",
         expect=("R-YAML-CHECKED-CAST", "parseTargetsMapping")),
    # behaviour-preserving rewrites
    dict(name="benign-lexer-operands-flipped", file="lib/Ninja/Lexer.cpp",
         old="int Lexer::peekNextChar() {\n  if (bufferPos == buffer.end())", new="int Lexer::peekNextChar() {\n  if (buffer.end() == bufferPos)",
         expect=None),
    dict(name="benign-makefile-lt-instead-of-ne", file="lib/Core/MakefileDepsParser.cpp",
         old="      if (cur + 1 != end && cur[1] == '\\n')\n        break;", new="      if (cur + 1 < end && cur[1] == '\\n')\n        break;",
         expect=None),
    dict(name="benign-depinfo-renamed-local", file="lib/Core/DependencyInfoParser.cpp",
         old="    const char* operandEnd = cur;", new="    const char* operandStop = cur; const char* operandEnd = operandStop;", expect=None),
    dict(name="benign-yaml-eq-form", file="lib/BuildSystem/BuildFile.cpp",
         old="    if (node->getType() != llvm::yaml::Node::NK_Mapping) {\n      error(node, \"unexpected top-level node\");\n      return false;\n    }",
         new="    if (!(node->getType() == llvm::yaml::Node::NK_Mapping)) {\n      error(node, \"unexpected top-level node\");\n      return false;\n    }",
         expect=None),
    dict(name="peek-sign-extends-through-ternary", file="lib/Ninja/Lexer.cpp", old="  if (bufferPos == buffer.end())\n    return -1;\n  return static_cast<unsigned char>(*bufferPos);",
         new="  return bufferPos == buffer.end() ? -1 : *bufferPos;", expect=("R-EOF-TRUE-END", "peekNextChar|return")),
    dict(name="benign-peek-as-ternary-with-cast", file="lib/Ninja/Lexer.cpp", old="  if (bufferPos == buffer.end())\n    return -1;\n  return static_cast<unsigned char>(*bufferPos);",
         new="  return bufferPos == buffer.end() ? -1 : static_cast<unsigned char>(*bufferPos);", expect=None),
    dict(name="peek-ternary-sentinel-on-wrong-arm", file="lib/Ninja/Lexer.cpp", old="  if (bufferPos == buffer.end())\n    return -1;\n  return static_cast<unsigned char>(*bufferPos);",
         new="  return bufferPos + 1 == buffer.end() ? -1 : static_cast<unsigned char>(*bufferPos);", expect=("R-EOF-TRUE-END", "eof-only-at-end")),
    dict(name="comment-skip-ignores-end-of-buffer", file="lib/Ninja/Lexer.cpp", old="  for (;;) {\n    int c = peekNextChar();\n    if (c == -1 || c == '\\n' || c == '\\r')\n      break;\n    getNextChar();\n  }",
         new="  for (int c = peekNextChar(); c != '\\n' && c != '\\r'; c = peekNextChar())\n    getNextChar();", expect=("R-EOF-EXIT", "skipToEndOfLine")),
    dict(name="blank-predicate-names-only-space-and-tab", file="lib/Ninja/Lexer.cpp", old="  return isspace(c) && c != '\\n' && c != '\\r';", new="  return c == ' ' || c == '\\t';", expect=("R-WS-AGREE", "covers-isspace")),
]
