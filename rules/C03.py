"""C03 — Build state survives restarts exactly (database transparency), structural part."""
from sa.facts import AnalysisBroken, expr_str, qmatch, strip_casts, relpath, core
from sa import cfg
from sa.cfg import BranchFacts
from sa.flow import arg_nodes, mentions
from sa import sqlschema as SQL
from rules import engine as E

UNITS = ["lib/Core/SQLiteBuildDB.cpp", "lib/Core/BuildEngine.cpp", "products/libllbuild/BuildDB-C-API.cpp"]
THOROUGH_ALL_UNITS = False
EXPLANATION = (
    "Writer/reader agreement on the rule_results table: each bound parameter of the INSERT is the Result field of the "
    "column at that position of the CREATE TABLE, and each of the three readers maps sqlite3_column_*(stmt, j) through "
    "its own SELECT list to the same field, with matching storage classes; the dependency word is packed and unpacked "
    "with the same bit positions, 8-byte stride and element order; every column that receives or returns byte strings "
    "has TEXT or BLOB affinity under SQLite's affinity rule; every text/blob bind carries an explicit length and every "
    "read pairs the pointer with column_bytes of the same column; the use-as-is predicate is exactly schema version "
    "equal and client version equal, and a mismatch leads to an error or to unlink + schema creation before any statement "
    "is prepared; builds run inside BEGIN EXCLUSIVE with a busy timeout; the engine looks every new rule up and writes "
    "every finished task.")
NOT_DECIDED = ("that a history split across processes performs the same executions (behavioural); SQLite itself.")

RESULT_FIELD_OF_COLUMN = {"key_id": "dbKeyID", "value": "value", "signature": "signature", "built_at": "builtAt",
                          "computed_at": "computedAt", "start": "start", "end": "end", "dependencies": "dependencies", "key": "key"}
BIND_CLASS = {"sqlite3_bind_int64": "INTEGER", "sqlite3_bind_int": "INTEGER", "sqlite3_bind_double": "REAL",
              "sqlite3_bind_blob": "BLOB", "sqlite3_bind_text": "TEXT"}
COLUMN_CLASS = {"sqlite3_column_int64": "INTEGER", "sqlite3_column_int": "INTEGER", "sqlite3_column_double": "REAL",
                "sqlite3_column_blob": "BLOB", "sqlite3_column_text": "TEXT", "sqlite3_column_bytes": "LEN"}
DB = "SQLiteBuildDB"


class DBModel(object):
    def __init__(self, prog):
        self.prog = prog
        self.fns = [f for f in prog.functions.values() if relpath(f.file) == "lib/Core/SQLiteBuildDB.cpp" and DB in (f.cls + (f.parent or ""))]
        if len(self.fns) < 12:
            raise AnalysisBroken("SQLiteBuildDB: only %d functions found" % len(self.fns))
        self.tables = {}
        self.stmt_sql = {}      # member statement name -> SQL text
        self.literals = []      # (fn, call node, sql)
        for f in self.fns:
            for c in f.calls():
                nm = (c.get("fn") or "")
                if nm in ("sqlite3_exec", "sqlite3_prepare_v2"):
                    a = arg_nodes(c)
                    sql = self.sql_text(f, a[1])
                    if sql is None:
                        continue
                    self.literals.append((f, c, sql))
                    t = SQL.parse_create_table(sql)
                    if t:
                        self.tables[t[0]] = t[1]
                    if nm == "sqlite3_prepare_v2":
                        tgt = core(a[3])
                        if tgt is not None and tgt.get("k") == "un" and tgt.get("op") == "&":
                            v = core(tgt.child("e"))
                            if v.get("k") == "member":
                                self.stmt_sql[v["n"]] = sql
        for t in ("info", "key_names", "rule_results"):
            if t not in self.tables:
                raise AnalysisBroken("CREATE TABLE %s not found" % t)

    def sql_text(self, f, n):
        n = core(n)
        if n is None:
            return None
        if n.get("k") == "str":
            return n["v"]
        if n.get("k") in ("ref", "member") and n.get("dk", "global") in ("global",) or (n is not None and n.get("k") == "member"):
            nm = n.get("n")
            for (gn, _, _), g in self.prog.globals.items():
                if g["n"] == nm and "str" in g and DB in gn:
                    return g["str"]
        if n.get("k") == "ref":
            nm = n.get("n")
            for (gn, _, _), g in self.prog.globals.items():
                if g["n"] == nm and "str" in g and DB in gn:
                    return g["str"]
        return None

    def stmt_of(self, f, n):
        """statement expression -> (name, sql)"""
        n = core(n)
        if n is None:
            return None, None
        if n.get("k") == "member":
            return n["n"], self.stmt_sql.get(n["n"])
        if n.get("k") == "ref":
            # local: alias of a member, or prepared from a literal in this function
            for d in f.nodes:
                if d.get("k") == "decl":
                    for v in d["vars"]:
                        if v["did"] == n.get("did"):
                            if "init" in v:
                                i = core(f.nodes[v["init"]])
                                if i is not None and i.get("k") == "member":
                                    return i["n"], self.stmt_sql.get(i["n"])
            # nearest prepare in this function targeting &stmt that dominates … (one per region): pick by CFG dominance
            cands = []
            for (g, c, sql) in self.literals:
                if g is f and (c.get("fn") or "") == "sqlite3_prepare_v2":
                    tgt = core(arg_nodes(c)[3])
                    if tgt.get("k") == "un" and core(tgt.child("e")).get("did") == n.get("did"):
                        cands.append((c, sql))
            return n.get("n"), cands
        return None, None

    def sql_at(self, f, stmt_node, use_node):
        """SQL text in force for a statement expression at a use site."""
        name, ssql = self.stmt_of(f, stmt_node)
        if isinstance(ssql, str) or ssql is None:
            return name, ssql
        up = cfg.pos_of(f, use_node)
        best = None
        for c, sql in ssql:
            cp = cfg.pos_of(f, c)
            if cfg.dominated_by(f, up, lambda p, e, cp=cp: p == cp)[0]:
                # later candidates that still dominate win
                if best is None or cfg.path_exists(f, cfg.pos_of(f, best[0]), lambda p, e, cp=cp: p == cp) is not None:
                    best = (c, sql)
        return name, (best[1] if best else None)


def r_sql_columns(prog, rep, db=None):
    """shared with C01 / C02: the epochs, signature, value and dependency list a later process scans with are the ones recorded"""
    db = db or DBModel(prog)
    rr_cols = [c[0] for c in db.tables["rule_results"]]
    rr_aff = {c[0]: c[2] for c in db.tables["rule_results"]}
    key_aff = {c[0]: c[2] for c in db.tables["key_names"]}
    # ------------------------------------------------------------------ writer
    r = rep.rule("R-SQL-COLUMNS",
                 "rule_results: the k-th bound parameter of the INSERT is the Result field of the k-th column of the CREATE "
                 "TABLE; every reader maps sqlite3_column_*(stmt, j) through its own SELECT list to the same field, with the "
                 "storage class of the column", floor=40)
    f = prog.fn(DB + "::setRuleResult")
    ins = SQL.parse_insert(db.stmt_sql.get("insertIntoRuleResultsStmt", ""))
    if not ins or ins["table"] != "rule_results":
        raise AnalysisBroken("INSERT INTO rule_results not found")
    cols = ins["cols"] or rr_cols
    r.check(len(ins["values"]) == len(cols) == len(rr_cols) and all(v == "?" for v in ins["values"]), "setRuleResult|insert-arity",
            "%d parameters" % len(cols), "INSERT has %d values for %d columns" % (len(ins["values"]), len(rr_cols)), f)
    bound = {}
    for c in f.calls():
        nm = c.get("fn") or ""
        if nm in BIND_CLASS and expr_str(core(arg_nodes(c)[0])) == "insertIntoRuleResultsStmt":
            a = arg_nodes(c)
            idx = core(a[1]).get("v")
            bound.setdefault(idx, []).append((c, nm, a))
    for k, col in enumerate(cols, start=1):
        site = "setRuleResult|bind %s" % col
        if k not in bound:
            r.violation(site, "column %s (parameter %d) is never bound" % (col, k), f)
            continue
        if len(bound[k]) > 1:
            r.violation(site, "parameter %d is bound %d times" % (k, len(bound[k])), f, bound[k][1][0])
            continue
        c, nm, a = bound[k][0]
        want = RESULT_FIELD_OF_COLUMN[col]
        val = expr_str(a[2])
        if col == "key_id":
            ok = "dbKeyID" in val
        elif col == "dependencies":
            ok = "encoder" in val
        else:
            ok = any(x.get("k") == "member" and x.get("n") == want and x.get("qn", "").startswith("llbuild::core::Result::") for x in a[2].walk())
            others = set(x.get("n") for x in a[2].walk() if x.get("k") == "member" and x.get("qn", "").startswith("llbuild::core::Result::")) - {want}
            ok = ok and not others
        r.check(ok, site, "<- %s" % val[:40], "column %s is bound to %s, expected Result::%s" % (col, val[:60], want), f, c)
        cls = BIND_CLASS[nm]
        aff = rr_aff[col]
        okc = (cls == aff) or (cls == "TEXT" and aff == "BLOB") or (cls == "BLOB" and aff == "BLOB")
        r.check(okc, site + "|class", "", "column %s has %s affinity but is bound with %s" % (col, aff, nm), f, c)
    extra = sorted(set(bound) - set(range(1, len(cols) + 1)))
    if extra:
        r.violation("setRuleResult|bind-extra", "parameters %s bound beyond the column list" % extra, f)
    # the encoded dependency list is what gets bound: encoder filled from ruleResult.dependencies in order
    from rules import engine as E_
    fr = [lp for lp, _en in E_.whole_container_loops(f, "ruleResult.dependencies") if
          any((c.get("fn") or "").endswith("BinaryEncoder::write") for c in f.calls() if any(x is c for x in lp.walk()))]
    r.check(len(fr) == 1, "setRuleResult|dependencies-encoded-in-order", "", "dependencies are not encoded by one pass over ruleResult.dependencies", f)
    if len(fr) == 1:
        # ... and every entry is written: an entry is skipped only by leaving the function with an error.  (A duplicate key may carry
        # different order-only / single-use flags — `a || b` plus a depfile naming b — so "the key was already written" is not a reason.)
        lp = fr[0]
        wr = [c for c in f.calls() if (c.get("fn") or "").endswith("BinaryEncoder::write") and any(x is c for x in lp.walk())]
        skips = [x for x in lp.child("body").walk() if x.get("k") in ("continue", "break", "goto")]
        cond = [a for c in wr for a in f.ancestors(c) if a is not lp and a.get("k") in ("if", "cond", "switch") and any(y is a for y in lp.walk())]
        r.check(not skips and not cond, "setRuleResult|every-dependency-encoded", "", "an entry of ruleResult.dependencies can be left out of the stored list (%s): the list read "
                "back after a restart is not the list the engine holds" % ("the loop skips or stops" if skips else "the write is conditional"), f, (skips or cond or [lp])[0])

    # ------------------------------------------------------------------ readers
    readers = [("lookupRuleResult", "fastFindRuleResultStmt", "result_out"), ("lookupRuleResult", "findRuleResultStmt", "result_out"),
               ("getKeysWithResult", "getKeysWithResultStmt", "result")]
    for fname, stmt, target in readers:
        g = prog.fn(DB + "::" + fname)
        sel = SQL.parse_select(db.stmt_sql.get(stmt, ""))
        if not sel:
            raise AnalysisBroken("SELECT of %s not found" % stmt)
        n_reads = 0
        cols_read = set()
        # the reads of this statement's columns: in the reader itself, and in a helper of the class that is handed the statement
        # (`readRow(stmt, result_out)`): there the statement is the helper's parameter
        sites = []
        for c in g.calls():
            nm = c.get("fn") or ""
            if nm in COLUMN_CLASS:
                if db.stmt_of(g, arg_nodes(c)[0])[0] == stmt:
                    sites.append((g, c))
                continue
            h = prog.functions.get(c.get("fk")) if c.get("k") == "call" and c.get("fk") else None
            if h is None or h is g or h.is_lambda or relpath(h.file) != relpath(g.file):
                continue
            for i_, a_ in enumerate(arg_nodes(c)):
                if a_ is not None and i_ < len(h.params) and db.stmt_of(g, a_)[0] == stmt:
                    pn = h.params[i_]["n"]
                    for c2 in h.calls():
                        if (c2.get("fn") or "") in COLUMN_CLASS and expr_str(core(arg_nodes(c2)[0])) == pn:
                            sites.append((h, c2))
        g0 = g
        for g, c in sites:
            nm = c.get("fn") or ""
            a = arg_nodes(c)
            j = core(a[1]).get("v")
            if j is None or j >= len(sel["bare"]):
                r.violation("%s|%s|column#%s" % (fname, stmt, j), "column index %s is outside the SELECT list" % j, g, c)
                continue
            col = sel["bare"][j]
            want = RESULT_FIELD_OF_COLUMN.get(col)
            n_reads += 1
            cols_read.add(col)
            site = "%s|%s|%s" % (fname, stmt, col)
            dest = destination_of(g, c)
            cls = COLUMN_CLASS[nm]
            if col in ("value",):
                ok = cls in ("BLOB", "LEN") and ("value" in dest.lower())
            elif col == "dependencies":
                ok = cls in ("BLOB", "LEN") and ("ependency" in dest)
            elif col == "key_id":
                ok = cls == "INTEGER" and "dbKeyID" in dest
            elif col == "key":
                ok = cls in ("TEXT", "LEN", "BLOB") and "key" in dest.lower()
            else:
                aff = rr_aff.get(col)
                ok = (dest.split("->")[-1].split(".")[-1].strip() == want) and cls == aff
            r.check(ok, site + "|" + nm.replace("sqlite3_column_", ""), "-> %s" % dest[:40],
                    "column '%s' (index %d of the SELECT) is read with %s into %s; expected Result::%s" % (col, j, nm, dest[:50], want), g, c)
        g = g0
        need = set(c_ for c_ in sel["bare"] if c_ in rr_cols)
        r.check(need <= cols_read, "%s|%s|reads" % (fname, stmt), "%d column reads" % n_reads,
                "selected column(s) %s are never read back into the result (%d column reads found)" % (sorted(need - cols_read), n_reads), g)
        # every rule_results column is selected
        r.check(set(rr_cols) <= set(sel["bare"]), "%s|%s|select-list" % (fname, stmt), "", "SELECT list misses %s" % sorted(set(rr_cols) - set(sel["bare"])), g)
    return r


def run(ctx):
    prog, rep = ctx.prog, ctx.report
    db = DBModel(prog)
    rr_cols = [c[0] for c in db.tables["rule_results"]]
    rr_aff = {c[0]: c[2] for c in db.tables["rule_results"]}
    key_aff = {c[0]: c[2] for c in db.tables["key_names"]}

    r_sql_columns(prog, rep, db)
    f = prog.fn(DB + "::setRuleResult")

    # ------------------------------------------------------------------ dependency word
    r = rep.rule("R-DEPBLOB-BITS",
                 "the dependency word is written as (dbKeyID << 2) + (singleUse << 1) + orderOnly and both decoders read bit 0 as "
                 "orderOnly, bit 1 as singleUse, the rest as the key id; 8-byte stride; element i goes to index i", floor=8)
    w = [c for c in f.calls("BinaryEncoder::write")]
    okw = False
    if len(w) == 1:
        a0 = arg_nodes(w[0])[0]
        c0 = core(a0)
        if c0 is not None and c0.get("k") == "ref" and c0.get("did") is not None:
            # the word through a named local (`const uint64_t encoded = ...; encoder.write(encoded)`): initialised once, never reassigned
            inits = [f.nodes[v["init"]] for d in f.nodes if d.get("k") == "decl" for v in d.get("vars", []) if v.get("did") == c0["did"] and "init" in v]
            writes = [n for n in f.nodes if n.get("k") == "bin" and n.get("op", "").endswith("=") and n["op"] not in ("==", "!=", "<=", ">=") and
                      core(n.child("l")) is not None and core(n.child("l")).get("did") == c0["did"]]
            if inits and len(set(i_["id"] for i_ in inits)) == 1 and not writes:
                a0 = inits[0]
                c0 = core(a0)
        parts = flatten_sum(a0)
        if len(parts) == 1 and c0 is not None and c0.get("k") == "call" and c0.get("fk") in prog.functions:
            # the word may be packed by a small static helper: substitute the arguments for its parameters
            h = prog.functions[c0["fk"]]
            rets = [x for x in h.nodes if x.get("k") == "return"]
            if len(rets) == 1 and len(h.params) == len(arg_nodes(c0)):
                env = {p_["n"]: expr_str(core(a_)) for p_, a_ in zip(h.params, arg_nodes(c0))}
                inner = flatten_sum(rets[0].child("e"))
                parts = {}
                for k_, sh_ in inner.items():
                    root = k_.split(".")[0].split("->")[0]
                    parts[(env.get(root, root) + k_[len(root):]) if root in env else k_] = sh_
        okw = parts == {"dbKeyID.value": 2, "dependency.singleUse": 1, "dependency.orderOnly": 0}
    r.check(okw, "setRuleResult|word-layout", "", "dependency word packed as %s" % (parts if len(w) == 1 else "?"), f)
    # wherever the dependency blob is decoded (in the readers themselves or in a helper they share)
    dbfns = [g for g in prog.functions.values() if g.cls.endswith("SQLiteBuildDB") and not g.is_lambda]
    decoders = [g for g in dbfns if g.calls("DependencyKeyIDs::set")]
    for fname in ("lookupRuleResult", "getKeysWithResult"):
        rd = prog.fn(DB + "::" + fname)
        reach = rd in decoders or any((c.get("fk") and prog.functions.get(c.get("fk")) in decoders) for c in rd.calls())
        r.check(reach, "%s|decodes-dependencies" % fname, "", "%s does not decode the stored dependency list" % fname, rd)
    for g in decoders:
        fname = g.name.split("::")[-1]
        decls = {v["n"]: g.nodes[v["init"]] for d in g.nodes if d.get("k") == "decl" for v in d["vars"] if "init" in v}
        oo = shape_bits(decls.get("orderOnly"))
        su = shape_bits(decls.get("singleUse"))
        kid = None
        for d in g.nodes:
            if d.get("k") == "decl":
                for v in d["vars"]:
                    if v["n"] == "dbKeyID" and "init" in v and "raw" in expr_str(g.nodes[v["init"]]):
                        for x in g.nodes[v["init"]].walk():
                            if x.get("k") == "bin" and x["op"] == ">>":
                                kid = core(x.child("r")).get("v")
        r.check(oo == ("raw", 0), "%s|orderOnly-bit" % fname, "", "orderOnly decoded as %s" % (oo,), g)
        r.check(su == ("raw", 1), "%s|singleUse-bit" % fname, "", "singleUse decoded as %s" % (su,), g)
        r.check(kid == 2, "%s|key-shift" % fname, "", "key id decoded with shift %s" % kid, g)
        st = g.calls("DependencyKeyIDs::set")
        ok = len(st) == 1 and [expr_str(core(x)) for x in arg_nodes(st[0])] == ["i", "keyID", "orderOnly", "singleUse"]
        r.check(ok, "%s|set-in-order" % fname, "", "decoded dependency stored as %s" % ([expr_str(core(x)) for x in arg_nodes(st[0])] if st else None), g)
        nd = decls.get("numDependencies")
        ok = False
        if nd is not None:
            d_ = core(nd)
            ok = d_.get("k") == "bin" and d_["op"] == "/" and expr_str(core(d_.child("l"))) == "numDependencyBytes" and \
                core(d_.child("r")).get("k") == "sizeof" and core(d_.child("r")).get("v") == 8
        r.check(ok, "%s|stride" % fname, "", "dependency count is %s" % (expr_str(nd) if nd is not None else None), g)
        # loop i = 0 .. numDependencies step 1, one decoder.read per element
        loops = [n for n in g.nodes if n.get("k") == "for" and "numDependencies" in expr_str(n.child("c"))]
        ok = len(loops) == 1 and expr_str(core(loops[0].child("inc"))) in ("(++i)", "(i++)") and \
            len([c for c in g.calls("BinaryDecoder::read") if any(x is c for x in loops[0].walk())]) == 1
        r.check(ok, "%s|one-word-per-element" % fname, "", "decoder loop does not read one word per dependency in order", g)
    # C API reader keeps the order
    if any(relpath(u).endswith("BuildDB-C-API.cpp") for u in prog.units) or prog.fns("mapResult"):
        m = prog.fns("mapResult")
        if m:
            m = m[0]
            fr = [n for n in m.nodes if n.get("k") == "forrange" and "dependencies" in expr_str(n.child("range"))]
            r.check(len(fr) == 1, "mapResult|in-order", "", "C API does not map dependencies by one in-order pass", m)

    # ------------------------------------------------------------------ affinity
    r = rep.rule("R-SQL-AFFINITY",
                 "every column to which text/blob is bound or from which bytes are read back verbatim has TEXT or BLOB affinity "
                 "under SQLite's affinity rule (NUMERIC/INTEGER/REAL would rewrite numeric-looking byte strings)", floor=5)
    checked = set()
    for g in db.fns:
        for c in g.calls():
            nm = c.get("fn") or ""
            if nm in ("sqlite3_bind_text", "sqlite3_bind_blob"):
                a = arg_nodes(c)
                sname, ssql = db.stmt_of(g, a[0])
                if not isinstance(ssql, str):
                    continue
                idx = core(a[1]).get("v")
                col, table = param_column(ssql, idx, db)
                if col is None:
                    raise AnalysisBroken("cannot map parameter %s of %s" % (idx, sname))
                aff = {c_[0]: c_[2] for c_ in db.tables[table]}.get(col)
                key = "%s.%s<-%s" % (table, col, nm.replace("sqlite3_", ""))
                site = "%s|%s" % (g.name.split("::")[-1], key)
                decl = {c_[0]: c_[1] for c_ in db.tables[table]}.get(col)
                r.check(aff in ("TEXT", "BLOB"), site, "declared %s -> %s" % (decl, aff),
                        "column %s.%s is declared '%s' (%s affinity) but receives byte strings" % (table, col, decl, aff), g, c)
                checked.add(key)
            if nm in ("sqlite3_column_text", "sqlite3_column_blob"):
                a = arg_nodes(c)
                sname, ssql = db.sql_at(g, a[0], c)
                sqls = [ssql] if isinstance(ssql, str) else []
                for s_ in sqls:
                    sel = SQL.parse_select(s_)
                    if not sel:
                        continue
                    j = core(a[1]).get("v")
                    if j is None or j >= len(sel["bare"]):
                        continue
                    col = sel["bare"][j]
                    table = None
                    for t, cs in db.tables.items():
                        if col in [c_[0] for c_ in cs] and (t == sel["table"] or sel["cols"][j].startswith(t + ".") or t in sel["rest"] or True):
                            if sel["cols"][j].startswith(t + ".") or (t == sel["table"] and col in [c_[0] for c_ in cs]):
                                table = t
                                break
                    if table is None:
                        for t, cs in db.tables.items():
                            if col in [c_[0] for c_ in cs] and t in (sel["table"] + sel["rest"]):
                                table = t
                    if table is None:
                        continue
                    aff = {c_[0]: c_[2] for c_ in db.tables[table]}.get(col)
                    decl = {c_[0]: c_[1] for c_ in db.tables[table]}.get(col)
                    site = "%s|%s.%s->%s" % (g.name.split("::")[-1], table, col, nm.replace("sqlite3_", ""))
                    r.check(aff in ("TEXT", "BLOB"), site, "declared %s -> %s" % (decl, aff),
                            "column %s.%s is declared '%s' (%s affinity) but is read back as bytes" % (table, col, decl, aff), g, c)

    # ------------------------------------------------------------------ lengths
    r = rep.rule("R-SQL-LENGTHS",
                 "every key/value bind passes the explicit size() of the object whose data() it binds (never -1); every "
                 "column_blob/column_text read is paired with column_bytes of the same statement and index", floor=8)
    for g in db.fns:
        reads = {}
        for c in g.calls():
            nm = c.get("fn") or ""
            a = arg_nodes(c)
            gname = g.name.split("::")[-1]
            if nm in ("sqlite3_bind_text", "sqlite3_bind_blob"):
                ptr, ln = core(a[2]), core(a[3])
                okl = ptr.get("k") == "call" and ln.get("k") == "call" and (ptr.get("fn") or "").split("::")[-1] == "data" and \
                    (ln.get("fn") or "").split("::")[-1] == "size" and expr_str(ptr.child("obj")) == expr_str(ln.child("obj"))
                r.check(okl, "%s|bind-length|%s" % (gname, expr_str(ptr)[:30]), "", "bound with pointer %s and length %s" % (expr_str(ptr)[:40], expr_str(ln)[:40]), g, c)
            if nm in ("sqlite3_column_text", "sqlite3_column_blob", "sqlite3_column_bytes"):
                key = (expr_str(core(a[0])), core(a[1]).get("v"))
                reads.setdefault(key, set()).add("len" if nm.endswith("bytes") else "ptr")
        for key, kinds in reads.items():
            r.check(kinds == {"len", "ptr"}, "%s|read-pair|%s#%s" % (g.name.split("::")[-1], key[0], key[1]), "",
                    "column %s of %s read as %s only (NUL-unsafe or length without data)" % (key[1], key[0], sorted(kinds)), g)

    # ------------------------------------------------------------------ version
    r = rep.rule("R-DB-VERSION",
                 "the database file is used as is exactly when schema version and client version both match; on a mismatch "
                 "the file is rejected or unlinked and re-created before any statement is prepared; the versions written "
                 "are the ones compared", floor=6)
    g = prog.fn(DB + "::open")
    bf = BranchFacts(g, kill="assign")
    preps = [c for (h, c, sql) in db.literals if h is g and (c.get("fn") or "") == "sqlite3_prepare_v2" and "StmtSQL" in expr_str(arg_nodes(c)[1])]
    if len(preps) < 6:
        raise AnalysisBroken("open(): %d statement preparations" % len(preps))
    first = min(preps, key=lambda c: c.line)
    def cmp_nodes(n, depth=0):
        """the ==/!= comparisons a condition is made of, looking through bool locals that are initialised once"""
        out = []
        for x in n.walk():
            if x.get("k") in ("bin", "call") and x.get("op") in ("==", "!="):
                out.append(x)
            if x.get("k") == "ref" and depth < 3:
                inits = [g.nodes[v["init"]] for d in g.nodes if d.get("k") == "decl" for v in d.get("vars", []) if v.get("did") == x.get("did") and "init" in v]
                if inits and len(set(i_["id"] for i_ in inits)) == 1 and "bool" in x.ctype():
                    out += cmp_nodes(inits[0], depth + 1)
        return out

    def sides(x):
        l = x.child("l") if x.get("k") == "bin" else (x.child("obj") if "obj" in x else g.nodes[x["args"][0]])
        r_ = x.child("r") if x.get("k") == "bin" else g.nodes[x["args"][-1]]
        return l, r_
    blk = [b for b in g.blocks.values() if b.cond() is not None and b.term["cls"] == "IfStmt" and
           any("currentSchemaVersion" in expr_str(x) for x in cmp_nodes(b.cond()))]
    ok = len(blk) == 1
    table = None
    if ok:
        # truth table of the branch over the two equalities (whatever the spelling: != with ||, a named `matches` boolean, De Morgan ...)
        keys = {"schema": [], "client": []}
        for x in cmp_nodes(blk[0].cond()):
            l, r_ = sides(x)
            txt = expr_str(x)
            which = "schema" if "currentSchemaVersion" in txt else ("client" if "clientSchemaVersion" in txt else None)
            if which:
                keys[which] += ["(%s == %s)" % (cfg.canon(l), cfg.canon(r_)), "(%s == %s)" % (cfg.canon(r_), cfg.canon(l))]
        table = {}
        for sv in (True, False):
            for cv in (True, False):
                env = dict((k_, sv) for k_ in keys["schema"])
                env.update((k_, cv) for k_ in keys["client"])
                table[(sv, cv)] = cfg.bool_eval(g, blk[0].cond(), env)
        # the branch is the *mismatch* arm when it is taken for everything but (match, match), or the *use as is* arm when taken only for it
        mism = {(True, True): False, (True, False): True, (False, True): True, (False, False): True}
        asis = dict((k_, not v) for k_, v in mism.items())
        ok = table in (mism, asis)
        mismatch_succ = 0 if table == mism else 1
    r.check(ok, "open|use-as-is-predicate", "", "the file is not used as is exactly when schema version and client version both match (truth table over "
            "(schema equal, client equal): %s)" % (sorted(table.items()) if table else "test not found"), g)
    if ok:
        # mismatch arm: no path to the first prepare that avoids (return | unlink + CREATE TABLE)
        s_true = blk[0].succs[mismatch_succ]
        fp = cfg.pos_of(g, first)
        w = cfg.path_exists(g, (s_true, -1), lambda p, e: p == fp, avoid=lambda p, e: E.is_call(g, e, ["unlink"]))
        r.check(w is None, "open|mismatch-unlinks", "", "mismatching database can reach statement preparation without being unlinked", g)
        creates = [c for (h, c, sql) in db.literals if h is g and (c.get("fn") or "") == "sqlite3_exec" and sql.upper().startswith("CREATE TABLE")]
        for c in creates:
            tname = SQL.parse_create_table(db_sql(db, c))[0]
            cp = cfg.pos_of(g, c)
            w = cfg.path_exists_feasible(g, (s_true, -1), lambda p, e: p == fp, avoid=lambda p, e, cp=cp: p == cp)
            r.check(w is None, "open|mismatch-recreates %s" % tname, "", "mismatching database can be used without re-creating %s" % tname, g)
        # !recreateOnUnmatchedVersion -> return false before unlink
        un = g.calls("unlink")
        r.check(bool(un) and E.has(E.facts_at(bf, un[0]), "recreateOnUnmatchedVersion", True), "open|reject-when-not-recreating", "",
                "database is unlinked although re-creation was not requested", g)
    ins_info = [c for c in g.calls("sqlite3_mprintf")]
    ok = len(ins_info) == 1
    if ok:
        a = arg_nodes(ins_info[0])
        sql = core(a[0]).get("v", "")
        vals = SQL.parse_insert(sql.replace("%d", "?"))
        info_cols = [c_[0] for c_ in db.tables["info"]]
        ok = vals is not None and len(vals["values"]) == len(info_cols)
        if ok:
            dyn = [info_cols[i] for i, v in enumerate(vals["values"]) if v == "?"]
            given = [expr_str(core(x)) for x in a[1:]]
            ok = dyn == ["version", "client_version"] and given == ["currentSchemaVersion", "clientSchemaVersion"]
    r.check(ok, "open|versions-written", "", "info row does not store (currentSchemaVersion, clientSchemaVersion) in (version, client_version)", g)
    rd = {}
    for c in g.calls("sqlite3_column_int"):
        rd[core(arg_nodes(c)[1]).get("v")] = destination_of(g, c)
    sel = [SQL.parse_select(sql) for (h, c, sql) in db.literals if h is g and sql.upper().startswith("SELECT")]
    ok = bool(sel) and sel[0]["bare"][:2] == ["version", "client_version"] and rd.get(0) == "version" and rd.get(1) == "clientVersion"
    r.check(ok, "open|versions-read", "", "stored versions are read as %s from %s" % (rd, sel[0]["bare"] if sel else None), g)

    # ------------------------------------------------------------------ exclusive
    r = rep.rule("R-DB-EXCLUSIVE", "buildStarted opens an EXCLUSIVE transaction and reports its failure; a busy timeout is set on the connection", floor=3)
    g = prog.fn(DB + "::buildStarted")
    ex = [(c, sql) for (h, c, sql) in db.literals if h is g]
    ok = len(ex) == 1 and ex[0][1].strip().upper().startswith("BEGIN EXCLUSIVE")
    r.check(ok, "buildStarted|begin-exclusive", "", "build does not start with BEGIN EXCLUSIVE: %s" % [s for _, s in ex], g)
    if ex:
        bfg = BranchFacts(g, kill="assign")
        rets = [n for n in g.nodes if n.get("k") == "return" and core(n.child("e")).get("v") is True]
        okr = bool(rets) and all(E.has(E.facts_at(bfg, x), "result", True, ("==", "0")) or E.has(E.facts_at(bfg, x), "SQLITE_OK", True) for x in rets) \
            if False else bool(rets) and all(any(p and " == " in a and "result" in a for a, p in E.facts_at(bfg, x)) for x in rets)
        r.check(okr, "buildStarted|failure-propagates", "", "buildStarted can report success although BEGIN EXCLUSIVE failed", g)
    g = prog.fn(DB + "::open")
    bt = g.calls("sqlite3_busy_timeout")
    op = g.calls("sqlite3_open")
    r.check(len(bt) == 1 and bool(op) and cfg.dominated_by(g, cfg.pos_of(g, bt[0]), lambda p, e: cfg.elem_node(g, e) is op[0])[0] and
            (core(arg_nodes(bt[0])[1]).get("v") or 0) > 0, "open|busy-timeout", "", "no positive busy timeout on the connection", g)

    # ------------------------------------------------------------------ engine side
    r = rep.rule("R-DB-LOOKUP-ON-ADD", "with a database attached every newly registered rule is looked up (its own key id, rule and result) before "
                                       "first use, and a lookup error cancels the build", floor=2)
    g = E.efn(prog, "addRule") if len(prog.fns(E.ENGINE + "::addRule")) == 1 else [x for x in prog.fns(E.ENGINE + "::addRule") if len(x.params) == 2][0]
    lk = g.calls("BuildDB::lookupRuleResult")
    ok = len(lk) == 1
    if ok:
        a = [expr_str(core(x)) for x in arg_nodes(lk[0])]
        ok = a[0] == "ruleInfo.keyID" and "ruleInfo.rule" in a[1] and "ruleInfo.result" in a[2]
    r.check(ok, "addRule|lookup-own-result", "", "rule registration does not load the rule's own stored result", g)
    bfg = BranchFacts(g, kill="assign")
    canc = [n for n in g.nodes if n.get("k") in ("bin", "call") and n.get("op") == "=" and "buildCancelled" in expr_str(n)]
    ok = any(E.has(E.facts_at(bfg, n), "error.empty()", False) for n in canc)
    r.check(ok, "addRule|lookup-error-cancels", "", "a database read error does not cancel the build", g)
    E.r_discovered_append(prog, rep)
    E.r_epoch_persist(prog, rep)


def canon_eq(a):
    import re
    m = re.match(r"^\((.*) (==|!=) (.*)\)$", a)
    if not m:
        return a
    l, op, r_ = m.groups()
    l, r_ = sorted([l, r_])
    return "(%s %s %s)" % (l, op, r_)


def db_sql(db, call):
    for (h, c, sql) in db.literals:
        if c is call:
            return sql
    return ""


def destination_of(f, call):
    """where the value of `call` ends up: assignment LHS, declared variable, or enclosing call."""
    x = call
    for a in f.ancestors(call):
        k = a.get("k")
        if k == "bin" and a["op"] == "=":
            return expr_str(a.child("l"))
        if k == "call" and a.get("op") == "=":
            return expr_str(a.child("obj"))
        if k == "decl":
            for v in a["vars"]:
                if "init" in v and any(y is call for y in f.nodes[v["init"]].walk()):
                    return v["n"]
        if k == "call" and (a.get("fn") or "").split("::")[-1] in ("memcpy",):
            return expr_str(arg_nodes(a)[0])
        if k in ("compound", "if", "while", "for"):
            break
    return "?"


def flatten_sum(n):
    """(a << k) + (b << j) + c  -> {a:k, b:j, c:0}"""
    out = {}
    stack = [n]
    while stack:
        x = core(stack.pop())
        if x is None:
            continue
        if x.get("k") == "bin" and x["op"] in ("+", "|"):
            stack += [x.child("l"), x.child("r")]
        elif x.get("k") == "bin" and x["op"] == "<<":
            out[expr_str(core(x.child("l")))] = core(x.child("r")).get("v")
        else:
            out[expr_str(x)] = 0
    return out


def shape_bits(n):
    """raw & 1 -> ('raw', 0);  (raw >> k) & 1 -> ('raw', k)"""
    n = core(n)
    if n is None or n.get("k") != "bin" or n["op"] != "&" or core(n.child("r")).get("v") != 1:
        return None
    l = core(n.child("l"))
    if l.get("k") == "bin" and l["op"] == ">>":
        return (expr_str(core(l.child("l"))), core(l.child("r")).get("v"))
    return (expr_str(l), 0)


def byte_order(f):
    """sequence of shift amounts applied from the first byte to the last -> 'little' | 'big' | None"""
    shifts = []
    for n in f.nodes:
        if n.get("k") == "bin" and n["op"] in (">>", "<<") and core(n.child("r")).get("k") == "int":
            shifts.append(core(n.child("r"))["v"])
    if not shifts:
        # implemented through the narrower primitives: look at which half goes first
        calls = [expr_str(c) for c in f.calls() if (c.get("fn") or "").split("::")[-1] in ("write", "read", "read32", "read16", "read8")]
        return "via:" + "|".join(calls)[:80]
    if shifts == sorted(shifts):
        return "little" + str(shifts)
    if shifts == sorted(shifts, reverse=True):
        return "big" + str(shifts)
    return "mixed" + str(shifts)


def param_column(sql, idx, db):
    """(column, table) the idx-th '?' of the statement stands for."""
    ins = SQL.parse_insert(sql)
    if ins:
        cols = ins["cols"] or [c[0] for c in db.tables[ins["table"]]]
        qpos = [i for i, v in enumerate(ins["values"]) if v == "?"]
        if idx - 1 < len(qpos):
            return cols[qpos[idx - 1]], ins["table"]
    wc = SQL.where_columns(sql)
    if idx - 1 < len(wc):
        col = wc[idx - 1]
        for t, cs in db.tables.items():
            if col in [c[0] for c in cs] and t in sql:
                return col, t
    return None, None


VARIANTS = [
    dict(name="bind-epochs-swapped", file="lib/Core/SQLiteBuildDB.cpp",
         old="/*index=*/4,\n                                ruleResult.builtAt);", new="/*index=*/4,\n                                ruleResult.computedAt);",
         expect=("R-SQL-COLUMNS", "bind built_at")),
    dict(name="fast-path-reads-swapped-columns", file="lib/Core/SQLiteBuildDB.cpp",
         old="      result_out->builtAt = sqlite3_column_int64(fastFindRuleResultStmt, 2);\n      result_out->computedAt = sqlite3_column_int64(fastFindRuleResultStmt, 3);",
         new="      result_out->builtAt = sqlite3_column_int64(fastFindRuleResultStmt, 3);\n      result_out->computedAt = sqlite3_column_int64(fastFindRuleResultStmt, 2);",
         expect=("R-SQL-COLUMNS", "fastFindRuleResultStmt")),
    dict(name="select-list-reordered-in-one-reader", file="lib/Core/SQLiteBuildDB.cpp",
         old='"SELECT key_id, value, built_at, computed_at, start, end, dependencies, signature FROM rule_results "\n      "WHERE key_id == ?;"',
         new='"SELECT key_id, value, computed_at, built_at, start, end, dependencies, signature FROM rule_results "\n      "WHERE key_id == ?;"',
         expect=("R-SQL-COLUMNS", "fastFindRuleResultStmt")),
    dict(name="keys-with-result-signature-from-wrong-column", file="lib/Core/SQLiteBuildDB.cpp",
         old="      result.signature = basic::CommandSignature(sqlite3_column_int64(stmt, 8));", new="      result.signature = basic::CommandSignature(sqlite3_column_int64(stmt, 0));",
         expect=("R-SQL-COLUMNS", "getKeysWithResultStmt")),
    dict(name="dependency-flags-swapped-in-decoder", file="lib/Core/SQLiteBuildDB.cpp",
         old="      bool orderOnly = raw & 1;\n      bool singleUse = (raw >> 1) & 1;\n      DBKeyID dbKeyID(raw >> 2);\n\n      // Map the database key ID into an engine key ID (note that we already\n      // hold the dbMutex at this point as required by getKeyIDforID())\n      KeyID keyID = getKeyIDForID(dbKeyID, error_out);\n      if (!error_out->empty()) {\n        return false;\n      }\n      result_out->dependencies",
         new="      bool singleUse = raw & 1;\n      bool orderOnly = (raw >> 1) & 1;\n      DBKeyID dbKeyID(raw >> 2);\n\n      // Map the database key ID into an engine key ID (note that we already\n      // hold the dbMutex at this point as required by getKeyIDforID())\n      KeyID keyID = getKeyIDForID(dbKeyID, error_out);\n      if (!error_out->empty()) {\n        return false;\n      }\n      result_out->dependencies",
         expect=("R-DEPBLOB-BITS", "lookupRuleResult")),
    dict(name="dependency-word-shift-1", file="lib/Core/SQLiteBuildDB.cpp",
         old="encoder.write((dbKeyID.value << 2) + (dependency.singleUse << 1) + dependency.orderOnly);",
         new="encoder.write((dbKeyID.value << 1) + (dependency.singleUse << 1) + dependency.orderOnly);", expect=("R-DEPBLOB-BITS", "word-layout")),
    dict(name="key-column-string-again", file="lib/Core/SQLiteBuildDB.cpp", old='"key TEXT UNIQUE);"', new='"key STRING UNIQUE);"', expect=("R-SQL-AFFINITY", "key_names.key")),
    dict(name="value-column-numeric", file="lib/Core/SQLiteBuildDB.cpp", old='"value BLOB, "', new='"value NUMERIC, "', expect=("R-SQL-COLUMNS", "bind value|class")),
    dict(name="key-bound-as-c-string", file="lib/Core/SQLiteBuildDB.cpp",
         old="    result = sqlite3_bind_text(insertIntoKeysStmt, /*index=*/1,\n                               key.data(), key.size(),",
         new="    result = sqlite3_bind_text(insertIntoKeysStmt, /*index=*/1,\n                               key.data(), -1,", expect=("R-SQL-LENGTHS", "bind-length")),
    dict(name="client-version-ignored", file="lib/Core/SQLiteBuildDB.cpp",
         old="    if (version != currentSchemaVersion ||\n        clientVersion != clientSchemaVersion) {", new="    if (version != currentSchemaVersion) {", expect=("R-DB-VERSION", "use-as-is-predicate")),
    dict(name="version-mismatch-and", file="lib/Core/SQLiteBuildDB.cpp",
         old="    if (version != currentSchemaVersion ||\n        clientVersion != clientSchemaVersion) {", new="    if (version != currentSchemaVersion &&\n        clientVersion != clientSchemaVersion) {", expect=("R-DB-VERSION", "use-as-is-predicate")),
    dict(name="begin-deferred", file="lib/Core/SQLiteBuildDB.cpp",
         old='    int result = sqlite3_exec(db, "BEGIN EXCLUSIVE;", nullptr, nullptr, nullptr);\n\n    if (result != SQLITE_OK) {',
         new='    int result = sqlite3_exec(db, "BEGIN;", nullptr, nullptr, nullptr);\n\n    if (result != SQLITE_OK) {', expect=("R-DB-EXCLUSIVE", "begin-exclusive")),
    dict(name="versions-written-swapped", file="lib/Core/SQLiteBuildDB.cpp",
         old="          currentSchemaVersion, clientSchemaVersion);", new="          clientSchemaVersion, currentSchemaVersion);", expect=("R-DB-VERSION", "versions-written")),
    dict(name="benign-bind-order", file="lib/Core/SQLiteBuildDB.cpp",
         old="    result = sqlite3_bind_int64(insertIntoRuleResultsStmt, /*index=*/4,\n                                ruleResult.builtAt);\n    checkSQLiteResultOKReturnFalse(result);\n    result = sqlite3_bind_int64(insertIntoRuleResultsStmt, /*index=*/5,\n                                ruleResult.computedAt);\n    checkSQLiteResultOKReturnFalse(result);",
         new="    result = sqlite3_bind_int64(insertIntoRuleResultsStmt, /*index=*/5,\n                                ruleResult.computedAt);\n    checkSQLiteResultOKReturnFalse(result);\n    result = sqlite3_bind_int64(insertIntoRuleResultsStmt, /*index=*/4,\n                                ruleResult.builtAt);\n    checkSQLiteResultOKReturnFalse(result);",
         expect=None),
]
