"""C06 — Outcome is independent of completion order and threads; task protocol holds (structural part)."""
from rules import engine as E

UNITS = ["lib/Core/BuildEngine.cpp"]
THOROUGH_ALL_UNITS = False
EXPLANATION = ("Decides: lockset of the engine state shared with task threads (finished queue, input-request queue, task table, key "
               "table, execution queue pointer, cancellation delegates) with each unlocked access exempted by a stated reason that is "
               "itself checked; consistent order of nested lock acquisitions; the condition-variable protocol of both waits and of "
               "the producer; happens-before of the cross-thread result writes through the locked publish; the task protocol order "
               "(start, prior value under its guard, ready only at waitCount 0, computing before inputsAvailable, entry points "
               "reject calls in the wrong state, request fields and must-follow flags); provideValue skipped exactly for order-only "
               "requests with one decrement per request; FIFO use of the queues.")
NOT_DECIDED = ("schedule-independence of values and executed sets; data-race freedom beyond the guarded fields of the table (no "
               "whole-program race detector is claimed); deadlock freedom beyond lock-order consistency.")


def run(ctx):
    prog, rep = ctx.prog, ctx.report
    E.r_lockset(prog, rep)
    E.r_cv_protocol(prog, rep)
    E.r_hb_result(prog, rep)
    E.r_protocol_order(prog, rep)
    E.r_deps_reset(prog, rep)
    E.r_queue_ops(prog, rep)
    E.r_thread_confined(prog, rep)
    E.r_cancel_delegates(prog, rep)
    E.r_mustfollow(prog, rep)
    E.r_fifo(prog, rep)
    E.r_outstanding_count(prog, rep)
    E.r_waitcount(prog, rep)
    E.run_all(prog, rep)        # every other engine rule: this property is anchored in the whole engine
from rules.engine_variants import C06 as VARIANTS  # noqa: E402
