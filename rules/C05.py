"""C05 — Cancellation never hangs, leaks work, or poisons later builds (structural part)."""
from rules import engine as E
from rules import tasks as T

UNITS = ["lib/Core/BuildEngine.cpp", "lib/BuildSystem/BuildSystemFrontend.cpp", "lib/BuildSystem/BuildSystem.cpp",
         "lib/BuildSystem/ExternalCommand.cpp", "lib/BuildSystem/ShellCommand.cpp", "lib/Commands/BuildEngineCommand.cpp",
         "lib/Commands/NinjaBuildCommand.cpp", "products/libllbuild/Core-C-API.cpp", "products/libllbuild/BuildSystem-C-API.cpp",
         "lib/Basic/Subprocess.cpp", "lib/Basic/LaneBasedExecutionQueue.cpp", "lib/Basic/SerialQueue.cpp", "lib/Basic/ExecutionQueue.cpp"]
THOROUGH_ALL_UNITS = False
EXPLANATION = ("Decides: the cancellation routine modifies rule/task state only after its drain loop saw no outstanding task, with a "
               "lost-wake-up-free wait; it clears every work queue any engine function pushes to and resets every in-flight rule; a "
               "rule taken out of the in-progress state is either completed or has its result invalidated (the window opened by "
               "clearing its dependencies at task creation); every failing exit of the work loop passes the cancellation routine "
               "and the cancel flag is looked at before any work in an iteration; build() returns a value only on success; every "
               "Task::inputsAvailable override in the repository discharges its completion exactly once on every path, through "
               "the hand-off chain of Command::execute / result callbacks / process completion callbacks (cancelled paths "
               "included); the frontend resets the cancel state for a reused build system under its state mutex.")
NOT_DECIDED = "timing (returns once computing tasks have reported); absence of callbacks after return."


def run(ctx):
    prog, rep = ctx.prog, ctx.report
    E.r_cancel_drain(prog, rep)
    E.r_cancel_clears(prog, rep)
    E.r_invalid_window(prog, rep)
    E.r_cancel_on_exit(prog, rep)
    E.r_cancel_delegates(prog, rep)
    E.r_outstanding_count(prog, rep)      # the drain waits for this count to reach zero
    E.r_cv_protocol(prog, rep)
    # cancellation below the engine: the execution queue (an anchor file of this property) as C16 decides it
    from sa.report import run_subset
    from rules import C16
    run_subset(C16, ctx, {"R-CANCEL-CLOSES-GROUP", "R-QUEUE-CV", "R-QUEUE-DRAIN", "R-SPAWN-UNDER-LOCK", "R-PROC-ORDER", "R-EINTR-RETRY"})
    E.r_epoch_persist(prog, rep)
    from rules import C04
    C04.engine_txn_pairing(prog, rep.rule("R-TXN-PAIRING", "a successful buildStarted is followed on every path out of build() — the early exit of a build "
                                            "cancelled before it starts included — by buildComplete (scope guard registered right after the start, run on every exit): an open "
                                            "transaction makes every later build on this engine fail and locks the database for other engines", floor=4), with_epoch=False)
    T.r_complete_once(prog, rep)
    T.r_frontend_reset(prog, rep)
from rules.engine_variants import C05 as VARIANTS  # noqa: E402
