"""C17 — Ninja manifests mean what Ninja says they mean (lexical and lookup tables)."""
from sa.facts import expr_plain, AnalysisBroken, expr_str, qmatch, strip_casts, relpath, core
from sa import cfg
from sa.cfg import BranchFacts
from sa.flow import arg_nodes
from rules import C19

UNITS = ["lib/Ninja/Lexer.cpp", "lib/Ninja/Parser.cpp", "lib/Ninja/ManifestLoader.cpp", "lib/Ninja/Manifest.cpp",
         "lib/Basic/ShellUtility.cpp"]
THOROUGH_ALL_UNITS = False

EXPLANATION = (
    "Decides the lexical and lookup tables the statement names: keywords are compared over their whole length under "
    "the matching length case and map to their own token kinds; the character fetch cannot turn bytes 0x80-0xFF into "
    "the end marker; build-parameter lookup consults in/out, build-level, rule-level (lazily evaluated), then "
    "file-level bindings in that order, with $in/$out shell-quoted exactly for 'command'; build-level values are "
    "evaluated eagerly and rule-level text stored raw; include shares and subninja nests the scope; evalString's "
    "$-escape table is exactly Ninja's; the shell pass-through set contains no character POSIX sh treats specially.")
NOT_DECIDED = ("agreement with Ninja's evaluation over all manifests (differential, value-level); that a quoted path "
               "round-trips through /bin/sh for every byte string (only the pass-through set and the quote rewrite "
               "are decided).")

KEYWORDS = {"rule": "KWRule", "pool": "KWPool", "build": "KWBuild", "default": "KWDefault",
            "include": "KWInclude", "subninja": "KWSubninja"}

# POSIX sh: characters special unconditionally or at word start
SHELL_SPECIAL = set("|&;<>()$`\\\"' \t\n*?[#~!{}^")
NINJA_ESCAPES = {ord("\n"), ord(" "), ord(":"), ord("$"), ord("{"), ord("}")}


def r_fresh_buffers(prog, rep):
    """shared by C17 and C18: the loader evaluates each build attribute into a buffer; the evaluator *appends*."""
    r = rep.rule("R-FRESH-BUFFER", "lookupNamedBuildParameter appends the attribute's value to the buffer it is given, and the flags (`generator`, `restat`), the pool name "
                                   "and the response-file settings are read off that buffer: every call gets a buffer nothing was appended to since it was declared or "
                                   "cleared — a shared scratch buffer not cleared in between makes `pool = x` read as `generator = x`", floor=6)
    n_calls = 0
    for f in prog.functions.values():
        if f.is_lambda or "ManifestLoaderImpl" not in (f.cls or ""):
            continue
        calls = [c for c in f.calls() if (c.get("fn") or "").endswith("lookupNamedBuildParameter")]
        if not calls:
            continue
        bufs = {}
        for c in calls:
            a = arg_nodes(c)
            b = core(a[-1]) if a else None
            if b is not None and b.get("k") == "ref" and b.get("did") is not None:
                bufs.setdefault(b["did"], []).append(c)
        for did, cs in bufs.items():
            for c in cs:
                n_calls += 1
                cp = cfg.pos_of(f, c)
                attr = expr_str(core(arg_nodes(c)[2]))[:24] if len(arg_nodes(c)) > 2 else "?"
                bad = None
                for c2 in cs:
                    if c2 is c and not any(a.get("k") in ("for", "while", "do", "forrange") for a in f.ancestors(c)):
                        continue

                    def clears(p, e, did=did):
                        n = cfg.elem_node(f, e)
                        return n is not None and n.get("k") == "call" and (n.get("fn") or "").split("::")[-1] in ("clear", "resize", "set_size") and "obj" in n and \
                            core(n.child("obj")) is not None and core(n.child("obj")).get("did") == did
                    w = cfg.path_exists(f, cfg.pos_of(f, c2), lambda p, e, cp=cp: p == cp, avoid=clears)
                    if w is not None:
                        bad = c2
                        break
                r.check(bad is None, "%s|%s" % (f.name.split("::")[-1], attr), "", "attribute %s is evaluated into a buffer that still holds the value of %s (appended, not replaced)" % (
                    attr, expr_str(core(arg_nodes(bad)[2]))[:24] if bad is not None and len(arg_nodes(bad)) > 2 else "?"), f, c)
    if n_calls < 6:
        raise AnalysisBroken("R-FRESH-BUFFER: only %d buffer-taking attribute lookups found" % n_calls)


def r_lexer_mode(prog, rep):
    r = rep.rule("R-LEXER-MODE", "the parser puts the lexer into a special mode (identifier-specific, path, variable string) only for the tokens that need it: from every "
                                 "such switch each path out of the function passes a switch back to the normal mode — directly or inside a callee that switches back "
                                 "on all of its paths.  A leaked identifier-specific mode makes the next line's keyword an identifier and drops the statement", floor=6)
    fns = [f for f in prog.functions.values() if not f.is_lambda and "ParserImpl" in (f.cls or "") and f.calls("Lexer::setMode")]
    if len(fns) < 5:
        raise AnalysisBroken("R-LEXER-MODE: only %d parser functions set the lexer mode" % len(fns))

    def mode_of(c):
        return expr_str(core(arg_nodes(c)[0])).split("::")[-1] if arg_nodes(c) else "?"
    def lambda_restores(f, call):
        """a call of a local lambda (`fail(message, /*resetMode=*/true)`) switches back when, with the literal arguments it is given, every path
        through the lambda passes setMode(None)"""
        if call.get("k") != "call" or call.get("op") != "()" or "obj" not in call:
            return False
        o = core(call.child("obj"))
        if o is None or o.get("k") != "ref":
            return False
        lam = None
        for d in f.nodes:
            if d.get("k") == "decl":
                for v in d.get("vars", []):
                    if v.get("did") == o.get("did") and "init" in v:
                        for x in f.nodes[v["init"]].walk():
                            if x.get("k") == "lambda":
                                lam = prog.lambda_fn(x)
        if lam is None:
            return False
        nn = [c for c in lam.calls("Lexer::setMode") if mode_of(c) == "None"]
        if not nn:
            return False
        env = {}
        for prm, a in zip(lam.params, arg_nodes(call)):
            ca = core(a) if a is not None else None
            if ca is not None and ca.get("k") == "bool" and prm.get("n"):
                env[prm["n"]] = bool(ca.get("v"))
        np_ = set(cfg.pos_of(lam, c) for c in nn)
        return cfg.reach_under(lam, env, lambda p, e: e == "EXIT", lambda p, e: p in np_) is None
    restoring = set()
    for f in fns:
        nones = [c for c in f.calls("Lexer::setMode") if mode_of(c) == "None"]
        lcalls = [c for c in f.calls() if lambda_restores(f, c)]
        if (nones or lcalls) and cfg.must_pass_through(f, cfg.entry_pos(f), lambda p, e, f=f, nones=nones + lcalls: any(cfg.elem_node(f, e) is c for c in nones))[0]:
            restoring.add(f.key)
    n = 0
    for f in sorted(fns, key=lambda g: g.line):
        sets = f.calls("Lexer::setMode")
        for c in sets:
            if mode_of(c) == "None":
                continue
            n += 1

            def settles(p, e, f=f, c=c):
                x = cfg.elem_node(f, e)
                if x is None or x is c:
                    return False
                if x.get("k") == "call" and (x.get("fn") or "").endswith("Lexer::setMode"):
                    return True
                return x.get("k") == "call" and (x.get("fk") in restoring or lambda_restores(f, x))
            w = cfg.path_exists(f, cfg.pos_of(f, c), cfg.is_exit, avoid=settles)
            r.check(w is None, "%s|%s@%d" % (f.name.split("::")[-1], mode_of(c), sum(1 for c2 in sets if c2.line < c.line and mode_of(c2) == mode_of(c))), "",
                    "the lexer can be left in %s mode when %s returns" % (mode_of(c), f.name.split("::")[-1]), f, c)
    if n < 6:
        raise AnalysisBroken("R-LEXER-MODE: only %d special-mode switches found" % n)


def r_input_classes(prog, rep):
    """shared with C18 (order-only vs implicit inputs decide what triggers a rebuild)"""
    ri = rep.rule("R-INPUT-CLASSES", "explicit, implicit and order-only inputs: `|` starts the implicit and `||` the order-only inputs; the parser counts the explicit "
                                     "inputs before `|` and the implicit ones between `|` and `||`; the command's accessors partition its input list in that "
                                     "order with those counts; the loader passes both counts on in that order", floor=7)
    pb = prog.fn("ParserImpl::parseBuildSpecifier")
    bfp = BranchFacts(pb, kill="assign")
    decls = {v["n"]: pb.nodes[v["init"]] for d in pb.nodes if d.get("k") == "decl" for v in d["vars"] if "init" in v}
    consumes = [c for c in pb.calls() if (c.get("fn") or "").endswith("consumeIfToken")]
    kinds = [[x.get("n") for x in arg_nodes(c)[0].walk() if x.get("k") == "ref" and x.get("dk") == "enumconst"][0] for c in consumes if arg_nodes(c)]
    pk = [k_ for k_ in kinds if k_ in ("Pipe", "PipePipe")]
    ri.check(pk == ["Pipe", "PipePipe"], "parseBuildSpecifier|pipe-then-pipepipe", "%s" % pk, "input class separators are consumed as %s" % pk, pb)
    ne, ni = decls.get("numExplicitInputs"), decls.get("numImplicitInputs")
    pipes = {k_: c for k_, c in zip(kinds, consumes)}
    ok = ne is not None and expr_plain(ne) == "inputs.size()" and "Pipe" in pipes and \
        cfg.pos_of(pb, [n for n in pb.nodes if n.get("k") == "decl" and any(v["n"] == "numExplicitInputs" for v in n["vars"])][0]) is not None
    if ok:
        dne = [n for n in pb.nodes if n.get("k") == "decl" and any(v["n"] == "numExplicitInputs" for v in n["vars"])][0]
        dni = [n for n in pb.nodes if n.get("k") == "decl" and any(v["n"] == "numImplicitInputs" for v in n["vars"])]
        # explicit count is taken before `|` is consumed; implicit count after it and before `||`
        ok = cfg.path_exists(pb, cfg.pos_of(pb, pipes["Pipe"]), lambda p, e, t=cfg.pos_of(pb, dne): p == t) is None and len(dni) == 1 and \
            cfg.dominated_by(pb, cfg.pos_of(pb, dni[0]), lambda p, e, t=cfg.pos_of(pb, pipes["Pipe"]): p == t)[0] and \
            cfg.path_exists(pb, cfg.pos_of(pb, pipes["PipePipe"]), lambda p, e, t=cfg.pos_of(pb, dni[0]): p == t) is None and \
            expr_plain(ni).replace(" ", "") in ("(inputs.size()-numExplicitInputs)",)
    ri.check(ok, "parseBuildSpecifier|counts", "", "explicit / implicit counts are not taken at the `|` and `||` boundaries", pb)
    act = pb.calls("ParseActions::actOnBeginBuildDecl")
    ri.check(len(act) == 1 and [expr_plain(a) for a in arg_nodes(act[0])][3:5] == ["numExplicitInputs", "numImplicitInputs"], "parseBuildSpecifier|counts-passed-in-order", "",
             "counts passed to the actions as %s" % ([expr_plain(a) for a in arg_nodes(act[0])][3:5] if act else None), pb)
    bd2 = prog.fn("ManifestLoaderImpl::actOnBeginBuildDecl")
    cons = [n for n in bd2.nodes if n.get("k") in ("construct", "new") and "ninja::Command::Command" in (n.get("fn") or "")]
    cons = cons or [x for n in bd2.nodes if n.get("k") == "new" for x in n.walk() if x.get("k") == "construct" and "Command::Command" in (x.get("fn") or "")]
    okc = len(cons) == 1 and [expr_plain(a) for a in arg_nodes(cons[0])][-2:] == ["numExplicitInputs", "numImplicitInputs"] and \
        [expr_plain(a) for a in arg_nodes(cons[0])][1:3] == ["outputs", "inputs"]
    ri.check(okc, "actOnBeginBuildDecl|command-built-with-counts", "", "the command is not built from (rule, outputs, inputs, explicit count, implicit count)", bd2)
    want = {"explicitInputs_begin": "inputs.begin()", "explicitInputs_end": "explicitInputs_begin() + getNumExplicitInputs()", "implicitInputs_begin": "explicitInputs_end()",
            "implicitInputs_end": "implicitInputs_begin() + getNumImplicitInputs()", "orderOnlyInputs_begin": "implicitInputs_end()", "orderOnlyInputs_end": "inputs.end()",
            "getNumExplicitInputs": "numExplicitInputs", "getNumImplicitInputs": "numImplicitInputs"}
    for nm, w_ in sorted(want.items()):
        g_ = [x for x in prog.fns("ninja::Command::" + nm)]
        if len(g_) != 1:
            raise AnalysisBroken("Command::%s not found" % nm)
        rets = [x for x in g_[0].nodes if x.get("k") == "return"]
        got = expr_plain(rets[0].child("e")) if len(rets) == 1 else "?"
        flat = lambda t: t.replace("this->", "").replace("(", "").replace(")", "").replace(" ", "")
        ri.check(flat(got) == flat(w_), "Command::%s" % nm, "", "Command::%s returns %s, expected %s" % (nm, got, w_), g_[0])
    lx = prog.fn("ninja::Lexer::lex")
    sets = [c for c in lx.calls() if (c.get("fn") or "").endswith("setTokenKind") and any(x.get("n") in ("Pipe", "PipePipe") for x in c.walk() if x.get("k") == "ref")]
    bfl = BranchFacts(lx, kill="assign")
    okl = len(sets) == 2
    for c in sets:
        k_ = [x.get("n") for x in c.walk() if x.get("k") == "ref" and x.get("n") in ("Pipe", "PipePipe")][0]
        st = bfl.at_node(c) or frozenset()
        first = any(p_ and a_ in ("(124 == c)", "switch:c=124") for a_, p_ in st)
        second = any(p_ and a_.startswith("(124 == ") and a_ != "(124 == c)" for a_, p_ in st)
        okl = okl and first and ((k_ == "PipePipe") == second)
    ri.check(okl, "Lexer::lex|pipe-tokens", "", "`|` / `||` are not lexed as Pipe / PipePipe", lx)

    return ri


def run(ctx):
    prog, rep = ctx.prog, ctx.report

    # ---------------------------------------------------------------- keywords
    r = rep.rule("R-KEYWORD-TABLE",
                 "in the keyword recogniser every memcmp(literal, start, L) under `case N` has L == N == strlen(literal), "
                 "is compared with 0, and returns the token kind of that keyword; every KW* kind is recognised", floor=7)
    f = prog.fn("Lexer::setIdentifierTokenKind")
    bf = BranchFacts(f, kill="assign")
    seen_kw = {}
    for c in f.calls("memcmp"):
        a = arg_nodes(c)
        lit = strip_casts(a[0])
        L = strip_casts(a[2])
        if lit is None or lit.get("k") != "str":
            lit = strip_casts(a[1])
        if lit is None or lit.get("k") != "str":
            raise AnalysisBroken("memcmp in setIdentifierTokenKind without a literal operand")
        word = lit["v"]
        site = "setIdentifierTokenKind|%s" % word
        st = bf.at_node(c) or frozenset()
        case_n = cfg.established_cases(st, [len(word)] + list(range(1, 16)))
        Lv = L.get("v") if L is not None and L.get("k") == "int" else None
        ok = Lv == len(word) and case_n == [str(len(word))]
        if not ok:
            r.violation(site, "memcmp(%r, …, %s) under case %s: compared length, case label and keyword length must all be %d"
                        % (word, Lv, ",".join(case_n) or "?", len(word)), f, c)
            continue
        # the enclosing if: `memcmp(..) == 0` and then-branch returns setTokenKind(result, KWx)
        iff = None
        for anc in f.ancestors(c):
            if anc.get("k") == "if":
                iff = anc
                break
        cond_ok = False
        kind = None
        if iff is not None:
            cnd = strip_casts(iff.child("c"))
            if cnd.get("k") == "bin" and cnd["op"] == "==" and {expr_str(strip_casts(cnd.child("l"))), expr_str(strip_casts(cnd.child("r")))} >= {"0"}:
                cond_ok = True
            for x in iff.child("then").walk():
                if x.get("k") == "call" and (x.get("fn") or "").endswith("setTokenKind"):
                    kind = expr_str(arg_nodes(x)[1])
        want = KEYWORDS.get(word)
        if want is None:
            r.violation(site, "unknown keyword literal %r" % word, f, c)
        elif not cond_ok or kind != want:
            r.violation(site, "keyword %r must yield %s when memcmp == 0 (found kind %s, ==0 test %s)" % (word, want, kind, cond_ok), f, c)
        else:
            r.ok(site, "case %d, length %d -> %s" % (len(word), Lv, kind), f, c)
            seen_kw[word] = kind
    enum = prog.enum("llbuild::ninja::Token::Kind")["enumerators"]
    val = {e["n"]: e["v"] for e in enum}
    kinds = set(e["v"] for e in enum if e["n"].startswith("KW"))     # aliases (KWKindFirst/Last) share values
    got = set(val.get(k) for k in seen_kw.values())
    r.check(kinds == got, "setIdentifierTokenKind|all-keywords",
            "%d keyword kinds recognised" % len(kinds), "keyword kind values %s vs recognised %s" % (sorted(kinds), sorted(seen_kw.values())), f)
    # keywords are only recognised for whole identifier tokens: the only caller is lexIdentifier, after the identifier loop
    callers = [g for g in prog.functions.values() for c in g.calls("Lexer::setIdentifierTokenKind")]
    r.check([g.name.split("::")[-1] for g in callers] == ["lexIdentifier"], "setIdentifierTokenKind|callers",
            "", "keyword recognition reached from %s" % [g.name for g in callers], f)

    # ---------------------------------------------------------------- char fetch (shared with C19)
    C19.r_eof_true_end(prog, rep, "R-CHAR-FETCH")

    # ---------------------------------------------------------------- lookup order
    r = rep.rule("R-LOOKUP-ORDER",
                 "build-parameter lookup: in/in_newline/out first, then build-level bindings, whose miss dominates the "
                 "rule-level lookup (evaluated lazily through the same lookup function), whose miss dominates the "
                 "file-scope lookup; $in/$out are shell-quoted exactly under the flag set for 'command'", floor=8)
    f = prog.fn("ManifestLoaderImpl::lookupBuildParameterImpl")
    bf = BranchFacts(f, kill="assign")
    finds = [c for c in f.calls("find") if c.get("ck") == "member"]
    decl_find = [c for c in finds if "getRule" not in expr_str(c.child("obj")) and "getParameters" in expr_str(c.child("obj"))]
    rule_find = [c for c in finds if "getRule" in expr_str(c.child("obj"))]
    scope_lookup = f.calls("lookupBinding")
    missing = [nm for nm, l in (("build-level", decl_find), ("rule-level", rule_find), ("file-level", scope_lookup)) if len(l) != 1]
    for nm in missing:
        r.violation("lookup|%s-present" % nm, "expected exactly one %s lookup in lookupBuildParameterImpl" % nm, f)
    if not missing:
        lookup_order(r, f, bf, decl_find, rule_find, scope_lookup)
    # shell quoting: every shellEscaped() is selected by context->shellEscapeInAndOut
    esc = f.calls("shellEscaped")
    for i, c in enumerate(esc):
        cond = None
        for anc in f.ancestors(c):
            if anc.get("k") == "cond":
                cond = anc
                break
        ok = cond is not None and expr_str(strip_casts(cond.child("c"))).endswith("shellEscapeInAndOut") and \
            any(x is c for x in cond.child("a").walk())
        r.check(ok, "lookup|shell-escape#%d" % i, "", "shellEscaped() not selected by shellEscapeInAndOut", f, c)
    r.check(len(esc) == 2, "lookup|shell-escape-in-and-out", "", "expected $in and $out to be shell-escaped (found %d sites)" % len(esc), f)
    g = prog.fn("ManifestLoaderImpl::lookupNamedBuildParameter")
    il = [n for n in g.nodes if n.get("k") == "initlist" and "LookupContext" in n.ctype()]
    ok = False
    if il:
        a = arg_nodes(il[0])
        ok = len(a) >= 4 and a[3] is not None and '"command"' in expr_str(a[3]) and "==" in expr_str(a[3]).replace("operator==", "==")
    r.check(ok, "lookup|escape-flag-command", "", "shellEscapeInAndOut is not `name == \"command\"`", g)

    # eager build-level, raw rule-level
    g = prog.fn("ManifestLoaderImpl::actOnBuildBindingDecl")
    evs = g.calls("evalString")
    stores = [n for n in g.nodes if n.get("k") == "call" and n.get("op") == "=" and "getParameters" in expr_str(n)]
    r.check(len(evs) == 1 and len(stores) == 1 and "value" in expr_str(arg_nodes(stores[0])[0] if arg_nodes(stores[0]) else None),
            "binding|build-level-eager", "", "build-level binding is not stored as the evaluated value", g)
    # ...and only against the enclosing file / subninja scope: bindings already made on the same build statement are not visible to later ones
    readers = []
    for h in [g] + prog.lambdas_of(g):
        for c in h.calls():
            if c.get("k") == "call" and "obj" in c and "getParameters" in expr_str(c.child("obj")) and \
                    (c.get("fn") or "").split("::")[-1] in ("find", "lookup", "count", "at", "begin", "end", "equal_range", "contains"):
                readers.append((h, c))
    scope_arg = [expr_plain(arg_nodes(c)[1]) for c in evs if len(arg_nodes(c)) == 3]
    r.check(not readers and (scope_arg == ["getCurrentScope()"] or not scope_arg), "binding|build-level-sees-file-scope-only", "",
            "the value of a build-level binding is evaluated with access to the bindings already made on the same build statement (Ninja evaluates it in the "
            "enclosing file scope only)", readers[0][0] if readers else g, readers[0][1] if readers else None)
    g = prog.fn("ManifestLoaderImpl::actOnRuleBindingDecl")
    r.check(not g.calls("evalString"), "binding|rule-level-raw", "", "rule-level binding is evaluated at declaration time", g)
    g = prog.fn("ManifestLoaderImpl::actOnIncludeDecl")
    bfg = BranchFacts(g, kill="assign")
    # the sites that enter a file: enterFile(path, scope, tok) itself, or a helper of the loader that forwards its scope parameter to it
    ef = [(c, 1) for c in g.calls("enterFile")]
    for c in g.calls():
        h = prog.functions.get(c.get("fk")) if c.get("fk") else None
        if h is None or h is g or h.is_lambda or h.cls != g.cls:
            continue
        inner = h.calls("enterFile")
        if len(inner) == 1:
            sc = strip_casts(arg_nodes(inner[0])[1])
            idx = [i for i, p_ in enumerate(h.params) if sc is not None and sc.get("k") == "ref" and p_.get("did") == sc.get("did")]
            if idx:
                ef.append((c, idx[0]))
    okc = len(ef) == 2
    detail = ""
    if okc:
        for c, sidx in ef:
            st = bfg.at_node(c) or frozenset()
            is_incl = ("isInclude", True) in st
            is_sub = ("isInclude", False) in st
            scope_arg = expr_str(arg_nodes(c)[sidx])
            if is_incl and "getCurrentScope" not in scope_arg:
                okc, detail = False, "include does not reuse the current scope"
            if is_sub and "getCurrentScope" in scope_arg:
                okc, detail = False, "subninja does not get a nested scope"
            if not is_incl and not is_sub:
                okc, detail = False, "enterFile not decided by isInclude"
        # nested scope's parent is the current scope
        decls = [v for n in g.nodes if n.get("k") == "decl" for v in n["vars"] if "Scope" in g.db_types[v["t"]]]
        if not decls or "getCurrentScope" not in expr_str(g.nodes[decls[0]["init"]]):
            okc, detail = False, "subninja scope is not a child of the current scope"
    r.check(okc, "include|scope-sharing", "", detail or "expected two enterFile calls", g)

    # ---------------------------------------------------------------- rules are scoped like variables
    rs = rep.rule("R-RULE-SCOPE-CHAIN", "a build statement resolves its rule name the way variables are resolved: in the current scope, then in the enclosing "
                                        "scopes (a subninja file may use the rules of the files above it, and the built-in phony rule); a duplicate is diagnosed "
                                        "only within one scope", floor=3)
    bd = prog.fn("ManifestLoaderImpl::actOnBeginBuildDecl")
    lb = prog.fn("ninja::Scope::lookupBinding")
    walks_vars = any(x.get("k") == "member" and x.get("n") == "parent" for x in lb.nodes) and any((c.get("fn") or "").endswith("Scope::lookupBinding") for c in lb.calls())
    rs.check(walks_vars, "Scope::lookupBinding|walks-parents", "", "variable lookup does not fall back to the parent scope", lb)

    def walks_parents(fn_, depth=0):
        """does fn_ (or a Scope method it calls) consult `parent` / getParent()?"""
        if any(x.get("k") == "member" and x.get("n") == "parent" for x in fn_.nodes) or any((c.get("fn") or "").endswith("Scope::getParent") for c in fn_.calls()):
            return True
        if depth < 2:
            for c in fn_.calls():
                nm = c.get("fn") or ""
                if "ninja::Scope::" in nm and not nm.endswith(("getRules", "getBindings")):
                    for g_ in prog.fns(nm):
                        if g_ is not fn_ and walks_parents(g_, depth + 1):
                            return True
        return False
    finds = [c for c in bd.calls() if (c.get("fn") or "").split("::")[-1] == "find" and "getRules" in expr_str(c.child("obj"))]
    scope_calls = [c for c in bd.calls() if "ninja::Scope::" in (c.get("fn") or "") and "ule" in (c.get("fn") or "").split("::")[-1] and
                   not (c.get("fn") or "").endswith("getRules")]
    ok = False
    why = "the rule name is looked up in the current scope only: a subninja file cannot use a rule (or phony) declared above it"
    if scope_calls:
        ok = any(walks_parents(g_) for c in scope_calls for g_ in prog.fns(c.get("fn")))
    if not ok and finds:
        # an explicit loop over the scope chain around the find
        for c in finds:
            loops = [a for a in bd.ancestors(c) if a.get("k") in ("for", "while", "do")]
            if any(any((x.get("fn") or "").endswith("Scope::getParent") for x in l.walk() if x.get("k") == "call") for l in loops):
                ok = True
    if not finds and not scope_calls:
        why = "actOnBeginBuildDecl no longer resolves the rule name through the scope"
    rs.check(ok, "actOnBeginBuildDecl|rule-lookup-walks-parents", "", why, bd, (finds or scope_calls or [None])[0])
    rdcl = prog.fn("ManifestLoaderImpl::actOnBeginRuleDecl")
    okd = any("getCurrentScope" in expr_str(c.child("obj")) for c in rdcl.calls() if "obj" in c and "getRules" in expr_str(c)) and not walks_parents(rdcl)
    rs.check(okd, "actOnBeginRuleDecl|duplicate-only-in-own-scope", "", "a rule declaration is checked against / stored in something other than the current scope", rdcl)

    r_input_classes(prog, rep)
    r_fresh_buffers(prog, rep)
    r_lexer_mode(prog, rep)

    # ---------------------------------------------------------------- escapes
    r = rep.rule("R-ESCAPES", "evalString handles exactly Ninja's $-escapes ($\\n, $ , $:, $$, ${name}, $name) and reports everything else", floor=3)
    f = [x for x in prog.fns("ManifestLoaderImpl::evalString") if len(x.params) == 5]
    if len(f) != 1:
        raise AnalysisBroken("string evaluator not found")
    f = f[0]
    chars = set()
    for n in f.nodes:
        if n.get("k") == "bin" and n["op"] in ("==", "!="):
            for a, b in ((n.child("l"), n.child("r")), (n.child("r"), n.child("l"))):
                sa_, sb = strip_casts(a), strip_casts(b)
                if sb is not None and sb.get("k") == "char" and sa_ is not None and expr_str(sa_) in ("c", "(*pos)"):
                    chars.add(sb["v"])
    r.check(chars == NINJA_ESCAPES, "evalString|escape-set", "", "escape characters %s differ from Ninja's %s" % (
        sorted(chr(c) for c in chars), sorted(chr(c) for c in NINJA_ESCAPES)), f)
    errs = [c for c in f.calls() if c.get("ck") in ("operator", "indirect") and "error" in expr_str(c.child("obj") or c.child("callee"))]
    msgs = sorted(set(x["v"] for c in errs for x in c.walk() if x.get("k") == "str"))
    r.check(len(msgs) >= 4, "evalString|errors", "%d distinct diagnostics" % len(msgs), "expected diagnostics for trailing '$', bad escape, bad name, missing '}'", f)
    # the two name classes: inside `${…}` a name is a full identifier ([a-zA-Z0-9_.-]); the unbraced `$name` form takes the simple class (no '.')
    def in_braced_region(c):
        for anc in f.ancestors(c):
            if anc.get("k") == "if" and any(x.get("k") == "char" and x.get("v") == ord("{") for x in anc.child("c").walk()) and \
                    "then" in anc and any(y is c for y in anc.child("then").walk()):
                return True
            if anc.get("k") == "case" and any(x.get("k") == "char" and x.get("v") == ord("{") for x in anc.walk() if x is not c and x.get("k") == "char"):
                return True
        return False
    idc = [(c, (c.get("fn") or "").split("::")[-1]) for c in f.calls() if (c.get("fn") or "").split("::")[-1] in ("isIdentifierChar", "isSimpleIdentifierChar")]
    braced = [(c, nm) for c, nm in idc if in_braced_region(c)]
    plain = [(c, nm) for c, nm in idc if not in_braced_region(c)]
    if not braced or not plain:
        raise AnalysisBroken("evalString: %d identifier tests inside the `${` branch, %d outside" % (len(braced), len(plain)))
    badb = [c for c, nm in braced if nm != "isIdentifierChar"]
    r.check(not badb, "evalString|braced-name-class", "%d tests" % len(braced), "a `${name}` reference is scanned with the simple-name class: a dotted name (legal in a binding and in braces) is rejected and expands to nothing", f, badb[0] if badb else None)
    badp = [c for c, nm in plain if nm != "isSimpleIdentifierChar"]
    r.check(not badp, "evalString|simple-identifier", "%d tests" % len(plain), "an unbraced `$name` reference is scanned with the full-name class: `$out.d` would swallow the `.d`", f, badp[0] if badp else None)

    # ---------------------------------------------------------------- `$`-newline inside a path
    r = rep.rule("R-PATH-CONTINUATION", "a path token ends at the first space, so after a `$`-escaped newline the path lexer itself takes the next line's leading blanks "
                                        "into the token (Ninja: `$\\n[ ]*` is skipped inside a path; evalString then drops them) — otherwise `a$\\n  b.c` stops after "
                                        "the newline and the indented remainder is read as a new, malformed statement", floor=1)
    lp_ = prog.fn("Lexer::lexPathString")
    dollar = [n for n in lp_.nodes if n.get("k") == "if" and any(x.get("k") == "char" and x.get("v") == ord("$") for x in n.child("c").walk())]
    okc = False
    if len(dollar) >= 1:
        def nl_guard(fn_, node_):
            return any(a_.get("k") == "if" and any(x.get("k") == "char" and x.get("v") == ord("\n") for x in a_.child("c").walk()) for a_ in fn_.ancestors(node_))

        def blank_loops(fn_, root):
            return [w_ for w_ in root.walk() if w_.get("k") in ("while", "for", "do") and "isNonNewlineSpace" in expr_str(w_.child("c")) and
                    "peekNextChar" in expr_str(w_.child("c")) and any(c_.get("k") == "call" and (c_.get("fn") or "").endswith("getNextChar") for c_ in w_.child("body").walk())]
        for d_ in dollar:
            for w_ in blank_loops(lp_, d_.child("then")):
                okc = okc or nl_guard(lp_, w_)          # ... under the test that the escaped character was the newline
            # or in a small helper of the lexer called from the branch
            for c_ in d_.child("then").walk():
                h_ = prog.functions.get(c_.get("fk")) if c_.get("k") == "call" and c_.get("fk") else None
                if h_ is not None and h_ is not lp_ and (h_.cls == lp_.cls or relpath(h_.file) == relpath(lp_.file)) and h_.nodes:
                    root = next((x for x in h_.nodes if x.get("k") == "compound"), None)
                    for w_ in (blank_loops(h_, root) if root is not None else []):
                        okc = okc or nl_guard(lp_, c_) or nl_guard(h_, w_)
    else:
        raise AnalysisBroken("lexPathString: `$` branch not found")
    r.check(okc, "lexPathString|blanks-after-escaped-newline", "", "after `$` + newline the path lexer does not consume the following blanks", lp_, dollar[0])

    # ---------------------------------------------------------------- shell-safe set
    r = rep.rule("R-SHELL-SAFE-SET",
                 "the pass-through set of appendShellEscapedString contains no character POSIX sh treats specially; "
                 "everything else is single-quoted with ' rewritten as '\\''", floor=3)
    f = prog.fn("appendShellEscapedString")
    fn_calls = f.calls("find_first_not_of")
    if len(fn_calls) != 1:
        raise AnalysisBroken("appendShellEscapedString: pass-through test not found")
    wl_ref = strip_casts(arg_nodes(fn_calls[0])[0])
    wl = None
    for x in wl_ref.walk():
        if x.get("k") == "ref":
            for d in f.nodes:
                if d.get("k") == "decl":
                    for v in d["vars"]:
                        if v["did"] == x.get("did") and "init" in v:
                            for y in f.nodes[v["init"]].walk():
                                if y.get("k") == "str":
                                    wl = y["v"]
        if x.get("k") == "str":
            wl = x["v"]
    if wl is None:
        raise AnalysisBroken("pass-through set literal not found")
    bad = sorted(set(wl) & SHELL_SPECIAL)
    for ch in bad:
        r.violation("appendShellEscapedString|pass-through|%s" % ch, "character %r is passed through unquoted but is special to sh" % ch, f, fn_calls[0])
    if not bad:
        r.ok("appendShellEscapedString|pass-through", "%d characters, none special" % len(set(wl)), f)
    lits = [x["v"] for x in f.nodes if x.get("k") == "str"]
    r.check("'\\''" in lits, "appendShellEscapedString|quote-rewrite", "", "single quote is not rewritten as '\\''", f)
    # the unquoted return is taken only when no character outside the set exists
    bf = BranchFacts(f, kill="assign")
    outs = [c for c in f.calls() if c.get("op") == "<<" and arg_nodes(c) and expr_str(core(arg_nodes(c)[-1])) == "string" and
            expr_str(c.child("obj") or arg_nodes(c)[0]) == "os"]
    ok = False
    for c in outs:
        st = bf.at_node(c) or frozenset()
        if any(p and "npos" in a and "pos" in a and " == " in a for a, p in st):
            ok = True
    r.check(ok, "appendShellEscapedString|bare-only-if-all-safe", "", "string emitted bare without the all-safe test", f)


def lookup_order(r, f, bf, decl_find, rule_find, scope_lookup):
    # special names are decided before any map lookup
    st = bf.at_node(decl_find[0]) or frozenset()
    names_excluded = set()
    for a, p in st:
        for nm in ("in", "in_newline", "out"):
            if ('"%s"' % nm) in a and ((" == " in a and not p) or (" != " in a and p)):
                names_excluded.add(nm)
    r.check(names_excluded == {"in", "in_newline", "out"}, "lookup|special-names-first",
            "in, in_newline, out handled before map lookups", "build-level lookup reached without excluding %s" %
            sorted({"in", "in_newline", "out"} - names_excluded), f, decl_find[0])

    def miss_fact(st, var_find):
        # `it == X.end()` established (the lookup missed)
        for a, p in st:
            if p and " == " in a and ".end()" in a:
                yield a
    st_rule = bf.at_node(rule_find[0]) or frozenset()
    decl_var = var_assigned_from(f, decl_find[0])
    rule_var = var_assigned_from(f, rule_find[0])
    ok = any(decl_var and (decl_var in a) and "getRule" not in a for a in miss_fact(st_rule, None))
    r.check(ok, "lookup|build-before-rule", "", "rule-level lookup is reachable without a build-level miss", f, rule_find[0])
    st_scope = bf.at_node(scope_lookup[0]) or frozenset()
    ok1 = any(decl_var and decl_var in a.replace(rule_var or "\0", "\0") for a in miss_fact(st_scope, None))
    ok2 = any(rule_var and rule_var in a for a in miss_fact(st_scope, None))
    r.check(ok1 and ok2, "lookup|rule-before-file", "", "file-scope lookup is reachable without both misses", f, scope_lookup[0])
    # hit on the build level writes the stored (already evaluated) value, hit on the rule level evaluates lazily
    ev = f.calls("evalString")
    ok = len(ev) == 1 and any(rule_var and rule_var in expr_str(a) for a in arg_nodes(ev[0]) if a is not None) and \
        any(x.get("k") == "ref" and x.get("n") == "lookupBuildParameter" for a in arg_nodes(ev[0]) if a is not None for x in a.walk())
    r.check(ok, "lookup|rule-lazy-eval", "", "rule-level text is not evaluated through evalString with the same lookup", f, ev[0] if ev else None)
    stv = bf.at_node(ev[0]) if ev else None
    r.check(stv is not None and any(p and " != " in a and ".end()" in a and rule_var in a for a, p in stv), "lookup|rule-hit-guard", "",
            "evalString of the rule text is not guarded by a rule-level hit", f, ev[0] if ev else None)


def var_assigned_from(f, call):
    for n in f.nodes:
        if n.get("k") == "decl":
            for v in n["vars"]:
                if "init" in v and any(x is call for x in f.nodes[v["init"]].walk()):
                    return v["n"]
    return None


VARIANTS = [
    dict(name="build-binding-sees-earlier-build-bindings", file="lib/Ninja/ManifestLoader.cpp",
         old="    SmallString<256> value;\n    evalString(valueTok, getCurrentScope(), value);\n    \n    decl->getParameters()[name] = value.str();",
         new="    SmallString<256> value;\n    llvm::raw_svector_ostream os(value);\n    evalString(nullptr, StringRef(valueTok.start, valueTok.length), os,\n               /*Lookup=*/ [&](void*, StringRef var, raw_ostream& result) {\n                 auto it = decl->getParameters().find(var);\n                 if (it != decl->getParameters().end())\n                   result << it->second;\n                 else\n                   result << getCurrentScope().lookupBinding(var);\n               },\n               /*Error=*/ [this, &valueTok](const std::string& msg) {\n                 error(msg, valueTok);\n               });\n    decl->getParameters()[name] = value.str();",
         expect=("R-LOOKUP-ORDER", "build-level-sees-file-scope-only")),
    dict(name="implicit-count-includes-order-only", file="lib/Ninja/Parser.cpp",
         edits=[("  unsigned numImplicitInputs = inputs.size() - numExplicitInputs;\n\n  // Parse the order-only inputs, if present.\n  if (consumeIfToken(Token::Kind::PipePipe)) {\n    while (tok.tokenKind == Token::Kind::String) {\n      inputs.push_back(consumeExpectedToken(Token::Kind::String));\n    }\n  }\n",
                 "  // Parse the order-only inputs, if present.\n  if (consumeIfToken(Token::Kind::PipePipe)) {\n    while (tok.tokenKind == Token::Kind::String) {\n      inputs.push_back(consumeExpectedToken(Token::Kind::String));\n    }\n  }\n  unsigned numImplicitInputs = inputs.size() - numExplicitInputs;\n")],
         expect=("R-INPUT-CLASSES", "parseBuildSpecifier|counts")),
    dict(name="order-only-starts-at-explicit-end", file="include/llbuild/Ninja/Manifest.h",
         old="  const std::vector<Node*>::const_iterator orderOnlyInputs_begin() const {\n    return implicitInputs_end();", new="  const std::vector<Node*>::const_iterator orderOnlyInputs_begin() const {\n    return explicitInputs_end();",
         expect=("R-INPUT-CLASSES", "Command::orderOnlyInputs_begin")),
    dict(name="counts-swapped-into-command", file="lib/Ninja/ManifestLoader.cpp",
         old="      Command(rule, outputs, inputs, numExplicitInputs, numImplicitInputs);", new="      Command(rule, outputs, inputs, numImplicitInputs, numExplicitInputs);",
         expect=("R-INPUT-CLASSES", "command-built-with-counts")),
    dict(name="single-pipe-lexed-as-order-only", file="lib/Ninja/Lexer.cpp",
         old="      return setTokenKind(result, Token::Kind::PipePipe);\n    }\n    return setTokenKind(result, Token::Kind::Pipe);", new="      return setTokenKind(result, Token::Kind::Pipe);\n    }\n    return setTokenKind(result, Token::Kind::PipePipe);",
         expect=("R-INPUT-CLASSES", "pipe-tokens")),
    dict(name="rule-lookup-current-scope-only", file="lib/Ninja/ManifestLoader.cpp",
         old="    Rule* rule = getCurrentScope().lookupRule(name);", new="    auto rit = getCurrentScope().getRules().find(name);\n    Rule* rule = rit == getCurrentScope().getRules().end() ? nullptr : rit->second;",
         expect=("R-RULE-SCOPE-CHAIN", "rule-lookup-walks-parents")),
    dict(name="scope-rule-lookup-ignores-parent", file="include/llbuild/Ninja/Manifest.h",
         old="    if (parent)\n      return parent->lookupRule(name);\n\n    return nullptr;", new="    return nullptr;", expect=("R-RULE-SCOPE-CHAIN", "rule-lookup-walks-parents")),
    dict(name="benign-rule-lookup-explicit-loop", file="lib/Ninja/ManifestLoader.cpp",
         old="    Rule* rule = getCurrentScope().lookupRule(name);",
         new="    Rule* rule = nullptr;\n    for (const Scope* sc = &getCurrentScope(); sc && !rule; sc = sc->getParent()) {\n      auto rit = sc->getRules().find(name);\n      if (rit != sc->getRules().end()) rule = rit->second;\n    }",
         expect=None),
    dict(name="keyword-short-compare", file="lib/Ninja/Lexer.cpp",
         old='if (memcmp("include", result.start, 7) == 0)', new='if (memcmp("include", result.start, 6) == 0)',
         expect=("R-KEYWORD-TABLE", "include")),
    dict(name="keyword-wrong-kind", file="lib/Ninja/Lexer.cpp",
         old='if (memcmp("pool", result.start, 4) == 0)\n      return setTokenKind(result, Token::Kind::KWPool);',
         new='if (memcmp("pool", result.start, 4) == 0)\n      return setTokenKind(result, Token::Kind::KWRule);',
         expect=("R-KEYWORD-TABLE", "pool")),
    dict(name="lookup-rule-before-build", file="lib/Ninja/ManifestLoader.cpp",
         old="    auto it = decl->getParameters().find(name);\n    if (it != decl->getParameters().end()) {\n      result << it->second;\n      return;\n    }\n",
         new="", expect=("R-LOOKUP-ORDER", "lookup|")),
    dict(name="escape-flag-always", file="lib/Ninja/ManifestLoader.cpp",
         old='/*shellEscapeInAndOut*/ name == "command"};', new='/*shellEscapeInAndOut*/ name != "description"};',
         expect=("R-LOOKUP-ORDER", "escape-flag-command")),
    dict(name="subninja-shares-scope", file="lib/Ninja/ManifestLoader.cpp",
         old="      if (enterFile(path.str(), subninjaScope, &pathTok)) {", new="      if (enterFile(path.str(), getCurrentScope(), &pathTok)) {",
         expect=("R-LOOKUP-ORDER", "include|scope-sharing")),
    dict(name="rule-binding-eager", file="lib/Ninja/ManifestLoader.cpp",
         old="      decl->getParameters()[name] = StringRef(valueTok.start, valueTok.length);",
         new="      SmallString<256> value;\n      evalString(valueTok, getCurrentScope(), value);\n      decl->getParameters()[name] = value.str();",
         expect=("R-LOOKUP-ORDER", "rule-level-raw")),
    dict(name="escape-pipe-added", file="lib/Ninja/ManifestLoader.cpp",
         old="      if (c == ' ' || c == ':' || c == '$') {", new="      if (c == ' ' || c == ':' || c == '$' || c == '|') {",
         expect=("R-ESCAPES", "escape-set")),
    dict(name="shell-tilde-passthrough", file="lib/Basic/ShellUtility.cpp",
         old='1234567890-_/:@', new='1234567890-_/:@~', expect=("R-SHELL-SAFE-SET", "pass-through")),
    dict(name="benign-keyword-reordered", file="lib/Ninja/Lexer.cpp",
         old='    if (memcmp("rule", result.start, 4) == 0)\n      return setTokenKind(result, Token::Kind::KWRule);\n    if (memcmp("pool", result.start, 4) == 0)\n      return setTokenKind(result, Token::Kind::KWPool);',
         new='    if (memcmp("pool", result.start, 4) == 0)\n      return setTokenKind(result, Token::Kind::KWPool);\n    if (0 == memcmp("rule", result.start, 4))\n      return setTokenKind(result, Token::Kind::KWRule);',
         expect=None),
    dict(name="braced-reference-takes-simple-names-only", file="lib/Ninja/ManifestLoader.cpp", old="          if (!Lexer::isIdentifierChar(c))\n            isValid = false;", new="          if (!Lexer::isSimpleIdentifierChar(c))\n            isValid = false;",
         expect=("R-ESCAPES", "braced-name-class")),
    dict(name="unbraced-reference-takes-dotted-names", file="lib/Ninja/ManifestLoader.cpp", old="        while (pos != end && Lexer::isSimpleIdentifierChar(*pos))", new="        while (pos != end && Lexer::isIdentifierChar(*pos))",
         expect=("R-ESCAPES", "simple-identifier")),
    dict(name="path-continuation-keeps-indentation", file="lib/Ninja/Lexer.cpp", old="      // If the character was a newline, consume any leading spaces.\n      if (c == '\\n') {\n        while (isNonNewlineSpace(peekNextChar()))\n          getNextChar();\n      }\n\n      continue;",
         new="      continue;", expect=("R-PATH-CONTINUATION", "blanks-after-escaped-newline")),
    dict(name="generator-flag-read-off-the-pool-buffer", file="lib/Ninja/ManifestLoader.cpp", old="    SmallString<256> generator;\n    lookupNamedBuildParameter(decl, startTok, \"generator\", generator);\n    decl->setGeneratorFlag(!generator.str().empty());",
         new="    lookupNamedBuildParameter(decl, startTok, \"generator\", poolName);\n    decl->setGeneratorFlag(!poolName.str().empty());", expect=("R-FRESH-BUFFER", "generator")),
    dict(name="benign-scratch-buffer-cleared-between-lookups", file="lib/Ninja/ManifestLoader.cpp", old="    SmallString<256> generator;\n    lookupNamedBuildParameter(decl, startTok, \"generator\", generator);\n    decl->setGeneratorFlag(!generator.str().empty());",
         new="    poolName.clear();\n    lookupNamedBuildParameter(decl, startTok, \"generator\", poolName);\n    decl->setGeneratorFlag(!poolName.str().empty());", expect=None),
    dict(name="blank-line-in-block-leaks-identifier-mode", file="lib/Ninja/Parser.cpp", old="      // Ensure we switch out of identifier specific mode.\n      lexer.setMode(Lexer::LexingMode::None);\n      consumeExpectedToken(Token::Kind::Newline);",
         new="      consumeExpectedToken(Token::Kind::Newline);", expect=("R-LEXER-MODE", "parseParameterizedDecl")),
]
