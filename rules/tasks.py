"""Rules over the Task / Command implementations of the repository (C05, C10, C14, C18)."""
from sa.facts import AnalysisBroken, expr_str, qmatch, strip_casts, relpath, core
from sa import cfg
from sa.cfg import BranchFacts
from sa.flow import arg_nodes, mentions
from sa.once import OnceChecker, short
from sa.lockset import LockSets

COMPLETE_SINKS = [
    ("TaskInterface::spawn", 0),          # QueueJob: the execution queue runs every job exactly once (C16 R-QUEUE-DRAIN)
    ("ExecutionQueue::addJob", 0),
    ("std::thread::thread", None),
    ("<callable>releaseFn", None),        # ProcessReleaseFn implementations are checked by C16 R-RELEASE-ONCE
    ("ShellCommandHandler::execute", None),   # extension interface (no implementation in the repository): its contract is to call the completion once
    ("SerialQueue::async", 0),            # serial console queue: FIFO, drained before destruction (C16 R-QUEUE-DRAIN)
]
# bodies that pass the completion to client code through the C API: outside the repository's control
TRUSTED_CALLEES = {
    "CAPIExternalCommand::executeExternalCommand": "hands the completion to the client's execute_command[_detached|_ex] callback",
}
# overrides that delegate the decision to client code through a C callback: nothing to analyse in the repository
COMPLETE_EXEMPT = {
    "CAPITask::inputsAvailable": "forwards to the client's inputs_available callback; the client completes through llb_buildengine_task_is_complete",
}


def complete_checker(prog):
    return OnceChecker(prog, sinks=COMPLETE_SINKS, invoke_names=("complete",), token_type_pred=lambda t: "TaskInterface" in t,
                       trusted_callees=list(TRUSTED_CALLEES))


def r_complete_once(prog, rep, only_files=None, rule_id="R-COMPLETE-ONCE", floor=15):
    r = rep.rule(rule_id,
                 "every Task::inputsAvailable override discharges TaskInterface::complete exactly once on every path — directly or "
                 "through exactly one hand-off (queued job, Command::execute + result callback, process completion callback), "
                 "cancelled paths included; a path without completion hangs the build, two completions corrupt the finished queue",
                 floor=floor)
    oc = complete_checker(prog)
    ovs = [f for f in prog.overriders("Task::inputsAvailable") if f.name.split("::")[-1] == "inputsAvailable"]
    if only_files:
        ovs = [f for f in ovs if relpath(f.file) in only_files]
    for f in sorted(ovs, key=lambda f: (f.file, f.line)):
        cls = f.cls.split("::")[-1]
        site = "%s::inputsAvailable" % cls
        if site in COMPLETE_EXEMPT:
            r.exempt(site, COMPLETE_EXEMPT[site], f)
            continue
        if not f.params:
            raise AnalysisBroken("%s has no TaskInterface parameter" % f.key)
        res = oc.check_param(f, 0)
        if res is None:
            r.ok(site, "recursive", f)
            continue
        if res.observer:
            r.violation(site + "|never", "inputsAvailable never completes the task nor hands the completion on", f)
            continue
        if res.ok:
            r.ok(site, "; ".join(res.sites)[:150], f)
        else:
            seen = set()
            for kind, msg, node, path in res.problems:
                key = "%s|%s|%s" % (site, kind, problem_key(msg))
                if key in seen:
                    continue
                seen.add(key)
                r.violation(key, msg, f, node, path=path)
    for nm in sorted(oc.trusted_used):
        short_nm = "::".join(nm.split("::")[-2:])
        r.exempt(short_nm, TRUSTED_CALLEES.get(short_nm, "client callback"))
    return oc


def problem_key(msg):
    """position-free discriminator: the innermost function named in the message"""
    import re
    m = re.findall(r"(?:of|callee|override|to) ([A-Za-z_~][\w:~<>]*)", msg)
    return m[-1] if m else "self"


def r_frontend_reset(prog, rep):
    r = rep.rule("R-FRONTEND-RESET", "BuildSystemFrontend::initialize resets the cancel state of a reused build system and reads `cancelled` "
                                     "under stateMutex; cancel() sets it under the same mutex", floor=2)
    f = prog.fn("BuildSystemFrontendImpl::initialize")
    rs = f.calls("resetForBuild")
    bf = BranchFacts(f, kill="assign")
    r.check(bool(rs) and any(p and a.startswith("system") for a, p in (bf.at_node(rs[0]) or frozenset())) and
            any((not p) and a == "cancelled" for a, p in (bf.at_node(rs[0]) or frozenset())),
            "initialize|reset-on-reuse", "", "a reused build system is not reset (after the cancelled test) before the next build", f)
    # the per-build state (the cancel flag) is restored on *every* way out of build() / buildNode() — the early `return false` of a build that
    # found itself cancelled before it started included: the guard that calls resetAfterBuild is registered before any return
    from rules.engine import scope_guards
    from sa import cfg as _cfg
    for nm in ("build", "buildNode"):
        for g in [x for x in prog.functions.values() if not x.is_lambda and x.name.endswith("BuildSystemFrontendImpl::" + nm)]:
            gs = [(d, lf) for d, lf in scope_guards(prog, g) if lf.calls("resetAfterBuild")]
            rets = [x for x in g.nodes if x.get("k") == "return"]
            ok = len(gs) == 1 and bool(rets)
            late = None
            if ok:
                dp = _cfg.pos_of(g, gs[0][0])
                for x in rets:
                    if not _cfg.dominated_by(g, _cfg.pos_of(g, x), lambda p, e: p == dp)[0]:
                        ok, late = False, x
                        break
            r.check(ok, "%s|reset-guard-before-any-return" % nm, "", "%s() can return without resetAfterBuild(): a cancel that arrived before the build started stays "
                    "set and every later build on this frontend fails in initialize()" % nm, g, late)
    ra = prog.fn("BuildSystemFrontendImpl::resetAfterBuild")
    clears = [n for n in ra.nodes if n.get("k") in ("bin", "call") and n.get("op") == "=" and "cancelled" in expr_str(n.child("l") if n.get("k") == "bin" else n.child("obj"))]
    r.check(bool(clears), "resetAfterBuild|clears-cancelled", "", "resetAfterBuild does not clear the cancel flag", ra)
    for nm in ("initialize", "cancel", "resetAfterBuild"):
        g = prog.fn("BuildSystemFrontendImpl::" + nm)
        ls = LockSets(g)
        acc = [n for n in g.nodes if n.get("k") == "member" and n.get("n") == "cancelled"]
        ok = bool(acc) and all(any("stateMutex" in h for h in (ls.held_at_node(n) or set())) for n in acc)
        r.check(ok, "%s|cancelled-under-stateMutex" % nm, "%d accesses" % len(acc), "`cancelled` accessed without stateMutex", g)
