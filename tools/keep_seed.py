#!/usr/bin/env python3
"""keep_seed.py <scratch id> <seed id> '<confirm json>' — copies a confirmed seeded change into /verif/seeded/<seed id>/"""
import json, os, shutil, sys
sid, name, conf = sys.argv[1], sys.argv[2], json.loads(sys.argv[3])
src = "/tmp/seed/%s-out" % sid
dst = "/verif/seeded/%s" % name
os.makedirs(dst, exist_ok=True)
for f in os.listdir(src):
    if os.path.isfile(os.path.join(src, f)) and os.path.getsize(os.path.join(src, f)) < 400000:
        shutil.copy(os.path.join(src, f), os.path.join(dst, f))
meta = {}
mp = os.path.join(src, "meta.json")
if os.path.exists(mp):
    try:
        meta = json.load(open(mp))
    except Exception as e:
        meta = {"agent_meta_unparsable": str(e)}
meta["confirmed_by_main_session"] = {
    "how": "tools/confirm_seed.sh in the sub-agent's scratch worktree: run_tests.sh with the change, run_demo.sh with the change, reverse-apply the patch + rebuild, run_demo.sh without it",
    **conf}
meta["property"] = meta.get("property", sid[:3])
json.dump(meta, open(os.path.join(dst, "meta.json"), "w"), indent=1)
print("kept", dst, sorted(os.listdir(dst)))
