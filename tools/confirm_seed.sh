#!/bin/bash
# usage: confirm_seed.sh <id>  — in the scratch worktree /tmp/seed/<id> (change applied by the sub-agent):
#   1. the patch in <id>-out/patch.diff equals the worktree diff   2. tests pass with the change
#   3. demo fails with the change   4. demo passes without it.  Prints a JSON line with the outcome.
N=$1; W=/tmp/seed/$N; O=/tmp/seed/$N-out
cd $W || exit 2
git diff > /tmp/seed/$N.cur.diff
same=$(diff -q <(grep -v '^index ' /tmp/seed/$N.cur.diff) <(grep -v '^index ' $O/patch.diff) >/dev/null && echo true || echo false)
./run_tests.sh > /tmp/seed/$N.tests.log 2>&1; t=$?
npass=$(grep -c PASSED /tmp/seed/$N.tests.log)
( cd $W && timeout 900 bash $O/run_demo.sh $W ) > /tmp/seed/$N.demo_with.log 2>&1; d1=$?
git apply -R /tmp/seed/$N.cur.diff || { echo '{"id": "'$N'", "error": "cannot reverse patch"}'; exit 2; }
cmake --build _build -j8 >/dev/null 2>&1
( cd $W && timeout 900 bash $O/run_demo.sh $W ) > /tmp/seed/$N.demo_without.log 2>&1; d2=$?
git apply /tmp/seed/$N.cur.diff
echo "{\"id\": \"$N\", \"patch_matches_worktree\": $same, \"tests_rc_with_change\": $t, \"test_binaries_passed\": $npass, \"demo_rc_with_change\": $d1, \"demo_rc_without_change\": $d2}"
