#!/usr/bin/env python3
"""setup_cmd: build the llbx extractor from tool/llbx.cc (offline, ~25 s)."""
import os, sys
sys.path.insert(0, os.path.dirname(os.path.dirname(os.path.abspath(__file__))))
from sa import facts
facts.ensure_tool()
print("llbx ready:", facts.LLBX)
