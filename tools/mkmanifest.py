#!/usr/bin/env python3
"""Regenerates MANIFEST.json from rules/Cxx.py metadata and NOT_APPLICABLE below."""
import importlib
import json
import os
import sys

HERE = os.path.dirname(os.path.dirname(os.path.abspath(__file__)))
sys.path.insert(0, HERE)

ALL = ["C%02d" % i for i in range(1, 21)]

# properties (still) without a rule set; reason is updated as rules land
NOT_APPLICABLE = {}

LEVEL_TEXT = ("structural necessary conditions only: the check decides, on every instance in the resolved program "
              "(clang-14 AST + CFG of /repo's working tree, production flags), the code-shape obligations this "
              "behavioural property rests on; it does not prove the behavioural property. ")

manifest = {
    "version": 1,
    "setup_cmd": "python3 tools/setup.py",
    "hooks": {
        "guard": "LLBUILD_VERIF",
        "enable": "none needed: the analysis reads the unmodified sources; no hook code exists in /repo",
        "baseline_off_cmd": "/verif/tools/run_repo_tests.sh",
        "source_commits": [],
        "add_only": True,
    },
    "engines": [
        {"name": "llbx", "path": "tool/llbx.cc", "serves_properties": ALL,
         "kind_free_text": "libTooling (clang 14) fact extractor: typed AST node tables + clang::CFG (all sub-expressions, implicit dtors, initialisers) per function; records, enums, literal tables"},
        {"name": "sa", "path": "sa/", "serves_properties": ALL,
         "kind_free_text": "Python static-analysis library over the facts: CFG reachability / must-pass-through / dominance, branch-fact must-dataflow, lockset, exactly-once typestate, cursor-bounds abstract interpretation, table/codec/SQL agreement, call graph"},
    ],
    "checks": [],
    "not_applicable": [],
    "notes": "Static analysis only. Exit 0 pass, 1 violation, 2 analysis broken (anchor vanished / floor missed / parse error). "
             "known_findings.json lists recorded genuine defects and fixed ones.",
}

for pid in ALL:
    path = os.path.join(HERE, "rules", pid + ".py")
    if not os.path.exists(path) or pid in NOT_APPLICABLE:
        manifest["not_applicable"].append({
            "property_id": pid,
            "reason": NOT_APPLICABLE.get(pid, "rule set not built yet (see DESIGN.md section 3 for the planned structural rules)")})
        continue
    mod = importlib.import_module("rules." + pid)
    manifest["checks"].append({
        "property_id": pid,
        "quick_cmd": "./check %s --tier quick" % pid,
        "thorough_cmd": "./check %s --tier thorough" % pid,
        "evidence_file": "evidence/%s.json" % pid,
        "replay_cmd_template": "./check %s --explain {path}" % pid,
        "engine": "llbx+sa",
        "level_claimed": {
            "category": "other",
            "text": LEVEL_TEXT + "Decided: " + getattr(mod, "EXPLANATION", "") + " Not decided: " + getattr(mod, "NOT_DECIDED", ""),
            "design_ref": "DESIGN.md section 3, " + pid,
        },
        "level_note": "trusted: clang 14 front end and CFG builder, the llbx extractor, the exemption/role tables in rules/%s.py; "
                      "SQLite/POSIX documented behaviour where named" % pid,
        "technique": getattr(mod, "TECHNIQUE", "static analysis: custom AST/CFG checker over the type-checked program"),
    })

with open(os.path.join(HERE, "MANIFEST.json"), "w") as f:
    json.dump(manifest, f, indent=1)
print("checks:", [c["property_id"] for c in manifest["checks"]])
print("n/a:", [c["property_id"] for c in manifest["not_applicable"]])
