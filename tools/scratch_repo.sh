#!/bin/bash
# usage: scratch_repo.sh make   -> prints the path of a fresh scratch copy of /repo's working tree (sources only, no .git, no _build)
#        scratch_repo.sh reset <dir>  -> brings the scratch copy back to /repo's working tree
#        scratch_repo.sh drop <dir>
# The development tools (try_seed.sh, seed_matrix.py, refactor_matrix.py) patch such a copy and point the checks at it with
# VERIF_REPO; they never modify /repo, so an interrupted run cannot leave a seeded change behind in the real tree.
set -e
case "$1" in
  make)  D=$(mktemp -d /tmp/verif-scratch.XXXXXX); rsync -a --delete --exclude=/_build --exclude=/.git /repo/ "$D"/; echo "$D";;
  reset) case "$2" in /tmp/verif-scratch.*) rsync -a --delete --exclude=/_build --exclude=/.git /repo/ "$2"/;; *) echo "not a scratch copy: $2" >&2; exit 2;; esac;;
  drop)  case "$2" in /tmp/verif-scratch.*) rm -rf "$2";; *) echo "not a scratch copy: $2" >&2; exit 2;; esac;;
  *) echo "usage: scratch_repo.sh make | reset <dir> | drop <dir>" >&2; exit 2;;
esac
