#!/bin/bash
# usage: try_seed.sh <patch.diff> [props...]  — applies the patch to a scratch copy of /repo (never to /repo itself), runs the
# quick checks against the copy (VERIF_REPO; evidence diverted to out/tryruns so evidence/ keeps describing the real tree), drops the copy.
P=$1; shift
PROPS=${@:-C01 C02 C03 C04 C05 C06 C07 C08 C09 C10 C11 C12 C13 C14 C15 C16 C17 C18 C19 C20}
D=$(/verif/tools/scratch_repo.sh make) || exit 2
trap '/verif/tools/scratch_repo.sh drop "$D"' EXIT
(cd "$D" && patch -p1 -s --no-backup-if-mismatch < "$P") || { echo "patch does not apply"; exit 2; }
cd /verif
mkdir -p out/tryruns
for p in $PROPS; do
  out=$(VERIF_REPO="$D" VERIF_EVIDENCE_DIR=/verif/out/tryruns ./check $p --tier quick 2>&1); rc=$?
  if [ $rc -ne 0 ]; then
    echo "== $p rc=$rc"; echo "$out" | grep -E "^  [a-z].*\[R-|ANALYSIS-BROKEN|VIOLATION" | cut -c1-260 | head -8
  fi
done
echo "-- scratch copy dropped; /repo untouched"
