#!/bin/bash
# usage: try_seed.sh <patch.diff> [props...]  — applies the patch to /repo, runs the quick checks, reverts.
P=$1; shift
PROPS=${@:-C01 C02 C03 C04 C05 C06 C07 C08 C09 C10 C11 C12 C13 C14 C15 C16 C17 C18 C19 C20}
cd /repo
if ! git diff --quiet; then echo "/repo has uncommitted changes; refusing"; exit 2; fi
git apply "$P" || { echo "patch does not apply"; exit 2; }
cd /verif
for p in $PROPS; do
  out=$(./check $p --tier quick 2>&1); rc=$?
  if [ $rc -ne 0 ]; then
    echo "== $p rc=$rc"; echo "$out" | grep -E "^  [a-z].*\[R-|ANALYSIS-BROKEN|VIOLATION" | cut -c1-260 | head -8
  fi
done
git -C /repo checkout -- .
git -C /repo status --short | grep -v "^??" | head -3
echo "-- reverted"
