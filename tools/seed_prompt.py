#!/usr/bin/env python3
"""Prints the prompt given to an independent bug-injection sub-agent for property <id>.
The agent gets only the property text and its own scratch worktree /tmp/seed/<id> — nothing from /verif."""
import json, sys, os
HERE = os.path.dirname(os.path.dirname(os.path.abspath(__file__)))
props = {json.loads(l)['id']: json.loads(l) for l in open(os.path.join(HERE, 'properties.jsonl'))}
pid = sys.argv[1]
variant = sys.argv[2] if len(sys.argv) > 2 else ""
p = props[pid]
# later rounds: one line per change already produced for this property by earlier sub-agents (their own words, nothing
# about the checks), so that a new agent explores a different mechanism
prior = []
sd = os.path.join(HERE, 'seeded')
for d in sorted(os.listdir(sd)) if variant and os.path.isdir(sd) else []:
    if d.startswith(pid + '-'):
        prior.append(d.split('-', 2)[2].replace('-', ' '))
EXTRA = {"C01": "anything about when or whether the build epoch (iteration number) is written to the database",
         "C03": "anything about when or whether the build epoch (iteration number) is written to the database",
         "C04": "anything about when or whether the build epoch (iteration number) is written to the database",
         "C05": "anything about when or whether the build epoch (iteration number) is written to the database",
         "C02": "anything in DependencyKeyIDs::cleanSingleUseDependencies"}
if prior and pid in EXTRA:
    prior.append(EXTRA[pid])
avoid = ("\n\nOTHER CONTRIBUTORS ALREADY PRODUCED these injections for this property; choose a DIFFERENT mechanism, preferably in a different function or file: "
         + '; '.join(prior) + '.') if prior else ''
print(f"""You are helping to test a verification harness by producing a realistic BUG INJECTION for the open-source project apple/swift-llbuild (C++). Work ONLY inside the scratch git worktree /tmp/seed/{pid}{variant} (a full checkout with a configured build in ./_build; `./run_tests.sh` rebuilds and runs the project's 83 pinned unit tests, ~30 s). Do not read or touch /repo or /verif, and do not use the network.

THE PROPERTY your change must break (this is all you are told about what is being verified):

  Title: {p['title']}
  Statement: {p['statement']}
  Quantified over: {p['quantifier']['text']}
  Relevant source files: {', '.join(p['anchors']['files'])}{avoid}

YOUR TASK
1. Read the relevant llbuild sources and design ONE small, realistic change to the llbuild sources (lib/, include/, products/ — not the tests) that makes the property FALSE, in the way a plausible regression or careless refactoring would (a dropped check, a swapped operand or argument, a wrong comparison operator, a missing lock/notify, a skipped step on one path, an off-by-one, a forgotten field, two cooperating edits that each look fine alone ...).
2. The change MUST still compile and ALL existing unit tests must still pass (`./run_tests.sh` must print PASSED for all seven binaries and exit 0).
3. Prefer a change that needs something SPECIFIC to manifest — a particular interleaving, a crash or fault at a particular point, a multi-step sequence of builds/operations, an unusual input, or two cooperating sites — rather than one that ordinary use would expose at once.
4. Write a DEMONSTRATION that fails with your change and passes without it: a small C++ program linked against the worktree's static libraries (./_build/lib/libllbuildCore.a, libllbuildBuildSystem.a, libllbuildBasic.a, libllbuildNinja.a, libllvmSupport.a, libLLVMDemangle.a, plus -lsqlite3 -lpthread -lcurses; compile with `clang++-16 -std=c++14 -fno-rtti -fno-exceptions -I include -include include/libstdc++14-workaround.h`), or a shell script driving ./_build/bin/llbuild (subcommands `ninja build`, `buildsystem build`, `buildengine ...`). Verify BOTH directions yourself: with the change the demonstration fails (non-zero exit / wrong output), and after reverting your change (save it with `git diff > /tmp/seed/{pid}{variant}-out/patch.diff`, revert with `git apply -R`, re-apply with `git apply`; do NOT use `git stash`: the stash is shared between worktrees of other agents) + rebuild it passes (then re-apply + rebuild). If the breakage is timing dependent, make the demonstration deterministic (sleeps or hooks inside your demo program, fault injection through LD_PRELOAD, ...) or explain exactly what interleaving is needed and show it with a directed test.
5. Leave the worktree WITH your change applied (uncommitted), and write these files into /tmp/seed/{pid}{variant}-out/ :
   - patch.diff   : output of `git diff` in the worktree (source changes only; must apply with `git apply` to a clean checkout)
   - the demonstration source/script (e.g. demo.cc or demo.sh) plus run_demo.sh that builds and runs it from the worktree root (it may take the worktree root as $1, default the current directory) and exits 0 when the property holds / non-zero when it is violated
   - meta.json    : {{"property": "{pid}", "summary": "...one paragraph: what was changed and why it breaks the property...", "needs_to_manifest": "...what specific input/schedule/history is required...", "files_changed": [...], "verified": {{"tests_pass_with_change": true/false, "demo_fails_with_change": true/false, "demo_passes_without_change": true/false}}, "commands_run": ["..."]}}
6. Finish with a short report: the diff, how the demo behaves in both directions, and anything uncertain. If after a serious attempt you cannot find a change that passes the existing tests, report the best candidate and which test caught it.

Keep the patch small (ideally < 25 changed lines). Do not modify or add files under unittests/ or tests/ in the patch. Be careful and honest about what you verified.""")
