#!/bin/bash
# usage: mkseed_worktree.sh <name>   -> /tmp/seed/<name> (detached worktree of /repo HEAD, configured and built)
set -e
N=$1; D=/tmp/seed/$N
mkdir -p /tmp/seed
git -C /repo worktree add -f --detach $D HEAD -q
cd $D
cmake -G Ninja -B _build -DCMAKE_BUILD_TYPE=RelWithDebInfo -DCMAKE_CXX_COMPILER=/usr/bin/clang++-16 -DCMAKE_C_COMPILER=/usr/bin/clang-16 -DCMAKE_CXX_FLAGS=-Wno-error -DCMAKE_C_FLAGS=-Wno-error >/dev/null 2>&1
cmake --build _build -j8 >/dev/null 2>&1
cat > run_tests.sh <<'T'
#!/bin/bash
# builds this worktree and runs the 83 pinned unit tests
cd "$(dirname "$0")"
cmake --build _build -j8 2>&1 | grep -E "error|FAILED" | head -20
fail=0
for t in BasicTests CoreTests BuildSystemTests NinjaTests CAPITests EvoTests CASTests; do
  out=$(./_build/bin/$t 2>&1) || fail=1
  echo "$out" | grep -E "^\[  (PASSED|FAILED)" | sed "s/^/$t: /"
done
exit $fail
T
chmod +x run_tests.sh
mkdir -p /tmp/seed/$N-out
echo "ready: $D"
