#!/usr/bin/env python3
"""Writes sa/localnames.json from /repo's current tree: for every function its parameter names by position and its locals (name, type) in
declaration order.  Run on the reference tree only (it is the table a renamed tree is normalised against)."""
import json, os, sys
sys.path.insert(0, "/verif")
os.environ["VERIF_NO_ALPHA"] = "1"
from sa import facts
from sa.facts import Program, extract
prog = Program(extract(facts.all_units()))
table = {}
for fn in prog.functions.values():
    ls = []
    for n in fn.nodes:
        if n.get("k") == "decl":
            for v in n.get("vars", []):
                if v.get("n") and v.get("did") is not None:
                    ls.append([v["n"], fn.db_types[v["ct"]] if "ct" in v else fn.db_types[v["t"]]])
        elif n.get("k") == "forrange" and n.get("var") and n.get("vardid") is not None:
            ls.append([n["var"], fn.db_types[n["vart"]] if "vart" in n else ""])
    ps = [p.get("n", "") for p in fn.params]
    if ls or any(ps):
        table[fn.key.split("@")[0]] = {"p": ps, "l": ls}
json.dump(table, open("/verif/sa/localnames.json", "w"), separators=(",", ":"), sort_keys=True)
print("functions recorded:", len(table), "bytes:", os.path.getsize("/verif/sa/localnames.json"))
