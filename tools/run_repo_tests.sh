#!/bin/bash
# Builds /repo/_build and runs the pinned unit-test binaries (the 83-test baseline).
set -e
cmake --build /repo/_build -j16 >/dev/null
fail=0; total=0
cd /repo/_build
for t in BasicTests CoreTests BuildSystemTests NinjaTests CAPITests EvoTests CASTests; do
  if [ -x bin/$t ]; then
    out=$(./bin/$t 2>&1) || fail=1
    echo "$out" | grep -E "^\[  (PASSED|FAILED)|tests ran" | sed "s/^/$t: /"
  fi
done
exit $fail
