#!/usr/bin/env python3
"""Prompt for an independent sub-agent producing BEHAVIOUR-PRESERVING refactorings (to measure false alarms of the checks).
usage: refactor_prompt.py <name> <file> [<file> ...]   (worktree /tmp/seed/<name>, outputs /tmp/seed/<name>-out/)"""
import sys
import os
name = sys.argv[1]
args = sys.argv[2:]
files = [a for a in args if not a.startswith("fn=")]
fns = [a[3:] for a in args if a.startswith("fn=")]
N = int(os.environ.get("REFACTOR_COUNT", "6"))
words = {6: "SIX", 8: "EIGHT", 10: "TEN"}.get(N, str(N))
focus = ("\nFUNCTIONS to choose from (pick among these first; they carry the logic we care about): " + ", ".join(fns) + "\n") if fns else ""
print(f"""You are helping to test a static verification harness for the open-source project apple/swift-llbuild (C++). The harness must stay SILENT on code whose behaviour is unchanged, so we need realistic BEHAVIOUR-PRESERVING refactorings to try it on. Work ONLY inside the scratch git worktree /tmp/seed/{name} (a full checkout with a configured build in ./_build; `./run_tests.sh` rebuilds and runs the project's 83 pinned unit tests, ~30 s). Do not read or touch /repo or /verif, and do not use the network. Do not use `git stash` (the stash is shared with other worktrees).

FILES to refactor (pick functions that carry real logic, not trivial accessors): {', '.join(files)}
{focus}
YOUR TASK
Produce {words} independent refactorings, each touching one or two functions, each of the kind a maintainer does during clean-up and each preserving the observable behaviour EXACTLY (same results, same side effects in the same order, same locking, same error handling, same memory accesses being in bounds). Use a VARIETY of kinds, for example:
  - introduce or inline a local variable / a named boolean for a condition;
  - turn `if (c) {{ A; return; }} B;` into `if (c) {{ A; }} else {{ B; }}` or vice versa; invert a condition and swap the arms; merge nested ifs into `&&` or split an `&&`;
  - replace an index loop by an iterator / range-for loop or vice versa (same order, same bounds); turn a `while` into a `for`;
  - extract a small static/private helper function (or lambda) for a block and call it, or inline an existing tiny helper;
  - reorder two statements that are truly independent (no shared state, no ordering requirement);
  - replace `a != b` by `!(a == b)`, `x < y` by `y > x`, De Morgan, `size() == 0` by `empty()`;
  - rename locals / parameters; change `auto` to the explicit type; replace a C-style cast by static_cast;
  - replace a `switch` by an if-chain or vice versa (same cases).
Do NOT change algorithms, constants, string literals that reach users or files, lock scopes, the order of externally visible calls (callbacks, system calls, database statements), or error handling.

For EACH refactoring k = 1..{N}:
  1. start from a clean tree (`git checkout -- .`), apply only that refactoring, run `./run_tests.sh` (all seven binaries must print PASSED, exit 0);
  2. save it: `git diff > /tmp/seed/{name}-out/r<k>.diff`;
  3. write one line to /tmp/seed/{name}-out/r<k>.txt: the function(s) touched, the kind of refactoring, and why behaviour is unchanged.
Finish with `git checkout -- .` (clean tree) and a short report listing the refactorings. If a refactoring fails the tests, fix or drop it and report honestly which ones are verified. Be careful: a refactoring that accidentally changes behaviour is worse than none.""")
