#!/usr/bin/env python3
"""rename_locals.py <Cxx> [function-substring] — robustness test: for every function that carries an obligation of property Cxx, rename ALL its
locals and parameters (name -> name_rn) on a scratch overlay and re-run the property's rules.  A new violation is a FALSE ALARM (the rule keyed
on a local's name instead of its role).  Nothing under /repo is modified."""
import importlib, json, os, re, sys
sys.path.insert(0, "/verif")
from sa import facts
from sa.facts import Program, extract, relpath, AnalysisBroken
from sa.mutate import overlay_program, violations_of
from sa.report import Report

prop = sys.argv[1]
only = sys.argv[2] if len(sys.argv) > 2 else None
mod = importlib.import_module("rules." + prop)
prog = Program(extract(list(mod.UNITS)))


class Ctx(object):
    pass


base = violations_of(prop, mod, prog)
inst = json.load(open("/verif/out/inst/%s.json" % prop)) if os.path.exists("/verif/out/inst/%s.json" % prop) else []
keys = sorted(set(i["function"] for i in inst if i.get("function")))
done = 0
bad = 0
for k in keys:
    f = prog.functions.get(k)
    if f is None or f.is_lambda or not f.endline:
        continue
    if only and only not in k:
        continue
    rel = relpath(f.file)
    path = os.path.join(facts.REPO, rel)
    if not os.path.isfile(path):
        continue
    names = set(p["n"] for p in f.params if p.get("n"))
    fns = [f] + prog.lambdas_of(f)
    for g in fns:
        for d in g.nodes:
            if d.get("k") == "decl":
                for v in d.get("vars", []):
                    if v.get("n"):
                        names.add(v["n"])
            if d.get("k") == "forrange" and d.get("var"):
                names.add(d["var"])
        for p in g.params:
            if p.get("n"):
                names.add(p["n"])
    # do not touch names that are also members / functions used in the body (shadowing would change meaning)
    used_members = set(n.get("n") for g in fns for n in g.nodes if n.get("k") == "member")
    names = set(n for n in names if n not in used_members and len(n) > 0 and n not in ("this",))
    if not names:
        continue
    lines = open(path).read().split("\n")
    lo, hi = f.line - 1, f.endline
    pat = re.compile(r"(?<![\w.>:])(%s)\b(?!\s*::)" % "|".join(sorted(map(re.escape, names), key=len, reverse=True)))
    body = "\n".join(lines[lo:hi])
    # keep string literals and comments as they are
    out, i = [], 0
    tok = re.compile(r'"(?:\\.|[^"\\])*"|\'(?:\\.|[^\'\\])*\'|//[^\n]*|/\*.*?\*/', re.S)
    for m in tok.finditer(body):
        out.append(pat.sub(lambda mm: mm.group(1) + "_rn", body[i:m.start()]))
        out.append(m.group(0))
        i = m.end()
    out.append(pat.sub(lambda mm: mm.group(1) + "_rn", body[i:]))
    new = "\n".join(lines[:lo] + "".join(out).split("\n") + lines[hi:])
    if new == "\n".join(lines):
        continue
    done += 1
    short = k.replace("(anonymous namespace)::", "").split("(")[0].split("::")[-2:]
    try:
        p2 = overlay_program(list(mod.UNITS), {rel: new}, tag=prop + "-rn")
        got = violations_of(prop, mod, p2)
    except AnalysisBroken as e:
        msg = str(e)[-160:]
        status = "does-not-compile/analysis-broken"
        print("%-60s %s  %s" % ("::".join(short), status, msg.replace("\n", " ")[:150]))
        continue
    except Exception as e:
        import traceback
        print("%-60s RULE-CRASH %s" % ("::".join(short), traceback.format_exc()[-200:].replace("\n", " ")))
        bad += 1
        continue
    newv = got - base
    if newv:
        bad += 1
        print("%-60s FALSE-ALARM %s" % ("::".join(short), "; ".join("%s %s" % x for x in sorted(newv))[:260]))
    else:
        print("%-60s silent (%d names)" % ("::".join(short), len(names)))
print("%s: %d functions renamed, %d with false alarms" % (prop, done, bad))
