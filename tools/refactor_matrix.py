#!/usr/bin/env python3
"""refactor_matrix.py <dir-with-r*.diff> [...] — applies each behaviour-preserving refactoring in turn to a scratch copy of /repo's
working tree (tools/scratch_repo.sh; /repo itself is never modified), runs all 20 quick checks against the copy (VERIF_REPO; evidence diverted), resets the copy.  Any exit 1 is a FALSE ALARM of that check; exit 2 means an anchor the analysis needs was restructured."""
import glob, json, os, re, subprocess, sys
from concurrent.futures import ThreadPoolExecutor
V = "/verif"
PROPS = ["C%02d" % i for i in range(1, 21)]


def sh(cmd, **kw):
    return subprocess.run(cmd, shell=True, stdout=subprocess.PIPE, stderr=subprocess.STDOUT, universal_newlines=True, **kw)


def run_check(p):
    env = dict(os.environ, VERIF_REPO=SCRATCH, VERIF_EVIDENCE_DIR=os.path.join(V, "out", "refactorruns"))
    os.makedirs(env["VERIF_EVIDENCE_DIR"], exist_ok=True)
    r = sh("./check %s --tier quick" % p, cwd=V, env=env)
    lines = [l.strip()[:300] for l in r.stdout.split("\n") if "[R-" in l or "ANALYSIS-BROKEN" in l]
    return p, r.returncode, lines


SCRATCH = sh(V + "/tools/scratch_repo.sh make").stdout.strip()   # /repo itself is never modified
import atexit
atexit.register(lambda: sh(V + "/tools/scratch_repo.sh drop " + SCRATCH))
out = {}
for d in sys.argv[1:]:
    for pf in sorted(glob.glob(os.path.join(os.path.abspath(d), "r*.diff"))):
        if os.path.getsize(pf) == 0:
            continue
        a = sh("patch -p1 -s --no-backup-if-mismatch < %s" % pf, cwd=SCRATCH)
        if a.returncode != 0:
            print("%-40s does not apply" % pf); sh(V + "/tools/scratch_repo.sh reset " + SCRATCH); continue
        try:
            with ThreadPoolExecutor(max_workers=8) as ex:
                res = list(ex.map(run_check, PROPS))
        finally:
            sh(V + "/tools/scratch_repo.sh reset " + SCRATCH)
        fa = [(p, l) for p, rc, l in res if rc == 1]
        br = [(p, l) for p, rc, l in res if rc == 2]
        out[pf] = {"false_alarm": fa, "analysis_broken": br}
        print("%-40s false alarms: %-20s broken: %s" % (pf.replace("/tmp/seed/", ""), ",".join(p for p, _ in fa) or "-", ",".join(p for p, _ in br) or "-"))
        for p, l in fa + br:
            for x in l[:3]:
                print("      %s %s" % (p, x[:220]))
json.dump(out, open(os.path.join(V, "out", "refactor_matrix.json"), "w"), indent=1)
