#!/usr/bin/env python3
"""seed_matrix.py [seed-name-prefix...] — applies every kept seeded change (seeded/<name>/patch.diff) in turn to a scratch copy
of /repo's working tree (tools/scratch_repo.sh; /repo itself is never modified), runs all 20 quick checks against the copy (VERIF_REPO;
evidence diverted to out/seedruns so evidence/ keeps describing the real tree), resets the copy, and
writes seeded/MATRIX.json + seeded/MATRIX.md: which checks (and rules) fire on which change."""
import json, os, re, subprocess, sys
from concurrent.futures import ThreadPoolExecutor
V = "/verif"
PROPS = ["C%02d" % i for i in range(1, 21)]


def sh(cmd, **kw):
    return subprocess.run(cmd, shell=True, stdout=subprocess.PIPE, stderr=subprocess.STDOUT, universal_newlines=True, **kw)


def run_check(args):
    seed, p = args
    env = dict(os.environ, VERIF_REPO=SCRATCH, VERIF_EVIDENCE_DIR=os.path.join(V, "out", "seedruns", seed))
    os.makedirs(env["VERIF_EVIDENCE_DIR"], exist_ok=True)
    r = sh("./check %s --tier quick" % p, cwd=V, env=env)
    rules = sorted(set(re.findall(r"\[(R-[A-Z0-9-]+)\]", r.stdout)))
    return p, r.returncode, rules


SCRATCH = None


def main():
    global SCRATCH
    SCRATCH = sh(V + "/tools/scratch_repo.sh make").stdout.strip()
    try:
        return run()
    finally:
        sh(V + "/tools/scratch_repo.sh drop " + SCRATCH)


def run():
    pref = sys.argv[1:]
    seeds = sorted(d for d in os.listdir(os.path.join(V, "seeded")) if os.path.isfile(os.path.join(V, "seeded", d, "patch.diff")))
    if pref:
        seeds = [s for s in seeds if any(s.startswith(x) for x in pref)]
    mpath = os.path.join(V, "seeded", "MATRIX.json")
    matrix = json.load(open(mpath)) if os.path.exists(mpath) else {}
    for s in seeds:
        a = sh("patch -p1 -s --no-backup-if-mismatch < %s" % os.path.join(V, "seeded", s, "patch.diff"), cwd=SCRATCH)
        if a.returncode != 0:
            print(s, "PATCH DOES NOT APPLY", a.stdout[:200])
            matrix[s] = {"error": "patch does not apply"}
            sh(V + "/tools/scratch_repo.sh reset " + SCRATCH)
            continue
        try:
            with ThreadPoolExecutor(max_workers=8) as ex:
                res = list(ex.map(run_check, [(s, p) for p in PROPS]))
        finally:
            sh(V + "/tools/scratch_repo.sh reset " + SCRATCH)
        target = s[:3]
        fired = {p: rules for p, rc, rules in res if rc == 1}
        broken = [p for p, rc, rules in res if rc == 2]
        matrix[s] = {"target": target, "fired": fired, "analysis_broken": broken, "target_detects": target in fired}
        print("%-55s target %s: %-8s also: %s%s" % (s, target, "DETECTED" if target in fired else "MISSED", ",".join(p for p in fired if p != target) or "-",
                                                     (" BROKEN:" + ",".join(broken)) if broken else ""))
    json.dump(matrix, open(mpath, "w"), indent=1, sort_keys=True)
    with open(os.path.join(V, "seeded", "MATRIX.md"), "w") as f:
        f.write("| seeded change | target | detected by target check (rules) | other checks that fire |\n|---|---|---|---|\n")
        for s in sorted(matrix):
            m = matrix[s]
            if "error" in m:
                f.write("| %s | | %s | |\n" % (s, m["error"]))
                continue
            t = m["target"]
            f.write("| %s | %s | %s | %s |\n" % (s, t, ("yes: " + ", ".join(m["fired"][t])) if t in m["fired"] else "**no**",
                                                  "; ".join("%s (%s)" % (p, ", ".join(r)) for p, r in sorted(m["fired"].items()) if p != t) or "-"))
    return 0


sys.exit(main())
