#!/bin/bash
# Replay for F-23 (C12): with content-exclusion-patterns, adding an excluded name BELOW the top level re-runs the consumer of the
# directory-tree input (at the top level it is correctly hidden).
T=$(mktemp -d /tmp/c12breplay.XXXX); L=${1:-/repo/_build/bin/llbuild}
mkdir -p $T/src/sub; echo a > $T/src/sub/a.txt; echo t > $T/src/top.txt
cat > $T/build.llbuild <<'Y'
client:
  name: basic
targets:
  "": ["out.txt"]
nodes:
  "src/":
    content-exclusion-patterns: ["*.tmp"]
commands:
  C.gen:
    tool: shell
    inputs: ["src/"]
    outputs: ["out.txt"]
    args: echo ran >> log.txt; cat src/sub/a.txt > out.txt
Y
cd $T
$L buildsystem build --serial -f build.llbuild >/dev/null 2>&1; sleep 1.1
echo x > src/x.tmp;     $L buildsystem build --serial -f build.llbuild >/dev/null 2>&1; top=$(wc -l < log.txt); sleep 1.1
echo x > src/sub/y.tmp; $L buildsystem build --serial -f build.llbuild >/dev/null 2>&1; deep=$(wc -l < log.txt)
cd /; rm -rf $T
echo "runs after adding an excluded file at the top level: $top (expected 1); after adding one at depth 1: $deep (expected 1)"
[ "$top" = 1 ] && [ "$deep" = 1 ]
