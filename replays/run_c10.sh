#!/bin/bash
# C10 replay (F-26): a command whose process is killed with SIGKILL from outside (here: by itself) ends `cancelled`; before the fix nothing
# counted it, its consumer was skipped and `llbuild buildsystem build` exited 0.  Expected after the fix: non-zero exit.
T=$(mktemp -d /tmp/c10replay.XXXX)
cat > $T/build.llbuild <<'M'
client:
  name: basic

targets:
  "": ["out.c"]

commands:
  A:
    tool: shell
    outputs: ["out.a"]
    args: "kill -KILL $$"
  B:
    tool: shell
    inputs: ["out.a"]
    outputs: ["out.c"]
    args: "echo ran-B > out.c"
M
cmake --build /repo/_build --target llbuild -j16 >/dev/null 2>&1
/repo/_build/bin/llbuild buildsystem build --serial -C $T -f build.llbuild; rc=$?
echo "build exit status: $rc ; out.c $( [ -e $T/out.c ] && echo exists || echo 'was not produced')"
rm -rf $T
if [ $rc -eq 0 ]; then echo "DEFECT: the build reports success although command A was killed and B never ran"; exit 1; fi
echo "ok: the build reports failure"; exit 0
