// C13 replay (F-27): in device-agnostic mode an existing, empty file whose modification time is the epoch (0.0 — archives and reproducible
// builds produce such files) compares EQUAL to the record of a missing path: device and inode are zeroed by the wrapper, size and time
// are zero, and FileInfo::operator== does not look at the mode.
#include "llbuild/Basic/FileInfo.h"
#include "llbuild/Basic/FileSystem.h"
#include <sys/stat.h>
#include <fcntl.h>
#include <unistd.h>
#include <cstdio>
#include <cstdlib>
#include <string>
using namespace llbuild::basic;
int main() {
  char tmpl[] = "/tmp/c13epochXXXXXX";
  std::string dir = mkdtemp(tmpl);
  std::string f = dir + "/stamp", missing = dir + "/nothing-here";
  int fd = open(f.c_str(), O_CREAT | O_WRONLY, 0644); close(fd);
  struct timespec ts[2] = {{0, 0}, {0, 0}};
  utimensat(AT_FDCWD, f.c_str(), ts, 0);
  auto fs = DeviceAgnosticFileSystem::from(createLocalFileSystem());
  FileInfo e = fs->getFileInfo(f), m = fs->getFileInfo(missing);
  printf("existing file: isMissing=%d size=%llu mtime=%llu.%09llu   missing path: isMissing=%d\n", (int)e.isMissing(), (unsigned long long)e.size,
         (unsigned long long)e.modTime.seconds, (unsigned long long)e.modTime.nanoseconds, (int)m.isMissing());
  bool equal = (e == m);
  printf("records compare %s\n", equal ? "EQUAL  (existence change invisible)" : "unequal");
  unlink(f.c_str()); rmdir(dir.c_str());
  return equal ? 1 : 0;
}
