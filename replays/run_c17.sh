#!/bin/bash
# Replay for F-22 (C17): a subninja file may use the rules of the files above it (and the built-in phony rule).
T=$(mktemp -d /tmp/c17replay.XXXX); L=${1:-/repo/_build/bin/llbuild}
printf 'rule CC\n  command = cc $in -o $out\nbuild top.o: CC top.c\nsubninja sub.ninja\n' > $T/build.ninja
printf 'build sub.o: CC sub.c\nbuild all: phony sub.o\n' > $T/sub.ninja
out=$(cd $T && $L ninja load-manifest build.ninja 2>&1); rm -rf $T
if echo "$out" | grep -q "unknown rule"; then echo "VIOLATED: rules of the parent file are unknown in the subninja file"; echo "$out" | grep -A1 "unknown rule" | head -4; exit 1; fi
echo "$out" | grep -q 'command = "cc sub.c -o sub.o"' && { echo "OK: sub.o uses the parent's CC rule"; exit 0; }
echo "unexpected output"; exit 2
