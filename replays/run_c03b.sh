#!/bin/bash
# replay of F-28 (C03 and the other engine-anchored properties): the build iteration was written to the database only after a
# successful build, so a process that starts after a cancelled build re-used that build's iteration number and returned a stale
# result ("restart per build" differs from "one engine" in builds 3 and 4; exit 1).  Compiles /repo's current
# lib/Core/BuildEngine.cpp ahead of /repo/_build's archives, so no rebuild of /repo/_build is needed.
T=$(mktemp -d /tmp/c03breplay.XXXX)
clang++-14 -g -std=c++14 -fno-rtti -fno-exceptions -I/repo/include -I/repo/lib/llvm -include /repo/include/libstdc++14-workaround.h \
  /verif/replays/c03_epoch_restart.cc /repo/lib/Core/BuildEngine.cpp /repo/_build/lib/libllbuildCore.a /repo/_build/lib/libllbuildBasic.a \
  /repo/_build/lib/libllvmSupport.a /repo/_build/lib/libLLVMDemangle.a -lsqlite3 -lpthread -lcurses -o $T/drv 2>&1 | grep -E "error" | head
$T/drv; echo "exit=$?"; rm -rf $T
