// Concrete replay of F-06 (C13): FileChecksumHasherMD5::finalize() writes a local `output` that shadows the
// member copy() reads, so every regular file gets the same (never-written) checksum.
#include "llbuild/Basic/FileInfo.h"
#include <cstdio>
#include <cstring>
#include <fstream>
#include <unistd.h>
using namespace llbuild::basic;
int main() {
  { std::ofstream("/tmp/c13_a.txt") << "hello"; } { std::ofstream("/tmp/c13_b.txt") << "a completely different content"; }
  auto a = FileChecksum::getChecksumForPath("/tmp/c13_a.txt"), b = FileChecksum::getChecksumForPath("/tmp/c13_b.txt");
  printf("a: "); for (int i = 0; i < 16; ++i) printf("%02x", a.bytes[i]); printf("\nb: "); for (int i = 0; i < 16; ++i) printf("%02x", b.bytes[i]);
  printf("\nchecksums %s\n", a == b ? "EQUAL for different contents  <-- WRONG" : "differ");
  unlink("/tmp/c13_a.txt"); unlink("/tmp/c13_b.txt");
  return a == b ? 1 : 0;
}
