// Replay for finding F-20 (C15): a string with an embedded NUL in a BuildValue string list does not survive
// encode-then-decode, and two different lists encode to identical bytes.  Built with the production flags (-DNDEBUG):
// the constructors only assert.
#include "llbuild/BuildSystem/BuildValue.h"
#include "llbuild/Basic/StringList.h"
#include <cstdio>
#include <string>
#include <vector>
using namespace llbuild;
using namespace llbuild::buildsystem;
int main() {
  std::vector<std::string> one = { std::string("a\0b", 3) };
  std::vector<std::string> two = { "a", "b" };
  auto v1 = BuildValue::makeStaleFileRemoval(llvm::ArrayRef<std::string>(one));
  auto v2 = BuildValue::makeStaleFileRemoval(llvm::ArrayRef<std::string>(two));
  auto d1 = v1.toData(), d2 = v2.toData();
  auto back = BuildValue::fromData(d1).getStaleFileList();
  printf("list of 1 string \"a\\0b\" decodes to %zu strings; encodings of [\"a\\0b\"] and [\"a\",\"b\"] %s\n", back.size(),
         d1 == d2 ? "are IDENTICAL" : "differ");
  return (back.size() == 1 && d1 != d2) ? 0 : 1;
}
