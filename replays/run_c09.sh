#!/bin/bash
# Concrete replay of the C09 known findings F-03 (deps-style folded through combine(bool)) and F-04
# (adjacent list folds args|env) with the real llbuild binary (/repo/_build/bin/llbuild).
T=$(mktemp -d /tmp/c09replay.XXXX); L=/repo/_build/bin/llbuild
cat > $T/a.llbuild <<'E'
client:
  name: basic
tools: {}
targets:
  "": ["out"]
commands:
  C1:
    tool: shell
    outputs: ["out"]
    args: ["/bin/sh", "-c", "echo ran >> log; touch out; printf 'out: \n' > deps.d"]
    deps: "deps.d"
    deps-style: makefile
E
sed 's/deps-style: makefile/deps-style: dependency-info/' $T/a.llbuild > $T/b.llbuild
cat > $T/c.llbuild <<'E'
client:
  name: basic
tools: {}
targets:
  "": ["out2"]
commands:
  C2:
    tool: shell
    outputs: ["out2"]
    args: ["/bin/sh", "-c", "echo ran2 >> log2; touch out2", "K", "V"]
E
cat > $T/d.llbuild <<'E'
client:
  name: basic
tools: {}
targets:
  "": ["out2"]
commands:
  C2:
    tool: shell
    outputs: ["out2"]
    args: ["/bin/sh", "-c", "echo ran2 >> log2; touch out2"]
    env: {"K": "V"}
E
( cd $T
$L buildsystem build --serial --db build.db -f a.llbuild >/dev/null 2>&1; echo "F-03 build 1 (deps-style: makefile): $(wc -l < log) run(s)"
$L buildsystem build --serial --db build.db -f b.llbuild 2>&1 | tail -1; echo "F-03 build 2 (deps-style: dependency-info): $(wc -l < log) run(s)   [changed definition must re-run: 2 expected]"
$L buildsystem build --serial --db build2.db -f c.llbuild >/dev/null 2>&1; echo "F-04 build 1 (args [.., K, V], no env): $(wc -l < log2) run(s)"
$L buildsystem build --serial --db build2.db -f d.llbuild 2>&1 | tail -1; echo "F-04 build 2 (args [..], env {K: V}): $(wc -l < log2) run(s)   [changed definition must re-run: 2 expected]" )
rm -rf $T
